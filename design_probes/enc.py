from sm9ref import *
import hmac
ke=0x0001EDEE3778F441F8DEA3D9FA0ACC4E07EE36C93F9A08618AF4AD85CEDE1C22
Ppube=g1mul(ke,P1)
idb=b'Bob'; M=b'Chinese IBE standard'
r=0x0000AAC0541779C8FC45E3E2CB25C12B5D2576B2129AE8BB5EE2CBE5EC9E785C
QB=g1add(g1mul(H1(idb,3),P1),Ppube); C1=g1mul(r,QB)
print('C1',hex(C1[0]),hex(C1[1]))
g=pairing(Ppube,P2); w=f12pow(g,r)
C1b=C1[0].to_bytes(32,'big')+C1[1].to_bytes(32,'big')
K=kdf(C1b+f12bytes(w)+idb,len(M)+32); K1=K[:len(M)]; K2=K[len(M):]
C2=bytes(a^b for a,b in zip(M,K1))
print('C2',C2.hex())
print('C3 std  H(C2||K2)',sm3(C2+K2).hex())
def hmac_sm3(k,m):
    kb=k+b'\0'*(64-len(k)); return sm3(bytes(x^0x5c for x in kb)+sm3(bytes(x^0x36 for x in kb)+m))
print('C3 hmac',hmac_sm3(K2,C2).hex())
# de_B
t1=(H1(idb,3)+ke)%N; t2=ke*pow(t1,N-2,N)%N; de=g2mul(t2,P2)
print('de', [hex(c) for c in de[0]], [hex(c) for c in de[1]])
assert pairing(C1,de)==w
