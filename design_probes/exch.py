from sm9ref import *
ke=0x0002E65B0762D042F51F0D23542B13ED8CFA2E9A0E7206361E013A283905E31F
Ppube=g1mul(ke,P1)
ida=b'Alice'; idb=b'Bob'
def ext(idx):
    t1=(H1(idx,2)+ke)%N; t2=ke*pow(t1,N-2,N)%N; return g2mul(t2,P2)
deA=ext(ida); deB=ext(idb)
rA=0x00005879DD1D51E175946F23B1B41E93BA31C584AE59A426EC1046A4D03B06C8
rB=0x00018B98C44BEF9F8537FB7D071B2C928B3BC65BD3D69E1EEE213564905634FE
QB=g1add(g1mul(H1(idb,2),P1),Ppube); RA=g1mul(rA,QB)
QA=g1add(g1mul(H1(ida,2),P1),Ppube); RB=g1mul(rB,QA)
g=pairing(Ppube,P2)
g1=pairing(RA,deB); g2=f12pow(g,rB); g3=f12pow(g1,rB)
pb=lambda P:P[0].to_bytes(32,'big')+P[1].to_bytes(32,'big')
SKB=kdf(ida+idb+pb(RA)+pb(RB)+f12bytes(g1)+f12bytes(g2)+f12bytes(g3),16)
g1a=f12pow(g,rA); g2a=pairing(RB,deA); g3a=f12pow(g2a,rA)
SKA=kdf(ida+idb+pb(RA)+pb(RB)+f12bytes(g1a)+f12bytes(g2a)+f12bytes(g3a),16)
print(SKA.hex(),SKB.hex())
