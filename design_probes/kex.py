# SM2 key agreement (GB/T 32918.3) over Python ints; tries the GM/T 0003.5 recommended-curve example
from sm2ref import *
def xbar(x): w=127; return (1<<w) + (x & ((1<<w)-1))
def agree(dA,rA,idA,dB,rB,idB,klen):
    PA=mul(dA,G); PB=mul(dB,G); ZA=za(idA,PA); ZB=za(idB,PB)
    RA=mul(rA,G); RB=mul(rB,G)
    tB=(dB+xbar(RB[0])*rB)%n; V=mul(tB, add(PA, mul(xbar(RA[0]),RA)))
    tA=(dA+xbar(RA[0])*rA)%n; U=mul(tA, add(PB, mul(xbar(RB[0]),RB)))
    assert U==V
    K=kdf(i2b(V[0])+i2b(V[1])+ZA+ZB,klen)
    inner=sm3(i2b(V[0])+ZA+ZB+i2b(RA[0])+i2b(RA[1])+i2b(RB[0])+i2b(RB[1]))
    SB=sm3(b'\x02'+i2b(V[1])+inner); SA=sm3(b'\x03'+i2b(V[1])+inner)
    return K,SB,SA
if __name__=='__main__':
    dA=0x81EB26E941BB5AF16DF116495F90695272AE2CD63D6C4AE1678418BE48230029
    dB=0x785129917D45A9EA5437A59356B82338EAADDA6CEB199088F14AE10DEFA229B5
    rA=0xD4DE15474DB74D06491C440D305E012400990F3E390C7E87153C12DB2EA60BB3
    rB=0x7E07124814B309489125EAED101113164EBF0F3458C5BD88335C1F9D596243D6
    for ida,idb in [(b'1234567812345678',b'1234567812345678'),(b'ALICE123@YAHOO.COM',b'BILL456@YAHOO.COM')]:
        K,SB,SA=agree(dA,rA,ida,dB,rB,idb,16)
        print(ida,K.hex(),SB.hex(),SA.hex())
