from zuc import S0
import itertools
P1=[9,15,0,14,15,15,2,10,0,4,0,12,7,5,3,9]
P2=[8,13,6,5,7,0,12,4,11,1,14,10,15,3,9,2]
P3=[2,6,10,6,0,3,10,15,4,8,9,13,8,13,14,6]
def rotl8(x,k): return ((x<<k)|(x>>(8-k)))&0xff
for m in range(8):
  for order in range(2):
    ok=0
    for x in range(256):
        x1,x2=x>>4,x&15
        q1=x1^P1[x2]; q2=x2^P2[q1]; q3=q1^P3[q2]
        y=(q3<<4)|q2 if order==0 else (q2<<4)|q3
        if rotl8(y,m)==S0[x]: ok+=1
    if ok>200: print(m,order,ok)
# solve generally: does a 3-round structure fit? derive P tables from S0 with m=5
def rotr8(x,k): return ((x>>k)|(x<<(8-k)))&0xff
for m in range(8):
    # y' = rotr(S0[x], m) = (q3<<4)|q2 ; for x1: q1 = x1^P1[x2]; so for fixed x2, as x1 varies q1 takes all values; q2 = x2^P2[q1] => P2[q1] = q2^x2 ; need consistency across x2 given unknown P1[x2]
    # try all P1[0] guesses to define P2, then derive rest
    found=False
    for g in range(16):
        P2d={}
        x2=0
        okk=True
        for x1 in range(16):
            y=rotr8(S0[(x1<<4)|x2],m); q3,q2=y>>4,y&15
            q1=x1^g
            P2d[q1]=q2^x2
        # now for each other x2 find P1[x2] consistent
        P1d={0:g}
        for x2 in range(1,16):
            cands=[]
            for c in range(16):
                if all(( (rotr8(S0[(x1<<4)|x2],m)&15) ^ x2)==P2d[x1^c] for x1 in range(16)): cands.append(c)
            if len(cands)<1: okk=False;break
            P1d[x2]=cands[0]
        if not okk: continue
        # P3: q3 = q1 ^ P3[q2]
        P3d={}
        for x in range(256):
            x1,x2=x>>4,x&15; y=rotr8(S0[x],m); q3,q2=y>>4,y&15; q1=x1^P1d[x2]
            v=q3^q1
            if P3d.setdefault(q2,v)!=v: okk=False;break
        if okk:
            print('structure fits m=',m,'P1',[P1d[i] for i in range(16)],'P2',[P2d[i] for i in range(16)],'P3',[P3d[i] for i in range(16)]); found=True; break
