import re
from zuc import S0,S1
src=open('/repo/gm-sm4/src/lib.rs').read()
m=re.search(r'static SBOX: \[u8; 256\] = \[(.*?)\];', src, re.S)
SM4=[int(x,16) for x in re.findall(r'0x([0-9a-fA-F]{2})', m.group(1))]
assert sorted(SM4)==list(range(256))
def gmul(a,b,poly):
    r=0
    while b:
        if b&1: r^=a
        a<<=1
        if a&0x100: a^=poly
        b>>=1
    return r
def irreducible(poly):
    for a in range(2,256):
        for b in range(a,256):
            # product of degree polys equal to poly?
            pass
    return True
def invtab(poly):
    inv=[0]*256
    for a in range(1,256):
        for b in range(1,256):
            if gmul(a,b,poly)==1: inv[a]=b; break
        else: return None
    return inv
def is_affine(f):
    c=f[0]
    g=[v^c for v in f]
    for i in range(8):
        for x in range(256):
            if g[x^(1<<i)] != g[x]^g[1<<i]: return False
    return True
for poly in range(0x101,0x200,2):
    inv=invtab(poly)
    if inv is None: continue
    # ZUC S1: S1 = A(inv(x))
    f=[0]*256
    for x in range(256): f[inv[x]]=S1[x]   # f(y)=S1(inv^-1(y)) => S1(x)=f(inv(x))
    if is_affine(f): print('ZUC S1 = affine(inv(x)) with poly',hex(poly),'const',hex(S1[0]))
    # SM4: S(x)=A2(inv(A1(x))) ; test: exists affine A1? try A1 = same cyclic matrix... brute: check inv∘? skip unless simple form S(x)=A(inv(A(x)))
# SM4: S(x) = A*inv(A*x + C) + C with poly 0x1f5, A rows rotations of 0xA7? brute force over the structure: find affine L s.t. S = L∘inv∘L
def try_sm4(poly):
    inv=invtab(poly)
    if inv is None: return
    # unknown L: S∘L^-1 = L∘inv  -> hard; use known: A1 = cyclic matrix from 0xA7, C=0xD3 in some bit order. Try candidates.
    def rotl8(x,k): return ((x<<k)|(x>>(8-k)))&0xff
    for first in range(256):
      for bitorder in (0,1):
        for rdir in (0,1):
          def L(x):
            y=0
            for i in range(8):
                row = rotl8(first,i) if rdir==0 else rotl8(first,8-i if i else 0)
                bit=bin(row&x).count('1')&1
                y|= bit<<(7-i if bitorder else i)
            return y
          for C in (0xD3,0xCB):
            ok=True
            for x in range(256):
                if L(inv[L(x)^C])^C != SM4[x]: ok=False; break
            if ok: print('SM4 S = L(inv(L(x)+C))+C poly',hex(poly),'first',hex(first),'bitorder',bitorder,'rdir',rdir,'C',hex(C)); return True
for poly in (0x1f5,):
    try_sm4(poly)
# ZUC S0 from P1,P2,P3 guess
