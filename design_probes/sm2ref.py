import hashlib
def sm3(b): return hashlib.new('sm3', b).digest()
p=0xFFFFFFFEFFFFFFFFFFFFFFFFFFFFFFFFFFFFFFFF00000000FFFFFFFFFFFFFFFF
a=p-3
b=0x28E9FA9E9D9F5E344D5A9E4BCF6509A7F39789F515AB8F92DDBCBD414D940E93
n=0xFFFFFFFEFFFFFFFFFFFFFFFFFFFFFFFF7203DF6B21C6052B53BBF40939D54123
G=(0x32C4AE2C1F1981195F9904466A39C9948FE30BBFF2660BE1715A4589334C74C7,0xBC3736A2F4F6779C59BDCEE36B692153D0A9877CC62A474002DF32E52139F0A0)
def add(P,Q):
    if P is None: return Q
    if Q is None: return P
    if P[0]==Q[0]:
        if (P[1]+Q[1])%p==0: return None
        l=(3*P[0]*P[0]+a)*pow(2*P[1],p-2,p)%p
    else: l=(Q[1]-P[1])*pow(Q[0]-P[0],p-2,p)%p
    x=(l*l-P[0]-Q[0])%p; return (x,(l*(P[0]-x)-P[1])%p)
def mul(k,P):
    R=None
    for bit in bin(k)[2:]:
        R=add(R,R)
        if bit=='1': R=add(R,P)
    return R
def i2b(x): return x.to_bytes(32,'big')
def za(idb,P): return sm3((len(idb)*8).to_bytes(2,'big')+idb+i2b(a)+i2b(b)+i2b(G[0])+i2b(G[1])+i2b(P[0])+i2b(P[1]))
def kdf(z,klen):
    out=b''; ct=1
    while len(out)<klen: out+=sm3(z+ct.to_bytes(4,'big')); ct+=1
    return out[:klen]
if __name__=='__main__':
    d=0x3945208F7B2144B13F36E38AC6D39F95889393692860B51A42FB81EF4DF7C5B8
    P=mul(d,G); print('P',hex(P[0]),hex(P[1]))
    Z=za(b'1234567812345678',P); print('ZA',Z.hex())
    e=int.from_bytes(sm3(Z+b'message digest'),'big'); print('e',hex(e))
    k=0x59276E27D506861A16680F3AD9C02DCCEF3CC1FA3CDBE4CE6D54B80DEAC1BC21
    x1=mul(k,G)[0]; r=(e+x1)%n; s=pow(1+d,n-2,n)*(k-r*d)%n
    print('r',hex(r)); print('s',hex(s))
    # encryption example
    M=b'encryption standard'
    C1=mul(k,G); S=mul(k,P); tkey=kdf(i2b(S[0])+i2b(S[1]),len(M))
    C2=bytes(x^y for x,y in zip(M,tkey)); C3=sm3(i2b(S[0])+M+i2b(S[1]))
    print('C1',hex(C1[0]),hex(C1[1])); print('C2',C2.hex()); print('C3',C3.hex())
