import hashlib
p = 0xB640000002A3A6F1D603AB4FF58EC74521F2934B1A7AEEDBE56F9B27E351457D
N = 0xB640000002A3A6F1D603AB4FF58EC74449F2934B18EA8BEEE56EE19CD69ECF25
t = 0x600000000058F98A
assert p == 36*t**4+36*t**3+24*t**2+6*t+1 and N == 36*t**4+36*t**3+18*t**2+6*t+1
def sm3(b): return hashlib.new('sm3', b).digest()
# ---- Fp2 = Fp[u]/(u^2+2)
def f2add(a,b): return ((a[0]+b[0])%p,(a[1]+b[1])%p)
def f2sub(a,b): return ((a[0]-b[0])%p,(a[1]-b[1])%p)
def f2mul(a,b): return ((a[0]*b[0]-2*a[1]*b[1])%p,(a[0]*b[1]+a[1]*b[0])%p)
def f2inv(a):
    d = pow(a[0]*a[0]+2*a[1]*a[1], p-2, p); return (a[0]*d%p, (-a[1]*d)%p)
def f2neg(a): return ((-a[0])%p,(-a[1])%p)
# ---- Fp12 = Fp[w]/(w^12+2), list of 12 coeffs
def f12mul(a,b):
    r=[0]*23
    for i,x in enumerate(a):
        if x:
            for j,y in enumerate(b):
                if y: r[i+j]+=x*y
    out=[0]*12
    for k in range(23):
        if k<12: out[k]+=r[k]
        else: out[k-12]-=2*r[k]
    return [c%p for c in out]
def f12pow(a,e):
    r=[1]+[0]*11
    for bit in bin(e)[2:]:
        r=f12mul(r,r)
        if bit=='1': r=f12mul(r,a)
    return r
ONE=[1]+[0]*11
def f12_from_f2(a,k=0):  # a * w^k, a in Fp2 (u=w^6)
    r=[0]*24
    r[k]=a[0]; r[k+6]=a[1]
    out=[0]*12
    for i,c in enumerate(r):
        if i<12: out[i]+=c
        else: out[i-12]-=2*c
    return [c%p for c in out]
inv2=pow(2,p-2,p)
def w_neg(k): # w^-k for 1<=k<=11 : w^-k = w^(12-k)/w^12 = -w^(12-k)/2
    r=[0]*12; r[12-k]=(-inv2)%p; return r
# G1 affine over Fp
def g1add(P,Q):
    if P is None: return Q
    if Q is None: return P
    if P[0]==Q[0]:
        if (P[1]+Q[1])%p==0: return None
        l=3*P[0]*P[0]*pow(2*P[1],p-2,p)%p
    else: l=(Q[1]-P[1])*pow(Q[0]-P[0],p-2,p)%p
    x=(l*l-P[0]-Q[0])%p; return (x,(l*(P[0]-x)-P[1])%p)
def g1mul(k,P):
    R=None
    for bit in bin(k)[2:]:
        R=g1add(R,R)
        if bit=='1': R=g1add(R,P)
    return R
def g2add(P,Q):
    if P is None: return Q
    if Q is None: return P
    if P[0]==Q[0]:
        if f2add(P[1],Q[1])==(0,0): return None
        l=f2mul(f2mul((3,0),f2mul(P[0],P[0])), f2inv(f2mul((2,0),P[1])))
    else: l=f2mul(f2sub(Q[1],P[1]), f2inv(f2sub(Q[0],P[0])))
    x=f2sub(f2sub(f2mul(l,l),P[0]),Q[0]); return (x, f2sub(f2mul(l,f2sub(P[0],x)),P[1]))
def g2mul(k,P):
    R=None
    for bit in bin(k)[2:]:
        R=g2add(R,R)
        if bit=='1': R=g2add(R,P)
    return R
def g2neg(P): return (P[0], f2neg(P[1]))
P1=(0x93DE051D62BF718FF5ED0704487D01D6E1E4086909DC3280E8C4E4817C66DDDD,0x21FE8DDA4F21E607631065125C395BBC1C1C00CBFA6024350C464CD70A3EA616)
P2=((0x3722755292130B08D2AAB97FD34EC120EE265948D19C17ABF9B7213BAF82D65B,0x85AEF3D078640C98597B6027B441A01FF1DD2C190F5E93C454806C11D8806141),
    (0xA7CF28D519BE3DA65F3170153D278FF247EFBA98A71A08116215BBA5C999A7C7,0x17509B092E845C1266BA0D262CBEE6ED0736A96FA347C8BD856DC76B84EBEB96))
assert (P1[1]**2-P1[0]**3-5)%p==0
assert f2sub(f2mul(P2[1],P2[1]), f2add(f2mul(P2[0],f2mul(P2[0],P2[0])),(0,5)))==(0,0)
assert g1mul(N,P1) is None and g2mul(N,P2) is None
# line through twist points T,Q (T==Q tangent), evaluated at P in G1 -> Fp12 ; returns (value, T+Q)
WI1,WI2,WI3=w_neg(1),w_neg(2),w_neg(3)
def f12add(a,b): return [(x+y)%p for x,y in zip(a,b)]
def f12sub(a,b): return [(x-y)%p for x,y in zip(a,b)]
def line(T,Q,P):
    if T[0]==Q[0]:
        assert T[1]==Q[1]
        l=f2mul(f2mul((3,0),f2mul(T[0],T[0])), f2inv(f2mul((2,0),T[1])))
    else: l=f2mul(f2sub(Q[1],T[1]), f2inv(f2sub(Q[0],T[0])))
    # g = lam*(xP - xT) - (yP - yT), with lam = l*w^-1, xT = T0*w^-2, yT = T1*w^-3
    lam=f12mul(f12_from_f2(l),WI1)
    xT=f12mul(f12_from_f2(T[0]),WI2); yT=f12mul(f12_from_f2(T[1]),WI3)
    xP=[P[0]]+[0]*11; yP=[P[1]]+[0]*11
    g=f12sub(f12mul(lam,f12sub(xP,xT)), f12sub(yP,yT))
    return g, g2add(T,Q)
def frob_twist(Q):
    # psi(Q)=(x w^-2, y w^-3); apply a->a^p coordinatewise, map back by multiplying w^2,w^3
    X=f12pow(f12mul(f12_from_f2(Q[0]),WI2),p); Y=f12pow(f12mul(f12_from_f2(Q[1]),WI3),p)
    w2=[0,0,1]+[0]*9; w3=[0,0,0,1]+[0]*8
    x=f12mul(X,w2); y=f12mul(Y,w3)
    for v in (x,y): assert all(v[i]==0 for i in range(12) if i not in (0,6)), v
    return ((x[0],x[6]),(y[0],y[6]))
def pairing(P,Q):  # R-ate e(P,Q), P in G1, Q in G2
    a=6*t+2; f=ONE; T=Q
    for bit in bin(a)[3:]:
        g,T2=line(T,T,P); f=f12mul(f12mul(f,f),g); T=T2
        if bit=='1':
            g,T=line(T,Q,P); f=f12mul(f,g)
    Q1=frob_twist(Q); Q2=frob_twist(Q1)
    g,T=line(T,Q1,P); f=f12mul(f,g)
    g,T=line(T,g2neg(Q2),P); f=f12mul(f,g)
    return f12pow(f,(p**12-1)//N)
def f12bytes(a):
    out=b''
    for c in (2,1,0):
        for b in (1,0):
            for aa in (1,0):
                out+=a[6*aa+3*b+c].to_bytes(32,'big')
    return out
def Hn(prefix,z):
    ha=sm3(bytes([prefix])+z+b'\x00\x00\x00\x01')+sm3(bytes([prefix])+z+b'\x00\x00\x00\x02')
    return int.from_bytes(ha[:40],'big')%(N-1)+1
def H1(idb,hid): return Hn(1,idb+bytes([hid]))
def H2(m,w): return Hn(2,m+w)
def kdf(z,klen):
    out=b''; ct=1
    while len(out)<klen: out+=sm3(z+ct.to_bytes(4,'big')); ct+=1
    return out[:klen]
if __name__=='__main__':
    import time
    ks=0x000130E78459D78545CB54C587E02CF480CE0B66340F319F348A1D5B1F2DC5F4
    Ppubs=g2mul(ks,P2)
    t0=time.time(); g=pairing(P1,Ppubs); print('pairing s',time.time()-t0)
    gb=f12bytes(g); print('g =',gb.hex()[:64])
    # order / bilinearity sanity
    assert f12pow(g,N)==ONE and g!=ONE
    ida=b'Alice'; t1=(H1(ida,1)+ks)%N; t2=ks*pow(t1,N-2,N)%N; ds=g1mul(t2,P1)
    print('ds =',hex(ds[0]),hex(ds[1]))
    r=0x00033C8616B06704813203DFD00965022ED15975C662337AED648835DC4B1CBE
    M=b'Chinese IBS standard'
    w=f12pow(g,r); h=H2(M,f12bytes(w)); l=(r-h)%N; S=g1mul(l,ds)
    print('h =',hex(h)); print('S =',hex(S[0]),hex(S[1]))
