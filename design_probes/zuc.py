import re
src=open('/repo/gm-zuc/src/lib.rs').read()
def tab(name):
    m=re.search(r'const %s: \[u8; 256\] = \[(.*?)\];'%name, src, re.S)
    return [int(x,16) for x in re.findall(r'0x([0-9a-fA-F]{2})', m.group(1))]
S0=tab('S0'); S1=tab('S1'); assert len(S0)==256 and len(S1)==256
assert sorted(S0)==list(range(256)) and sorted(S1)==list(range(256))
D=[0x44D7,0x26BC,0x626B,0x135E,0x5789,0x35E2,0x7135,0x09AF,0x4D78,0x2F13,0x6BC4,0x1AF1,0x5E26,0x3C4D,0x789A,0x47AC]
M31=(1<<31)-1
def rol(x,k): return ((x<<k)|(x>>(32-k)))&0xffffffff
def L1(x): return x^rol(x,2)^rol(x,10)^rol(x,18)^rol(x,24)
def L2(x): return x^rol(x,8)^rol(x,14)^rol(x,22)^rol(x,30)
class ZUC:
    def __init__(s,k,iv):
        s.s=[(k[i]<<23)|(D[i]<<8)|iv[i] for i in range(16)]; s.r1=s.r2=0
        for _ in range(32):
            s.br(); w=s.F(); s.lfsr(w>>1)
        s.br(); s.F(); s.lfsr(None)
    def br(s):
        S=s.s
        s.x=[((S[15]>>15)<<16)|(S[14]&0xffff), ((S[11]&0xffff)<<16)|(S[9]>>15), ((S[7]&0xffff)<<16)|(S[5]>>15), ((S[2]&0xffff)<<16)|(S[0]>>15)]
    def F(s):
        W=((s.x[0]^s.r1)+s.r2)&0xffffffff
        W1=(s.r1+s.x[1])&0xffffffff; W2=s.r2^s.x[2]
        u=L1(((W1<<16)|(W2>>16))&0xffffffff); v=L2(((W2<<16)|(W1>>16))&0xffffffff)
        sb=lambda x:(S0[x>>24]<<24)|(S1[(x>>16)&255]<<16)|(S0[(x>>8)&255]<<8)|S1[x&255]
        s.r1=sb(u); s.r2=sb(v); return W
    def lfsr(s,u):
        S=s.s
        v=(2**15*S[15]+2**17*S[13]+2**21*S[10]+2**20*S[4]+(1+2**8)*S[0])%M31
        if u is not None: v=(v+u)%M31
        if v==0: v=M31
        s.s=S[1:]+[v]
    def gen(s,n):
        out=[]
        for _ in range(n):
            s.br(); out.append(s.F()^s.x[3]); s.lfsr(None)
        return out
if __name__=='__main__':
    for k,iv in [(bytes(16),bytes(16)),(b'\xff'*16,b'\xff'*16),(bytes.fromhex('3d4c4be96a82fdaeb58f641db17b455b'),bytes.fromhex('84319aa8de6915ca1f6bda6bfbd8c766'))]:
        print([hex(z) for z in ZUC(k,iv).gen(2)])
    def eia(ik,count,bearer,direction,length,m):
        iv=[0]*16; iv[0:4]=list(count.to_bytes(4,'big')); iv[4]=(bearer<<3)&0xff; iv[8]=iv[0]^((direction<<7)&0xff); iv[9:13]=iv[1:5]; iv[14]=iv[6]^((direction<<7)&0xff)
        L=(length+31)//32+2; z=ZUC(ik,bytes(iv)).gen(L)
        bits=''.join(format(w,'032b') for w in z)
        T=0
        for i in range(length):
            if (m[i//32]>>(31-i%32))&1: T^=int(bits[i:i+32],2)
        T^=int(bits[length:length+32],2)
        return T^z[L-1]
    print(hex(eia(bytes(16),0,0,0,1,[0])))
    print(hex(eia(bytes.fromhex('47054125561eb2dda94059da05097850'),0x561eb2dd,0x14,0,90,[0,0,0])))
