//! Named alphabets shared by the checks.
use refmodels::util::SplitMix;

pub const CONTENT_CLASSES: [&str; 5] = ["zero", "ff", "x80", "mod251", "seed"];

pub fn content(class: &str, len: usize, seed: u64) -> Vec<u8> {
    match class {
        "zero" => vec![0u8; len],
        "ff" => vec![0xffu8; len],
        "x80" => vec![0x80u8; len],
        "mod251" => (0..len).map(|i| (i % 251) as u8).collect(),
        "seed" => SplitMix::new(seed, &format!("content{}", len)).bytes(len),
        _ => panic!("unknown content class {}", class),
    }
}

pub fn seeded(seed: u64, stream: &str, len: usize) -> Vec<u8> {
    SplitMix::new(seed, stream).bytes(len)
}

pub fn arr16(v: &[u8]) -> [u8; 16] {
    v.try_into().expect("16 bytes")
}

/// 128-bit structured alphabet: zero, ones, 128 single-bit values, 16 byte patterns, extras
pub fn blocks128(seed: u64, stream: &str, nseed: usize) -> Vec<[u8; 16]> {
    let mut v = vec![[0u8; 16], [0xffu8; 16]];
    for bit in 0..128 {
        let mut b = [0u8; 16];
        b[bit / 8] = 0x80 >> (bit % 8);
        v.push(b);
    }
    for i in 0..16u8 {
        v.push([i.wrapping_mul(0x11); 16]);
    }
    v.push(arr16(&hex::decode("0123456789abcdeffedcba9876543210").unwrap()));
    let mut g = SplitMix::new(seed, stream);
    for _ in 0..nseed {
        v.push(arr16(&g.bytes(16)));
    }
    v.sort();
    v.dedup();
    v
}
