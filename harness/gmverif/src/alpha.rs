//! Named alphabets shared by the checks.
use refmodels::util::SplitMix;

pub const CONTENT_CLASSES: [&str; 5] = ["zero", "ff", "x80", "mod251", "seed"];

pub fn content(class: &str, len: usize, seed: u64) -> Vec<u8> {
    if let Some(h) = class.strip_prefix("hex:") {
        return hex::decode(h).expect("hex content");
    }
    match class {
        "zero" => vec![0u8; len],
        "ff" => vec![0xffu8; len],
        "x80" => vec![0x80u8; len],
        "mod251" => (0..len).map(|i| (i % 251) as u8).collect(),
        "annex" => b"message digest"[..len].to_vec(),
        "annex-enc" => b"encryption standard"[..len].to_vec(),
        "seed" => SplitMix::new(seed, &format!("content{}", len)).bytes(len),
        _ => panic!("unknown content class {}", class),
    }
}

pub fn seeded(seed: u64, stream: &str, len: usize) -> Vec<u8> {
    SplitMix::new(seed, stream).bytes(len)
}

pub fn arr16(v: &[u8]) -> [u8; 16] {
    v.try_into().expect("16 bytes")
}

/// 128-bit structured alphabet: zero, ones, 128 single-bit values, 16 byte patterns, extras
pub fn blocks128(seed: u64, stream: &str, nseed: usize) -> Vec<[u8; 16]> {
    let mut v = vec![[0u8; 16], [0xffu8; 16]];
    for bit in 0..128 {
        let mut b = [0u8; 16];
        b[bit / 8] = 0x80 >> (bit % 8);
        v.push(b);
    }
    for i in 0..16u8 {
        v.push([i.wrapping_mul(0x11); 16]);
    }
    v.push(arr16(&hex::decode("0123456789abcdeffedcba9876543210").unwrap()));
    let mut g = SplitMix::new(seed, stream);
    for _ in 0..nseed {
        v.push(arr16(&g.bytes(16)));
    }
    v.sort();
    v.dedup();
    v
}

use num_bigint::BigUint;
use num_traits::One;

pub const ANNEX_D: &str = "3945208F7B2144B13F36E38AC6D39F95889393692860B51A42FB81EF4DF7C5B8";
pub const ANNEX_K: &str = "59276E27D506861A16680F3AD9C02DCCEF3CC1FA3CDBE4CE6D54B80DEAC1BC21";

/// named scalar alphabet in [1, order-1] (names are stable and appear in replay records)
pub fn scalar_alphabet(order: &BigUint, seed: u64, stream: &str, top: u32) -> Vec<(String, BigUint)> {
    let one = BigUint::one();
    let mut v: Vec<(String, BigUint)> = vec![
        ("1".into(), one.clone()),
        ("2".into(), BigUint::from(2u32)),
        ("3".into(), BigUint::from(3u32)),
        (format!("order-{}", top), order - BigUint::from(top)),
        (format!("order-{}", top + 1), order - BigUint::from(top + 1)),
        ("2^255".into(), &one << 255),
        ("2^128-1".into(), (&one << 128) - &one),
        ("limb0".into(), (&one << 64) - &one),
        ("limb1".into(), ((&one << 64) - &one) << 64),
        ("limb2".into(), ((&one << 64) - &one) << 128),
        ("limb3lo".into(), ((&one << 63) - &one) << 192),
    ];
    let mut g = SplitMix::new(seed, stream);
    for i in 0..2 {
        v.push((format!("seed{}", i), g.nonzero_below(&(order - &one))));
    }
    v.retain(|(_, x)| x >= &one && x < order);
    v
}

pub fn lookup(alpha: &[(String, BigUint)], name: &str) -> BigUint {
    if let Some(h) = name.strip_prefix("hex:") {
        return refmodels::util::hexbig(h);
    }
    alpha.iter().find(|(n, _)| n == name).unwrap_or_else(|| panic!("unknown alphabet element {}", name)).1.clone()
}

/// identities that a "normalising" implementation would change (trailing / leading white space, line ends, NUL, case,
/// a trailing byte equal to one of the SM9 hid values): each is a distinct legal identity
pub const NORM_IDS: [&str; 12] = ["Bob\n", "Bob ", " Bob", "Bob\t", "Bob\r\n", "Bob\0", "BOB", "bob", "Bob\u{1}", "Bob\u{2}", "Bob\u{3}", "Bob"];
