//! C01 — SM3 digest equals GB/T 32905 for every message (E2 product enumeration + E1 purity model)
use crate::alpha::{content, CONTENT_CLASSES};
use crate::engine::*;
use rayon::prelude::*;
use refmodels::sm3;
use serde::{Deserialize, Serialize};
use serde_json::{json, Value};
use std::sync::Arc;

#[derive(Serialize, Deserialize, Clone, Debug)]
pub enum Case {
    /// message = content class of given length
    Class { class: String, len: usize },
    /// message of `len` zero bytes with one bit set
    OneBit { len: usize, bit: usize },
    /// the message is passed as `&buf[off..off + len]` (start address not 4/8-byte aligned for off = 1..7)
    Offset { class: String, len: usize, off: usize },
    /// seeded message whose last byte is forced to `last`
    LastByte { len: usize, last: u8 },
    /// hash sequence (indices into the purity alphabet); the last call is the one judged
    History { seq: Vec<u16> },
    /// message = 64-byte blocks from the alphabet {0: zero block, 1: seeded block A, 2: seeded block B, 3: "abcd" x 16}
    /// followed by the first `tail` bytes of block A
    Blocks { seq: Vec<u8>, tail: usize },
}

const PURITY_LENS: [usize; 6] = [0, 3, 55, 56, 64, 119];

fn message(ctx: &Ctx, c: &Case) -> Vec<u8> {
    match c {
        Case::Class { class, len } => content(class, *len, ctx.seed),
        Case::OneBit { len, bit } => {
            let mut m = vec![0u8; *len];
            m[bit / 8] |= 0x80 >> (bit % 8);
            m
        }
        Case::History { seq } => purity_msg(ctx, *seq.last().unwrap() as usize),
        Case::Blocks { seq, tail } => {
            let a = content("seed", 64, ctx.seed ^ 0xa);
            let b = content("seed", 64, ctx.seed ^ 0xb);
            let mut m = Vec::with_capacity(seq.len() * 64 + tail);
            for s in seq {
                match s {
                    0 => m.extend_from_slice(&[0u8; 64]),
                    1 => m.extend_from_slice(&a),
                    2 => m.extend_from_slice(&b),
                    _ => m.extend_from_slice(&b"abcd".repeat(16)),
                }
            }
            m.extend_from_slice(&a[..*tail]);
            m
        }
        Case::Offset { class, len, .. } => content(class, *len, ctx.seed),
        Case::LastByte { len, last } => {
            let mut m = content("seed", *len, ctx.seed);
            if let Some(b) = m.last_mut() {
                *b = *last;
            }
            m
        }
    }
}

fn purity_msg(ctx: &Ctx, i: usize) -> Vec<u8> {
    content("seed", PURITY_LENS[i], ctx.seed ^ i as u64)
}

fn len_class(len: usize) -> String {
    let r = len % 64;
    let branch = if r < 56 { "one-block-pad" } else { "two-block-pad" };
    let size = if len == 0 {
        "empty"
    } else if len < 64 {
        "sub-block"
    } else if len < (1 << 13) {
        "multi-block"
    } else if len < (1 << 21) {
        "bitlen>=2^16"
    } else if (len as u64) < (1u64 << 29) {
        "bitlen>=2^24"
    } else {
        "bitlen>=2^32"
    };
    format!("{}/{}", size, branch)
}

fn eval(ctx: &Ctx, c: &Case) {
    ctx.state();
    let m = message(ctx, c);
    if let Case::History { seq } = c {
        // hash everything before, then judge the last call
        for &i in &seq[..seq.len() - 1] {
            let pm = purity_msg(ctx, i as usize);
            ctx.call();
            let _ = guard(|| gm_sm3::sm3_hash(&pm));
        }
    }
    ctx.call();
    let got = if let Case::Offset { off, .. } = c {
        // 16-byte aligned backing store, message at a chosen offset inside it
        let mut backing: Vec<u128> = vec![0; (m.len() + off + 31) / 16];
        let bytes: &mut [u8] = unsafe { std::slice::from_raw_parts_mut(backing.as_mut_ptr() as *mut u8, backing.len() * 16) };
        bytes[*off..*off + m.len()].copy_from_slice(&m);
        let view: &[u8] = &bytes[*off..*off + m.len()];
        guard(|| gm_sm3::sm3_hash(view))
    } else {
        guard(|| gm_sm3::sm3_hash(&m))
    };
    let want = sm3::sm3(&m);
    ctx.trace();
    let site = "gm_sm3::sm3_hash";
    let kind = match c {
        Case::History { .. } => "purity",
        Case::Offset { .. } => "digest-of-unaligned-slice",
        _ => "digest",
    };
    match got {
        Guard::Done(d) if d == want => ctx.outcome(&format!("ok/{}", len_class(m.len()))),
        Guard::Done(d) => ctx.violation(
            site,
            &format!("{}-mismatch/{}", kind, len_class(m.len())),
            format!("len={} got={} want={}", m.len(), hex::encode(d), hex::encode(want)),
            serde_json::to_value(c).unwrap(),
        ),
        Guard::Panic(p) => ctx.violation(
            site,
            &format!("panic/{}/{}", panic_site(&p), len_class(m.len())),
            format!("len={} panic={}", m.len(), p),
            serde_json::to_value(c).unwrap(),
        ),
    }
}

pub fn replay(ctx: &Arc<Ctx>, v: &Value) {
    if crate::cold::replay(ctx, v) {
        return;
    }
    let c: Case = serde_json::from_value(v.clone()).expect("C01 case");
    eval(ctx, &c);
}

pub fn run(ctx: &Arc<Ctx>) {
    refmodels::selftest::run(&["sm3"]).unwrap_or_else(|e| {
        ctx.machinery_error(format!("reference self-test failed: {}", e));
    });
    // the reference is pinned by an OpenSSL-generated corpus (corpus/sm3.json)
    match std::fs::read_to_string(format!("{}/corpus/sm3.json", VERIF_ROOT)) {
        Ok(s) => {
            let v: Value = serde_json::from_str(&s).expect("corpus json");
            let mut n = 0;
            for e in v.as_array().unwrap() {
                let m = hex::decode(e["msg"].as_str().unwrap()).unwrap();
                if hex::encode(sm3::sm3(&m)) != e["digest"].as_str().unwrap() {
                    ctx.machinery_error(format!("reference SM3 disagrees with OpenSSL corpus at len {}", m.len()));
                }
                n += 1;
            }
            ctx.cov("openssl_corpus_entries_reproduced_by_reference", json!(n));
        }
        Err(e) => ctx.machinery_error(format!("missing corpus/sm3.json: {}", e)),
    }
    let lmax = ctx.tier.pick(1100usize, 12000);
    ctx.set_rule("every length 0..=Lmax x 5 content classes; every single-bit-set message of 55/56/63/64/192 bytes; k*64+{-9,-8,-1,0,1} for k=1..=40; 2^k+{-1,0,1} bytes for k=13..=22 (thorough 26) and lengths whose bit length has distinct non-zero bytes, up to one message of 0x20406081 bytes (bit length 0x0102030408) and, thorough, one of 0x120406081 bytes (more than 2^32 bytes, bit length 0x0902030408); messages passed as slices at byte offsets 1..7 of an aligned buffer; every value of the last byte at 8 lengths; first blocks crafted so that two working registers are equal after round 0 (7 patterns x 3 lengths); every sequence of <= 4 blocks over {zero, A, B, 'abcd' x 16} x 4 tails; all call sequences of length <=3 over 6 messages (purity). A case is distinct by (kind, length, content/bit). Oracle: independent streaming SM3.");
    ctx.note_bound(format!("Lmax={}", lmax));
    let mut cases: Vec<Case> = Vec::new();
    for len in 0..=lmax {
        for cl in CONTENT_CLASSES {
            if len == 0 && cl != "zero" {
                continue;
            }
            cases.push(Case::Class { class: cl.to_string(), len });
        }
    }
    for len in [55usize, 56, 63, 64, 192] {
        for bit in 0..len * 8 {
            cases.push(Case::OneBit { len, bit });
        }
    }
    for k in 1..=40usize {
        for d in [-9i64, -8, -1, 0, 1] {
            let len = (k as i64 * 64 + d) as usize;
            if len > lmax {
                cases.push(Case::Class { class: "seed".into(), len });
                cases.push(Case::Class { class: "mod251".into(), len });
            }
        }
    }
    // block structure: every sequence of <= 4 blocks over {zero, A, B, "abcd" x 16} (equal neighbours, a zero block after a
    // non-zero one, a block that returns later) x tails of 0 / 1 / 55 / 56 bytes
    {
        let mut seqs: Vec<Vec<u8>> = vec![vec![]];
        let mut frontier: Vec<Vec<u8>> = vec![vec![]];
        for _ in 0..4 {
            let mut next = Vec::new();
            for s in &frontier {
                for b in 0..4u8 {
                    let mut t = s.clone();
                    t.push(b);
                    next.push(t);
                }
            }
            seqs.extend(next.iter().cloned());
            frontier = next;
        }
        for s in &seqs {
            for tail in [0usize, 1, 55, 56] {
                cases.push(Case::Blocks { seq: s.clone(), tail });
            }
        }
        ctx.cov("block_sequences", json!(seqs.len()));
    }
    // first blocks crafted so that two working registers are equal after round 0 (A = B, A = C, A = D, E = F, E = G, E = H,
    // and A = B together with E = F): a boolean-function shortcut for equal operands placed in the wrong round range fires there.
    // W'_0 = W_0 ^ W_4 and W_0 are solved from the IV; the digest is checked like any other message's
    {
        const IV: [u32; 8] = [0x7380166f, 0x4914b2b9, 0x172442d7, 0xda8a0600, 0xa96f30bc, 0x163138aa, 0xe38dee4d, 0xb0fb0e4e];
        let p0 = |x: u32| x ^ x.rotate_left(9) ^ x.rotate_left(17);
        let p0_inv = |y: u32| -> u32 {
            // P0 is a linear bijection of finite order: iterate until y comes back, the value before it is the pre-image
            let mut cur = y;
            loop {
                let nxt = p0(cur);
                if nxt == y {
                    return cur;
                }
                cur = nxt;
            }
        };
        let (a, b, c, d, e, f, g, h) = (IV[0], IV[1], IV[2], IV[3], IV[4], IV[5], IV[6], IV[7]);
        let ss1 = a.rotate_left(12).wrapping_add(e).wrapping_add(0x79cc4519).rotate_left(7);
        let ss2 = ss1 ^ a.rotate_left(12);
        let ff0 = a ^ b ^ c;
        let gg0 = e ^ f ^ g;
        let a_targets = [("A=B", a), ("A=C", b.rotate_left(9)), ("A=D", c)];
        let e_targets = [("E=F", e), ("E=G", f.rotate_left(19)), ("E=H", g)];
        let mut crafted: Vec<(String, u32, u32)> = Vec::new(); // (name, W0, W4)
        for (n, t) in a_targets {
            let w0 = 0x61626364u32;
            let wp0 = t.wrapping_sub(ff0.wrapping_add(d).wrapping_add(ss2));
            crafted.push((n.to_string(), w0, w0 ^ wp0));
        }
        for (n, t) in e_targets {
            let w0 = p0_inv(t).wrapping_sub(gg0.wrapping_add(h).wrapping_add(ss1));
            assert_eq!(p0(w0.wrapping_add(gg0).wrapping_add(h).wrapping_add(ss1)), t, "P0 pre-image");
            crafted.push((n.to_string(), w0, 0x31323334));
        }
        {
            let w0 = p0_inv(e).wrapping_sub(gg0.wrapping_add(h).wrapping_add(ss1));
            let wp0 = a.wrapping_sub(ff0.wrapping_add(d).wrapping_add(ss2));
            crafted.push(("A=B,E=F".to_string(), w0, w0 ^ wp0));
        }
        for (_, w0, w4) in &crafted {
            for extra in [0usize, 44, 108] {
                let mut m = Vec::new();
                m.extend_from_slice(&w0.to_be_bytes());
                m.extend_from_slice(&[0u8; 12]);
                m.extend_from_slice(&w4.to_be_bytes());
                m.extend(std::iter::repeat(0x5au8).take(extra));
                cases.push(Case::Class { class: format!("hex:{}", hex::encode(&m)), len: m.len() });
            }
        }
        ctx.cov("crafted_equal_registers_after_round_0", json!(crafted.iter().map(|c| c.0.clone()).collect::<Vec<_>>()));
    }
    for off in 1..8usize {
        for len in (0..=200usize).chain([255, 256, 257, 511, 512, 1000]) {
            cases.push(Case::Offset { class: "seed".into(), len, off });
        }
    }
    for len in [1usize, 3, 55, 56, 64, 65, 119, 128] {
        for last in 0..=255u8 {
            cases.push(Case::LastByte { len, last });
        }
    }
    ctx.sample(serde_json::to_value(&cases[7]).unwrap());
    ctx.sample(serde_json::to_value(&cases[cases.len() - 1]).unwrap());
    run_cases(ctx, &cases, 64, eval);

    // every byte of the 64-bit length field that a message in memory can reach: powers of two and their neighbours,
    // and lengths whose bit length has pairwise distinct non-zero bytes (a swapped or dropped byte shows)
    let kmax = ctx.tier.pick(22usize, 27);
    let mut long: Vec<Case> = Vec::new();
    for k in 13..=kmax {
        for d in [-1i64, 0, 1] {
            long.push(Case::Class { class: "mod251".into(), len: ((1i64 << k) + d) as usize });
        }
    }
    for bitlen in [0x0302_08usize, 0x0403_0208, 0x0102_0408, 0x0180_4020] {
        long.push(Case::Class { class: "seed".into(), len: bitlen / 8 });
    }
    ctx.cov("long_lengths", json!(long.len()));
    run_cases(ctx, &long, 4, eval);

    // structural coverage: both padding branches, block counts
    let mut blocks = std::collections::BTreeSet::new();
    for len in 0..=lmax {
        blocks.insert(sm3::blocks_for(len as u64));
    }
    ctx.cov("compression_block_counts_covered", json!(blocks.len()));
    ctx.cov("padding_branches", json!(["len%64<56", "len%64>=56"]));

    // bit length >= 2^32
    // bit length 0x01_02_03_04_08: the five low bytes of the length field are distinct and non-zero
    let big = 0x0102_0304_08usize / 8;
    let c = Case::Class { class: "mod251".into(), len: big };
    eval(ctx, &c);
    ctx.cov("bitlen_ge_2^32_bytes", json!(big));
    // thorough: a message of more than 2^32 bytes (bit length 0x09_02_03_04_08: the byte count itself no longer fits in
    // 32 bits, the bit length has bit 35 set); about 4.5 GiB for the message and as much again for the library's padded copy
    if ctx.tier == Tier::Thorough {
        let huge = 0x0902_0304_08usize / 8;
        let c = Case::Class { class: "mod251".into(), len: huge };
        eval(ctx, &c);
        ctx.cov("bytelen_ge_2^32_bytes", json!(huge));
    }
    ctx.sample(serde_json::to_value(&c).unwrap());

    // E1: purity — every call's digest is that of its message alone, whatever preceded it
    let depth = ctx.tier.pick(3usize, 5);
    let c2 = ctx.clone();
    let model = HistModel {
        batch: 64,
        inits: vec![vec![]],
        actions: Box::new(move |h: &[u16]| if h.len() < depth { (0..PURITY_LENS.len() as u16).collect() } else { vec![] }),
        visit: Arc::new(move |h: &[u16]| {
            if !h.is_empty() {
                let c = Case::History { seq: h.to_vec() };
                eval(&c2, &c);
                prefix_push(serde_json::to_value(&c).unwrap());
            }
        }),
    };
    let st = explore(model);
    ctx.depth(st.max_depth);
    ctx.cov("purity_model", json!({"unique_states": st.unique_states, "generated": st.generated, "max_depth": st.max_depth, "alphabet_lengths": PURITY_LENS}));
    ctx.sample(json!({"History": {"seq": [2, 3, 0]}}));
    let expect: u64 = (0..=depth as u32).map(|d| (PURITY_LENS.len() as u64).pow(d)).sum();
    if st.unique_states != expect {
        ctx.machinery_error(format!("purity model visited {} states, expected {}", st.unique_states, expect));
    }
    crate::cold::check(ctx, "C01");
}
