//! C02 — SM4 block cipher matches GB/T 32907, decrypt inverts encrypt, cipher object immutable
use crate::alpha::blocks128;
use crate::engine::*;
use rayon::prelude::*;
use refmodels::sm4;
use serde::{Deserialize, Serialize};
use serde_json::{json, Value};
use std::sync::{Arc, Mutex};

#[derive(Serialize, Deserialize, Clone, Debug)]
pub enum Case {
    Block { key: String, block: String },
    /// sequence of ops: 0 enc(b0), 1 enc(b1), 2 dec(b0), 3 dec(b1), 4..6 rebuild the cipher with key variant 0..2, 7 decrypt / 8 encrypt of a 15-byte block (must fail and change nothing)
    History { key: String, seq: Vec<u16> },
    /// the object is built on one thread and used on fresh threads that have never built a cipher themselves
    CrossThread { key: String },
    /// key / block lengths that equal 16 modulo 256 or 65536 must be refused like any other wrong length
    AliasLength { len: usize },
    /// two ciphers built one after the other on one thread, the second key derived from the first key's schedule or
    /// ciphertext by `link`; each is then judged, and the first once more
    KeyChain { key: String, link: String },
}

fn std_key_bytes() -> [u8; 16] {
    h16("0123456789abcdeffedcba9876543210")
}

fn h16(s: &str) -> [u8; 16] {
    hex::decode(s).unwrap().try_into().unwrap()
}

fn check_one(ctx: &Ctx, case: &Case, cipher: &gm_sm4::Sm4Cipher, key: &[u8; 16], block: &[u8; 16], dir_dec: bool, kind: &str) {
    let site = if dir_dec { "Sm4Cipher::decrypt" } else { "Sm4Cipher::encrypt" };
    ctx.call();
    let got = guard(|| if dir_dec { cipher.decrypt(block) } else { cipher.encrypt(block) });
    let want = if dir_dec { sm4::decrypt_block(key, block) } else { sm4::encrypt_block(key, block) };
    ctx.trace();
    let cj = || serde_json::to_value(case).unwrap();
    match got {
        Guard::Done(Ok(v)) if v[..] == want[..] => ctx.outcome(&format!("ok/{}/{}", kind, site)),
        Guard::Done(Ok(v)) => ctx.violation(
            site,
            &format!("{}-mismatch", kind),
            format!("key={} block={} got={} want={}", hex::encode(key), hex::encode(block), hex::encode(v), hex::encode(want)),
            cj(),
        ),
        Guard::Done(Err(e)) => ctx.violation(site, &format!("{}-unexpected-err", kind), format!("key={} block={} err={:?}", hex::encode(key), hex::encode(block), e), cj()),
        Guard::Panic(p) => ctx.violation(site, &format!("{}-panic/{}", kind, panic_site(&p)), format!("key={} block={} {}", hex::encode(key), hex::encode(block), p), cj()),
    }
}

fn eval(ctx: &Ctx, case: &Case) {
    ctx.state();
    match case {
        Case::Block { key, block } => {
            let (k, b) = (h16(key), h16(block));
            ctx.call();
            let c = match guard(|| gm_sm4::Sm4Cipher::new(&k)) {
                Guard::Done(Ok(c)) => c,
                other => {
                    ctx.violation("Sm4Cipher::new", "valid-key-rejected", format!("key={} -> {:?}", key, other.map_dbg()), serde_json::to_value(case).unwrap());
                    return;
                }
            };
            check_one(ctx, case, &c, &k, &b, false, "block");
            check_one(ctx, case, &c, &k, &b, true, "block");
            // round trips through the library only
            let e = guard(|| c.encrypt(&b).and_then(|x| c.decrypt(&x)));
            let d = guard(|| c.decrypt(&b).and_then(|x| c.encrypt(&x)));
            ctx.calls(4);
            for (name, r) in [("decrypt(encrypt(x))", e), ("encrypt(decrypt(y))", d)] {
                match r {
                    Guard::Done(Ok(v)) if v[..] == b[..] => {}
                    other => ctx.violation("Sm4Cipher", &format!("roundtrip/{}", name), format!("key={} block={} -> {:?}", key, block, other.map_dbg()), serde_json::to_value(case).unwrap()),
                }
            }
        }
        Case::CrossThread { key } => {
            let k = h16(key);
            let b = h16("00112233445566778899aabbccddeeff");
            ctx.calls(5);
            ctx.trace();
            // built here (a thread that has built ciphers before or not, as the driver has it) ...
            let Guard::Done(Ok(c)) = guard(|| gm_sm4::Sm4Cipher::new(&k)) else { return };
            let want_e = refmodels::sm4::encrypt_block(&k, &b);
            let want_d = refmodels::sm4::decrypt_block(&k, &b);
            // ... used on two brand-new threads: one gets a clone moved in, the other borrows the original
            // (handed over through spawn / join: the accesses never overlap)
            let c_moved = crate::engine::Xfer::new(c.clone());
            let r1 = std::thread::spawn(move || guard(|| (c_moved.get().encrypt(&b), c_moved.get().decrypt(&b)))).join();
            let c_shared = crate::engine::Xfer::new(&c);
            let r2 = std::thread::scope(|sc| sc.spawn(move || guard(|| (c_shared.get().decrypt(&b), c_shared.get().encrypt(&b)))).join());
            let ok1 = matches!(&r1, Ok(Guard::Done((Ok(e), Ok(d)))) if e[..] == want_e[..] && d[..] == want_d[..]);
            let ok2 = matches!(&r2, Ok(Guard::Done((Ok(d), Ok(e)))) if e[..] == want_e[..] && d[..] == want_d[..]);
            if ok1 && ok2 {
                ctx.outcome("ok/cross-thread");
            } else {
                ctx.violation("Sm4Cipher", "wrong-result-on-another-thread", format!("key={} moved-ok={} shared-ok={}", key, ok1, ok2), serde_json::to_value(case).unwrap());
            }
        }
        Case::KeyChain { key, link } => {
            let k1 = h16(key);
            let rk = sm4::round_keys(&k1);
            const FK: [u32; 4] = [0xa3b1bac6, 0x56aa3350, 0x677d9197, 0xb27022dc];
            let words = |w: [u32; 4]| -> [u8; 16] {
                let mut o = [0u8; 16];
                for (i, x) in w.iter().enumerate() {
                    o[4 * i..4 * i + 4].copy_from_slice(&x.to_be_bytes());
                }
                o
            };
            let k2: [u8; 16] = match link.as_str() {
                "rk28..31^FK" => words([rk[28] ^ FK[0], rk[29] ^ FK[1], rk[30] ^ FK[2], rk[31] ^ FK[3]]),
                "rk0..3^FK" => words([rk[0] ^ FK[0], rk[1] ^ FK[1], rk[2] ^ FK[2], rk[3] ^ FK[3]]),
                "rk28..31" => words([rk[28], rk[29], rk[30], rk[31]]),
                "rk31..28" => words([rk[31], rk[30], rk[29], rk[28]]),
                "rk0..3" => words([rk[0], rk[1], rk[2], rk[3]]),
                "K1^FK" => {
                    let mut o = k1;
                    for (i, b) in words(FK).iter().enumerate() {
                        o[i] ^= b;
                    }
                    o
                }
                "E_K1(0)" => sm4::encrypt_block(&k1, &[0u8; 16]),
                "E_K1(K1)" => sm4::encrypt_block(&k1, &k1),
                _ => panic!("unknown link"),
            };
            let b = h16("00112233445566778899aabbccddeeff");
            ctx.calls(2);
            let Guard::Done(Ok(c1)) = guard(|| gm_sm4::Sm4Cipher::new(&k1)) else { return };
            let Guard::Done(Ok(c2)) = guard(|| gm_sm4::Sm4Cipher::new(&k2)) else {
                ctx.violation("Sm4Cipher::new", "valid-key-rejected", format!("key={}", hex::encode(k2)), serde_json::to_value(case).unwrap());
                return;
            };
            check_one(ctx, case, &c2, &k2, &b, false, "second-key-derived-from-the-first");
            check_one(ctx, case, &c2, &k2, &b, true, "second-key-derived-from-the-first");
            check_one(ctx, case, &c1, &k1, &b, false, "first-key-after-the-second");
            check_one(ctx, case, &c1, &k1, &b, true, "first-key-after-the-second");
        }
        Case::AliasLength { len } => {
            let data = vec![0x42u8; *len];
            ctx.calls(3);
            let k16 = h16("0123456789abcdeffedcba9876543210");
            let r = guard(|| (gm_sm4::Sm4Cipher::new(&data).is_err(), gm_sm4::Sm4Cipher::new(&k16).map(|c| (c.encrypt(&data).is_err(), c.decrypt(&data).is_err()))));
            match r {
                Guard::Done((true, Ok((true, true)))) => ctx.outcome("ok/alias-length-refused"),
                other => ctx.violation("Sm4Cipher", "wrong-length-not-refused", format!("len={} -> {}", len, other.map_dbg()), serde_json::to_value(case).unwrap()),
            }
        }
        Case::History { key, seq } => {
            // ops 0..=3: enc/dec of b0/b1 on the current object; 4..=6: replace the object by a fresh one
            // for key variant j (0 = base key, 1 = last byte changed, 2 = first byte changed)
            let base = h16(key);
            let variant = |j: u16| -> [u8; 16] {
                let mut k = base;
                match j {
                    1 => k[15] ^= 0x01,
                    2 => k[0] ^= 0x80,
                    _ => {}
                }
                k
            };
            let blocks = [h16("00112233445566778899aabbccddeeff"), h16("fedcba98765432100123456789abcdef")];
            let mut k = base;
            ctx.call();
            let mut c = match guard(|| gm_sm4::Sm4Cipher::new(&k)) {
                Guard::Done(Ok(c)) => c,
                _ => return,
            };
            let mut dbg0 = format!("{:?}", c);
            for (i, op) in seq.iter().enumerate() {
                if *op >= 4 && *op < 7 {
                    k = variant(*op - 4);
                    ctx.call();
                    c = match guard(|| gm_sm4::Sm4Cipher::new(&k)) {
                        Guard::Done(Ok(c)) => c,
                        _ => return,
                    };
                    dbg0 = format!("{:?}", c);
                    if i + 1 == seq.len() {
                        // judge the freshly built object with one encryption
                        check_one(ctx, case, &c, &k, &blocks[0], false, "history");
                    }
                    continue;
                }
                if *op >= 9 {
                    // Clone semantics: 9 = clone the object, use the clone once and drop it; 10 = continue with a clone and
                    // drop the original. Neither may influence what the surviving object computes.
                    ctx.call();
                    if *op == 9 {
                        let c2 = c.clone();
                        let _ = guard(|| c2.encrypt(&blocks[1]));
                        if c2 != c {
                            ctx.violation("Sm4Cipher", "clone-not-equal-to-original", format!("seq={:?}", seq), serde_json::to_value(case).unwrap());
                            return;
                        }
                        drop(c2);
                    } else {
                        let c2 = c.clone();
                        c = c2;
                    }
                    if i + 1 == seq.len() {
                        check_one(ctx, case, &c, &k, &blocks[0], false, "history");
                        check_one(ctx, case, &c, &k, &blocks[1], true, "history");
                    }
                    continue;
                }
                if *op >= 7 {
                    // a call that must fail (wrong block length) must leave the object untouched
                    ctx.call();
                    let bad = &blocks[0][..15];
                    match guard(|| if *op == 7 { c.decrypt(bad) } else { c.encrypt(bad) }) {
                        Guard::Done(Err(_)) => {}
                        other => {
                            ctx.violation("Sm4Cipher", "wrong-length-block-not-refused", other.map_dbg(), serde_json::to_value(case).unwrap());
                            return;
                        }
                    }
                    if i + 1 == seq.len() {
                        check_one(ctx, case, &c, &k, &blocks[1], false, "history");
                    }
                    continue;
                }
                let b = &blocks[(*op & 1) as usize];
                let dec = *op >= 2;
                if i + 1 == seq.len() {
                    // the judged call: must equal the reference, i.e. the result of a fresh object
                    check_one(ctx, case, &c, &k, b, dec, "history");
                } else {
                    ctx.call();
                    let _ = guard(|| if dec { c.decrypt(b) } else { c.encrypt(b) });
                }
            }
            if format!("{:?}", c) != dbg0 {
                ctx.violation("Sm4Cipher", "history-object-state-changed", format!("seq={:?}", seq), serde_json::to_value(case).unwrap());
            }
        }
    }
}

trait MapDbg {
    fn map_dbg(self) -> String;
}
impl<T: std::fmt::Debug> MapDbg for Guard<T> {
    fn map_dbg(self) -> String {
        match self {
            Guard::Done(v) => format!("{:?}", v),
            Guard::Panic(p) => format!("panic {}", p),
        }
    }
}

pub fn replay(ctx: &Arc<Ctx>, v: &Value) {
    if crate::cold::replay(ctx, v) {
        return;
    }
    let c: Case = serde_json::from_value(v.clone()).expect("C02 case");
    eval(ctx, &c);
}

pub fn run(ctx: &Arc<Ctx>) {
    refmodels::selftest::run(&[ctx.tier.pick("sm4", "sm4long")]).unwrap_or_else(|e| ctx.machinery_error(format!("reference self-test failed: {}", e)));
    ctx.set_rule("keys x blocks over {0^128, 1^128, 128 single-bit, 16 byte patterns, standard vector, seeded}; derived families forcing every S-box index in every byte lane of round 1 (data path) and of the first key-schedule round; all op sequences to depth 4 over {enc b0, enc b1, dec b0, dec b1, rebuild the object with the same key / a key differing in the last byte / in the first byte, a refused decrypt / encrypt of a 15-byte block, clone-use-drop the clone, continue with a clone and drop the original} (16105 histories per base key); every value of the first and of the last byte of key and block; keys crafted so that round key 0..3, 13..16 or 28..31 is 0 / all ones; blocks and keys crafted so that the word a round produces equals one of the three words feeding the next round (data path under rk[0] / rk[31], key schedule rounds 0 and 17); pairs of ciphers built one after the other where the second key is derived from the first key's schedule or ciphertext (rk28..31 ^ FK, rk0..3 ^ FK, rk28..31, rk31..28, rk0..3, K ^ FK, E_K(0), E_K(K)); objects built on one thread and used (moved / Arc-shared) on fresh threads; key and block lengths 16 + 256k, 16 + 65536 refused. Oracle: independent SM4 with algebraically generated S-box.");
    let nseed = ctx.tier.pick(4, 64);
    let keys = blocks128(ctx.seed, "c02keys", nseed);
    let blocks = blocks128(ctx.seed, "c02blocks", nseed);
    ctx.note_bound(format!("full product: {} keys x {} blocks x {{encrypt, decrypt, both round trips}}", keys.len(), blocks.len()));
    let mut cases = Vec::new();
    for k in keys.iter() {
        for b in blocks.iter() {
            cases.push(Case::Block { key: hex::encode(k), block: hex::encode(b) });
        }
    }
    // every value of the first and of the last byte of the key and of the block (text-like trimming, sign handling)
    for v in 0..=255u8 {
        for pos in [0usize, 15] {
            let mut k = std_key_bytes();
            k[pos] = v;
            cases.push(Case::Block { key: hex::encode(k), block: hex::encode(std_key_bytes()) });
            let mut b = std_key_bytes();
            b[pos] = v;
            cases.push(Case::Block { key: hex::encode(std_key_bytes()), block: hex::encode(b) });
        }
    }
    // derived families: drive each S-box index b through each byte lane
    let fk: [u32; 4] = [0xa3b1bac6, 0x56aa3350, 0x677d9197, 0xb27022dc];
    let ck0: u32 = 0x00070e15;
    let std_key = h16("0123456789abcdeffedcba9876543210");
    let rk0 = sm4::round_keys(&std_key)[0];
    for b in 0..=255u32 {
        let w = b * 0x01010101;
        // data path round 1: X1^X2^X3^rk0 = w
        let mut blk = [0u8; 16];
        blk[0..4].copy_from_slice(&0xdeadbeefu32.to_be_bytes());
        blk[4..8].copy_from_slice(&(w ^ rk0).to_be_bytes());
        cases.push(Case::Block { key: hex::encode(std_key), block: hex::encode(blk) });
        // key schedule round 1: K1^K2^K3^CK0 = w with K_i = MK_i ^ FK_i
        let mut key = [0u8; 16];
        key[0..4].copy_from_slice(&0x01234567u32.to_be_bytes());
        key[4..8].copy_from_slice(&(fk[1] ^ w ^ ck0).to_be_bytes());
        key[8..12].copy_from_slice(&fk[2].to_be_bytes());
        key[12..16].copy_from_slice(&fk[3].to_be_bytes());
        cases.push(Case::Block { key: hex::encode(key), block: hex::encode(std_key) });
    }
    // keys crafted (key schedule run backwards) so that a chosen round key is 0 or all ones: the first, the last, one in
    // the middle. A validity test or shortcut keyed on a round-key value fires on exactly these legal keys.
    {
        let mut crafted = 0;
        for j in [0usize, 13, 28] {
            for pos in 0..4usize {
                for v in [0u32, 0xffff_ffff] {
                    let mut four = [0x9e37_79b9u32 ^ (j as u32), 0x7f4a_7c15, 0xf39c_c060, 0x5ced_c834 ^ (pos as u32)];
                    four[pos] = v;
                    let key = refmodels::sm4::key_with_round_keys(j, four);
                    if refmodels::sm4::round_keys(&key)[j + pos] != v {
                        ctx.machinery_error("crafted key does not have the chosen round key");
                    }
                    crafted += 1;
                    for block in ["00112233445566778899aabbccddeeff", "00000000000000000000000000000000"] {
                        cases.push(Case::Block { key: hex::encode(key), block: block.into() });
                    }
                }
            }
        }
        ctx.cov("keys_with_a_zero_or_all_ones_round_key", json!(crafted));
    }
    for k in ["0123456789abcdeffedcba9876543210", "00000000000000000000000000000000", "ffffffffffffffffffffffffffffffff", "fedcba98765432100123456789abcdef"] {
        cases.push(Case::CrossThread { key: k.into() });
    }
    for k in ["0123456789abcdeffedcba9876543210", "00000000000000000000000000000000", "fedcba98765432100123456789abcdef"] {
        for link in ["rk28..31^FK", "rk0..3^FK", "rk28..31", "rk31..28", "rk0..3", "K1^FK", "E_K1(0)", "E_K1(K1)"] {
            cases.push(Case::KeyChain { key: k.into(), link: link.into() });
        }
    }
    // blocks and keys crafted so that a state / schedule word repeats: the word a round produces equals one of the three
    // words that feed the next round (X4 in {X1, X2, X3} for encryption under rk[0], decryption under rk[31]; K4 in
    // {K1, K2, K3} in the first key-schedule round): a memo keyed on those words reuses a value computed under another round key
    {
        let words = |w: [u32; 4]| -> [u8; 16] {
            let mut o = [0u8; 16];
            for (i, x) in w.iter().enumerate() {
                o[4 * i..4 * i + 4].copy_from_slice(&x.to_be_bytes());
            }
            o
        };
        let mut count = 0;
        for kh in ["0123456789abcdeffedcba9876543210", "fedcba98765432100123456789abcdef"] {
            let key = h16(kh);
            let rk = sm4::round_keys(&key);
            for (x1, x2, x3) in [(0x11111111u32, 0x22222222u32, 0x44444444u32), (0xdeadbeef, 0x01234567, 0x89abcdef)] {
                for which in 0..3 {
                    let target = [x1, x2, x3][which];
                    // encryption reads (X0, X1, X2, X3); decryption runs the same rounds with the round keys reversed
                    for (r, tag) in [(rk[0], "enc"), (rk[31], "dec")] {
                        let x0 = target ^ sm4::t_data(x1 ^ x2 ^ x3 ^ r);
                        let _ = tag;
                        cases.push(Case::Block { key: kh.into(), block: hex::encode(words([x0, x1, x2, x3])) });
                        count += 1;
                    }
                }
            }
        }
        // keys: K_i = MK_i ^ FK_i; first schedule round K4 = K0 ^ T'(K1 ^ K2 ^ K3 ^ CK0); choose K0 so that K4 = K1, K2 or K3
        for (k1, k2, k3) in [(0x11111111u32, 0x22222222u32, 0x44444444u32), (0xdeadbeef, 0x01234567, 0x89abcdef)] {
            for which in 0..3 {
                let target = [k1, k2, k3][which];
                let k0 = target ^ sm4::t_key(k1 ^ k2 ^ k3 ^ sm4::ck_const(0));
                let mk = words([k0 ^ sm4::fk(0), k1 ^ sm4::fk(1), k2 ^ sm4::fk(2), k3 ^ sm4::fk(3)]);
                assert_eq!(sm4::round_keys(&mk)[0], target, "crafted key: rk[0] is the chosen word");
                for b in ["00112233445566778899aabbccddeeff", "00000000000000000000000000000000"] {
                    cases.push(Case::Block { key: hex::encode(mk), block: b.into() });
                    count += 1;
                }
            }
        }
        // ... and in a later schedule round: rk[17] = rk[14] (K21 = K18), by running the schedule backwards from a chosen window
        for seedw in [0x0badc0deu32, 0x600dcafe] {
            // window (K17, K18, K19, K20) = (rk13, rk14, rk15, rk16); K21 = K17 ^ T'(K18^K19^K20^CK17) must equal K18
            let (k18, k19, k20) = (seedw, seedw.rotate_left(7) ^ 0x55aa55aa, seedw.rotate_left(19) ^ 0x33cc33cc);
            let k17 = k18 ^ sm4::t_key(k18 ^ k19 ^ k20 ^ sm4::ck_const(17));
            let mk = sm4::key_with_round_keys(13, [k17, k18, k19, k20]);
            let rks = sm4::round_keys(&mk);
            assert_eq!(rks[17], rks[14], "crafted key: rk[17] = rk[14]");
            cases.push(Case::Block { key: hex::encode(mk), block: "00112233445566778899aabbccddeeff".into() });
            count += 1;
        }
        ctx.cov("crafted_repeating_state_or_schedule_words", json!(count));
    }
    for len in [0usize, 15, 17, 32, 16 + 256, 16 + 512, 16 + 65536, 16 + 256 * 3 + 1] {
        cases.push(Case::AliasLength { len });
    }
    ctx.sample(serde_json::to_value(&cases[3]).unwrap());
    ctx.sample(serde_json::to_value(&cases[cases.len() - 1]).unwrap());
    // chunks of 1 for the cross-thread cases would be ideal; they sit at the end of the list and the chunked driver
    // starts a fresh thread per chunk anyway
    run_cases(ctx, &cases, 64, eval);

    // structural coverage on the reference running in lock-step over the derived families
    let seen = Mutex::new(std::collections::BTreeSet::new());
    cases.iter().rev().take(512).for_each(|c| {
        if let Case::Block { key, block } = c {
            let mut obs = |which: u8, lane: usize, idx: u8| {
                seen.lock().unwrap().insert((which, lane, idx));
            };
            sm4::encrypt_block_obs(&h16(key), &h16(block), &mut obs);
        }
    });
    let n = seen.lock().unwrap().len();
    ctx.cov("sbox_index_lane_pairs_hit", json!(n));
    ctx.cov("sbox_index_lane_pairs_total", json!(2 * 4 * 256));
    if n != 2048 {
        ctx.machinery_error(format!("S-box lane coverage {} != 2048", n));
    }

    // E1: immutability of the cipher object
    let depth = ctx.tier.pick(4usize, 5);
    for key in [hex::encode(std_key), hex::encode(keys[keys.len() / 2])] {
        let c2 = ctx.clone();
        let k2 = key.clone();
        let model = HistModel {
            batch: 64,
            inits: vec![vec![]],
            actions: Box::new(move |h: &[u16]| if h.len() < depth { vec![0, 1, 2, 3, 4, 5, 6, 7, 8, 9, 10] } else { vec![] }),
            visit: Arc::new(move |h: &[u16]| {
                if !h.is_empty() {
                    let c = Case::History { key: k2.clone(), seq: h.to_vec() };
                    eval(&c2, &c);
                    prefix_push(serde_json::to_value(&c).unwrap());
                }
            }),
        };
        let st = explore(model);
        ctx.depth(st.max_depth);
        ctx.cov("immutability_model", json!({"unique_states": st.unique_states, "generated": st.generated, "max_depth": st.max_depth}));
        let expect: u64 = (0..=depth as u32).map(|d| 11u64.pow(d)).sum();
        if st.unique_states != expect {
            ctx.machinery_error(format!("immutability model visited {} states, expected {}", st.unique_states, expect));
        }
    }
    ctx.sample(json!({"History": {"key": hex::encode(std_key), "seq": [0, 3, 1, 2]}}));
    crate::cold::check(ctx, "C02");
}
