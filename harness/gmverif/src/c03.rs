//! C03 — SM2 signatures verify and conform to GB/T 32918.2 (E2 with the RNG seam)
use crate::alpha::*;
use crate::engine::*;
use crate::sm2api::*;
use num_bigint::BigUint;
use num_traits::Zero;
use rayon::prelude::*;
use refmodels::sm2;
use refmodels::util::{from_be, from_limbs, hexbig as hb, SplitMix};
use serde::{Deserialize, Serialize};
use serde_json::{json, Value};
use std::sync::Arc;

#[derive(Serialize, Deserialize, Clone, Debug)]
pub enum Case {
    Sign { d: String, id: Option<String>, msg_len: usize, msg_class: String, k: String, tag: String },
    /// key objects whose public point is held in the Jacobian representation with Z = lambda (the `point` field is public
    /// and the library's own constructors produce both affine and non-affine key objects)
    KeyRepr { d: String, k: String, lambda: String, id: Option<String>, msg_len: usize },
    IdTooLong { len: usize },
    Corpus { idx: usize },
}

fn id_string(spec: &str, seed: u64) -> String {
    // IDs are &'static str in the API, hence valid UTF-8 by construction
    if let Some(n) = spec.strip_prefix("len:") {
        let n: usize = n.parse().unwrap();
        let mut g = SplitMix::new(seed, "c03id");
        (0..n).map(|_| (b'a' + (g.next() % 26) as u8) as char).collect()
    } else {
        spec.to_string()
    }
}

pub fn eval(ctx: &Ctx, case: &Case) {
    ctx.state();
    let cj = || serde_json::to_value(case).unwrap();
    let n = &sm2::params().n;
    match case {
        Case::Sign { d, id, msg_len, msg_class, k, tag } => {
            let d = hb(d);
            let k = hb(k);
            let msg = content(msg_class, *msg_len, ctx.seed);
            let idv: Option<String> = id.as_ref().map(|s| id_string(s, ctx.seed));
            let id_bytes: Vec<u8> = idv.as_ref().map(|s| s.as_bytes().to_vec()).unwrap_or_else(|| sm2::DEFAULT_ID.to_vec());
            let id_static: Option<&'static str> = idv.as_ref().map(|s| static_id(s));
            let pk_ref = sm2::g_mul(&d);
            let e = sm2::digest_e(&id_bytes, &pk_ref, &msg);
            // key through the public constructor: its public key must be [d]G
            let sk = match guard(|| gm_sm2::key::Sm2PrivateKey::new(&cand(&d))) {
                Guard::Done(Ok(sk)) => sk,
                other => {
                    ctx.violation("Sm2PrivateKey::new", &format!("valid-key-rejected/{}", tag), format!("d={} -> {}", hexbig(&d), gdbg(&other)), cj());
                    return;
                }
            };
            ctx.call();
            if ref_point(&sk.public_key.point) != pk_ref {
                ctx.violation("Sm2PrivateKey::new", &format!("public-key-mismatch/{}", tag), format!("d={}", hexbig(&d)), cj());
                return;
            }
            // fallback candidates so that a legitimately rejected nonce does not exhaust the queue
            let mut g = SplitMix::new(ctx.seed, "c03fallback");
            let mut queue = vec![cand(&k)];
            for _ in 0..6 {
                queue.push(cand(&g.nonzero_below(&(n - 2u32))));
            }
            let (r, log) = with_rng(queue, || sk.sign(id_static, &msg));
            ctx.call();
            let site = "Sm2PrivateKey::sign";
            let sig = match r {
                Guard::Done(Ok(s)) => s,
                Guard::Done(Err(e)) => {
                    ctx.violation(site, &format!("unexpected-err/{}", tag), format!("d={} k={} err={:?}", hexbig(&d), hexbig(&k), e), cj());
                    return;
                }
                Guard::Panic(p) => {
                    let cls = if is_exhausted(&p) { format!("nonce-loop-did-not-terminate/{}", tag) } else { format!("panic/{}/{}", panic_site(&p), tag) };
                    ctx.violation(site, &cls, format!("d={} k={} {}", hexbig(&d), hexbig(&k), p), cj());
                    return;
                }
            };
            if sig.len() != 64 {
                ctx.violation(site, &format!("signature-length/{}", tag), format!("len={}", sig.len()), cj());
                return;
            }
            let (rr, ss) = (from_be(&sig[..32]), from_be(&sig[32..]));
            if rr.is_zero() || ss.is_zero() || rr >= *n || ss >= *n {
                ctx.violation(site, &format!("component-out-of-range/{}", tag), format!("r={} s={}", hexbig(&rr), hexbig(&ss)), cj());
                return;
            }
            // exact value for the nonce the seam reports as accepted last
            let Some(k_used) = log.accepted.last().map(from_limbs) else {
                ctx.violation(site, &format!("no-nonce-drawn/{}", tag), "signing did not draw a nonce from the generator".to_string(), cj());
                return;
            };
            ctx.trace();
            match sm2::sign_with_k(&d, &e, &k_used) {
                Some((r0, s0)) if r0 == rr && s0 == ss => {}
                Some((r0, s0)) => {
                    ctx.violation(site, &format!("value-mismatch/{}", tag), format!("d={} k={} id={:?} mlen={} got r={} s={} want r={} s={}", hexbig(&d), hexbig(&k_used), id, msg_len, hexbig(&rr), hexbig(&ss), hexbig(&r0), hexbig(&s0)), cj());
                    return;
                }
                None => {
                    ctx.violation(site, &format!("degenerate-nonce-used/{}", tag), format!("k={} gives r=0, r+k=n or s=0 but was used", hexbig(&k_used)), cj());
                    return;
                }
            }
            // independent verifier accepts
            if !sm2::verify(&pk_ref, &e, &rr, &ss) {
                ctx.violation(site, &format!("reference-verifier-rejects/{}", tag), format!("d={} k={}", hexbig(&d), hexbig(&k_used)), cj());
                return;
            }
            // the library's own verification accepts it
            let pk = sk.public_key;
            ctx.call();
            match guard(|| pk.verify(id_static, &msg, &sig)) {
                Guard::Done(Ok(())) => {}
                other => {
                    ctx.violation("Sm2PublicKey::verify", &format!("own-signature-rejected/{}", tag), format!("d={} k={} -> {}", hexbig(&d), hexbig(&k_used), gdbg(&other)), cj());
                    return;
                }
            }
            // a conforming independent signer (other nonce) is accepted
            let mut g2 = SplitMix::new(ctx.seed ^ 0x55, "c03refnonce");
            let (r2, s2) = loop {
                let k2 = g2.nonzero_below(n);
                if let Some(v) = sm2::sign_with_k(&d, &e, &k2) {
                    break v;
                }
            };
            let mut sig2 = cand(&r2).to_vec();
            sig2.extend_from_slice(&cand(&s2));
            ctx.call();
            match guard(|| pk.verify(id_static, &msg, &sig2)) {
                Guard::Done(Ok(())) => ctx.outcome(&format!("ok/{}", tag)),
                other => ctx.violation("Sm2PublicKey::verify", &format!("reference-signature-rejected/{}", tag), format!("d={} id={:?} mlen={} -> {}", hexbig(&d), id, msg_len, gdbg(&other)), cj()),
            }
        }
        Case::KeyRepr { d, k, lambda, id, msg_len } => {
            let (d, k) = (hb(d), hb(k));
            let p = &sm2::params().p;
            let lam = match lambda.as_str() {
                "1" => BigUint::from(1u32),
                "2" => BigUint::from(2u32),
                "p-1" => p - 1u32,
                _ => SplitMix::new(ctx.seed, "c03lambda").nonzero_below(p),
            };
            let msg = content("seed", *msg_len, ctx.seed);
            let idv: Option<String> = id.as_ref().map(|s| id_string(s, ctx.seed));
            let id_bytes: Vec<u8> = idv.as_ref().map(|s| s.as_bytes().to_vec()).unwrap_or_else(|| sm2::DEFAULT_ID.to_vec());
            let id_static: Option<&'static str> = idv.as_ref().map(|s| static_id(s));
            let pk_ref = sm2::g_mul(&d);
            let e = sm2::digest_e(&id_bytes, &pk_ref, &msg);
            let pk = gm_sm2::key::Sm2PublicKey { point: lib_point(&pk_ref, &lam) };
            let sk = private_key_with(&d, pk.clone());
            let tag = format!("key-object-Z={}", lambda);
            // ZA through the public helper, for this representation of the point
            ctx.call();
            match guard(|| gm_sm2::util::compute_za(id_static.unwrap_or("1234567812345678"), &pk.point)) {
                Guard::Done(Ok(z)) if z[..] == sm2::za(&id_bytes, &pk_ref)[..] => {}
                other => {
                    ctx.violation("gm_sm2::util::compute_za", &format!("ZA-mismatch/{}", tag), format!("d={} id={:?} -> {}", hexbig(&d), id, gdbg(&other.map(|r| r.map(hex::encode)))), cj());
                    return;
                }
            }
            let Some((r0, s0)) = sm2::sign_with_k(&d, &e, &k) else { return };
            let mut want = cand(&r0).to_vec();
            want.extend_from_slice(&cand(&s0));
            ctx.trace();
            let (r, _) = with_rng(vec![cand(&k)], || sk.sign(id_static, &msg));
            ctx.call();
            match r {
                Guard::Done(Ok(sig)) if sig == want => {}
                other => {
                    ctx.violation("Sm2PrivateKey::sign", &format!("value-mismatch/{}", tag), format!("d={} k={} -> {} want {}", hexbig(&d), hexbig(&k), gdbg(&other.map(|r| r.map(hex::encode))), hex::encode(&want)), cj());
                    return;
                }
            }
            ctx.call();
            match guard(|| pk.verify(id_static, &msg, &want)) {
                Guard::Done(Ok(())) => {}
                other => {
                    ctx.violation("Sm2PublicKey::verify", &format!("reference-signature-rejected/{}", tag), format!("d={} -> {}", hexbig(&d), gdbg(&other)), cj());
                    return;
                }
            }
            // the key as a verifier usually obtains it: decoded from its compressed and uncompressed SEC1 bytes
            for comp in [true, false] {
                let enc = sm2::encode_point(&pk_ref, comp);
                ctx.call();
                match guard(|| gm_sm2::key::Sm2PublicKey::new(&enc).and_then(|k| k.verify(id_static, &msg, &want))) {
                    Guard::Done(Ok(())) => {}
                    other => {
                        ctx.violation("Sm2PublicKey::verify", &format!("reference-signature-rejected/key-decoded-from-{}-bytes", if comp { "compressed" } else { "uncompressed" }), format!("d={} -> {}", hexbig(&d), gdbg(&other)), cj());
                        return;
                    }
                }
            }
            // and a signature over another message is still refused under that key object
            let mut other_msg = msg.clone();
            other_msg.push(0);
            ctx.call();
            match guard(|| pk.verify(id_static, &other_msg, &want)) {
                Guard::Done(Err(_)) => ctx.outcome(&format!("ok/{}", tag)),
                other => ctx.violation("Sm2PublicKey::verify", &format!("accepted-for-other-message/{}", tag), gdbg(&other), cj()),
            }
        }
        Case::IdTooLong { len } => {
            let id: String = "x".repeat(*len);
            let ids = static_id(&id);
            let sk = private_key(&hb(ANNEX_D));
            let (r, _) = with_rng(vec![cand(&hb(ANNEX_K))], || sk.sign(Some(ids), b"m"));
            ctx.call();
            let expect_err = *len * 8 > 65535;
            match r {
                Guard::Done(Err(_)) if expect_err => ctx.outcome("err/id-too-long"),
                Guard::Done(Ok(_)) if !expect_err => ctx.outcome("ok/max-id"),
                Guard::Done(Ok(_)) => ctx.violation("Sm2PrivateKey::sign", "id-over-8191-bytes-accepted", format!("idlen={}", len), cj()),
                Guard::Done(Err(e)) => ctx.violation("Sm2PrivateKey::sign", "legal-id-rejected", format!("idlen={} err={:?}", len, e), cj()),
                Guard::Panic(p) => ctx.violation("Sm2PrivateKey::sign", &format!("panic/{}/idlen", panic_site(&p)), format!("idlen={} {}", len, p), cj()),
            }
        }
        Case::Corpus { idx } => {
            let corpus = corpus();
            let e = &corpus[*idx];
            let pk_bytes = hex::decode(e["pub"].as_str().unwrap()).unwrap();
            let msg = hex::decode(e["msg"].as_str().unwrap()).unwrap();
            let id = e["id"].as_str().unwrap();
            let mut sig = hex::decode(e["r"].as_str().unwrap()).unwrap();
            sig.extend_from_slice(&hex::decode(e["s"].as_str().unwrap()).unwrap());
            // the reference accepts the OpenSSL signature (pins the reference), then the library must
            let pk_ref = sm2::decode_point(&pk_bytes).expect("corpus key");
            if !sm2::verify_msg(&pk_ref, id.as_bytes(), &msg, &sig) {
                ctx.machinery_error(format!("reference verifier rejects OpenSSL corpus signature {}", idx));
                return;
            }
            ctx.trace();
            ctx.call();
            let r = guard(|| gm_sm2::key::Sm2PublicKey::new(&pk_bytes).and_then(|pk| pk.verify(Some(static_id(id)), &msg, &sig)));
            match r {
                Guard::Done(Ok(())) => ctx.outcome("ok/openssl-signature"),
                other => ctx.violation("Sm2PublicKey::verify", "openssl-signature-rejected", format!("corpus idx={} -> {}", idx, gdbg(&other)), cj()),
            }
        }
    }
}

pub fn gdbg<T: std::fmt::Debug>(g: &Guard<T>) -> String {
    match g {
        Guard::Done(v) => truncate(&format!("{:?}", v), 160),
        Guard::Panic(p) => format!("panic {}", p),
    }
}

pub fn corpus() -> &'static Vec<Value> {
    static C: std::sync::OnceLock<Vec<Value>> = std::sync::OnceLock::new();
    C.get_or_init(|| {
        let s = std::fs::read_to_string(format!("{}/corpus/sm2_sigs.json", VERIF_ROOT)).unwrap_or_else(|_| "[]".into());
        serde_json::from_str::<Value>(&s).unwrap().as_array().unwrap().clone()
    })
}

pub fn replay(ctx: &Arc<Ctx>, v: &Value) {
    if crate::cold::replay(ctx, v) {
        return;
    }
    let c: Case = serde_json::from_value(v.clone()).expect("C03 case");
    eval(ctx, &c);
}

/// Messages "shape #i" whose signature under (Annex d, Annex k, default ID) has a particular shape: r||s that starts like a
/// DER SEQUENCE of the right length (30 3e ..), and t = r + s with its 16 low bits clear (a window of zero digits at the
/// end of the scalar of [t]P). One SM3 and one modular product per trial, about 2^17 trials.
pub fn signature_shapes() -> Vec<(String, String)> {
    static CACHE: std::sync::OnceLock<Vec<(String, String)>> = std::sync::OnceLock::new();
    CACHE
        .get_or_init(|| {
            let n = sm2::params().n.clone();
            let (d, k) = (hb(ANNEX_D), hb(ANNEX_K));
            let pk = sm2::g_mul(&d);
            let za = sm2::za(sm2::DEFAULT_ID, &pk);
            let x1 = sm2::g_mul(&k).unwrap().0;
            let inv1d = (BigUint::from(1u32) + &d).modpow(&(&n - 2u32), &n);
            let mut base = refmodels::sm3::Sm3::new();
            base.update(&za);
            let mut found: std::collections::BTreeMap<&str, String> = Default::default();
            let mask16 = BigUint::from(0xffffu32);
            for ctr in 0..(1u64 << 22) {
                if found.len() == 3 {
                    break;
                }
                let msg = format!("shape #{}", ctr);
                let mut h = base.clone();
                h.update(msg.as_bytes());
                let e = refmodels::util::from_be(&h.finish());
                let r = (&e + &x1) % &n;
                let looks_der = (&r >> 240usize) == BigUint::from(0x303eu32);
                let sv = (&inv1d * ((&k + &n * &n - (&r * &d)) % &n)) % &n;
                let t_low_zero = (((&r + &sv) % &n) & &mask16).is_zero();
                if r.is_zero() || sv.is_zero() || (&r + &k) == n {
                    continue;
                }
                if looks_der && !found.contains_key("r-starts-303e") {
                    found.insert("r-starts-303e", msg.clone());
                }
                if t_low_zero && !found.contains_key("t-low-16-bits-zero") {
                    found.insert("t-low-16-bits-zero", msg.clone());
                }
                // an aligned 16-bit group of zero bits inside the scalar, with non-zero bits above and below it
                let t = (&r + &sv) % &n;
                let t_mid_zero = ((&t >> 80usize) & &mask16).is_zero() && !((&t >> 96usize).is_zero()) && !((&t & ((BigUint::from(1u32) << 80usize) - 1u32)).is_zero());
                if t_mid_zero && !found.contains_key("t-bits-80..95-zero") {
                    found.insert("t-bits-80..95-zero", msg.clone());
                }
            }
            found.into_iter().map(|(k, v)| (k.to_string(), v)).collect()
        })
        .clone()
}

pub fn run(ctx: &Arc<Ctx>) {
    refmodels::selftest::run(&["sm3", "sm2"]).unwrap_or_else(|e| ctx.machinery_error(format!("reference self-test failed: {}", e)));
    let n = sm2::params().n.clone();
    ctx.set_rule("private keys d x nonces k (via the RNG seam) over {1,2,3,n-2,n-3,2^255,2^128-1,limb patterns,Annex,seeded} with two (ID,message) pairs, keys with (1+d)^-1 in {2, 3, 2^64+1, 2^127+3, 2^191+5, 2^192+2^64} and keys whose low limbs are all ones, plus IDs {default, \"\", 1, 16, 8191 bytes, seeded} x message lengths {0,1,31,32,33,55,56,64,119,4096} x {zero, seeded} with two (d,k) pairs, every message length and every ID length 0..=300 (thorough 1200) with one; key objects whose public point is affine or Jacobian with Z in {2, p-1, seeded} sign and verify identically; ID of 8192 bytes must be refused; pre-searched messages whose digest e is >= n; messages searched at run time so that r||s starts like a DER SEQUENCE (30 3e) and so that r + s has its 16 low bits, or bits 80..95, clear; GM/T 0003.5 Annex A exact; OpenSSL signature corpus. Per case: 64 bytes, r,s in [1,n-1], exact equality with the reference signature for the nonce the seam reports as accepted, reference verifier accepts, library verifier accepts its own and a reference-made signature.");
    // d in [1, n-2]: top element n-2; k in [1, n-1]: top element n-1
    let ds = scalar_alphabet(&n, ctx.seed, "c03d", 2);
    let ks = scalar_alphabet(&n, ctx.seed, "c03k", 1);
    let mut cases = Vec::new();
    cases.push(Case::Sign { d: ANNEX_D.into(), id: None, msg_len: 14, msg_class: "annex".into(), k: ANNEX_K.into(), tag: "annex-A".into() });
    let id_msgs: Vec<(Option<String>, usize)> = vec![(None, 32), (Some("len:16".into()), 119)];
    for (dn, d) in &ds {
        for (kn, k) in &ks {
            for (id, ml) in &id_msgs {
                cases.push(Case::Sign { d: hexbig(d), id: id.clone(), msg_len: *ml, msg_class: "seed".into(), k: hexbig(k), tag: format!("d={}/k={}", dn, kn) });
            }
        }
    }
    // keys chosen through the value the signer inverts: (1 + d)^-1 = w for short / sparse w (an inverse routine that
    // mishandles results with leading zero limbs), and d whose low limb is all ones (the +1 must carry)
    {
        let one = BigUint::from(1u32);
        let ws: Vec<(String, BigUint)> = vec![("2".into(), BigUint::from(2u32)), ("3".into(), BigUint::from(3u32)), ("2^64+1".into(), (&one << 64usize) + 1u32), ("2^127+3".into(), (&one << 127usize) + 3u32), ("2^191+5".into(), (&one << 191usize) + 5u32), ("2^192+2^64".into(), (&one << 192usize) + (&one << 64usize))];
        for (wn, w) in &ws {
            let d = (w.modpow(&(&n - 2u32), &n) + &n - 1u32) % &n;
            if d >= one && d <= &n - 2u32 {
                for (kn, k) in ks.iter().take(3) {
                    cases.push(Case::Sign { d: hexbig(&d), id: None, msg_len: 32, msg_class: "seed".into(), k: hexbig(k), tag: format!("(1+d)^-1={}/k={}", wn, kn) });
                }
            }
        }
        for dl in [(&one << 64usize) - 1u32, ((&one << 128usize) - 1u32), (BigUint::from(0xb51au32) << 64usize) + ((&one << 64usize) - 1u32)] {
            cases.push(Case::Sign { d: hexbig(&dl), id: None, msg_len: 32, msg_class: "seed".into(), k: ANNEX_K.into(), tag: "d-low-limbs-all-ones".into() });
        }
    }
    // messages searched (fixed Annex d and k, message "shape #i") so that the signature has a particular shape
    {
        let found = signature_shapes();
        for (kind, msg) in &found {
            cases.push(Case::Sign { d: ANNEX_D.into(), id: None, msg_len: msg.len(), msg_class: format!("hex:{}", hex::encode(msg.as_bytes())), k: ANNEX_K.into(), tag: format!("signature-shape/{}", kind) });
        }
        ctx.cov("searched_signature_shapes", json!(found.iter().map(|(k, _)| k.clone()).collect::<Vec<_>>()));
        if found.len() != 3 {
            ctx.machinery_error("signature-shape search found nothing");
        }
    }
    let ids: Vec<Option<String>> = vec![None, Some("".into()), Some("A".into()), Some("len:16".into()), Some("len:8191".into()), Some("len:37".into()), Some("1234567812345678".into()), Some("用户甲@例.cn".into()), Some("Zoë".into()), Some("alice ".into()), Some("alice\n".into()), Some(" alice".into()), Some("ALICE".into()), Some("alice\0".into()), Some("alice".into())];
    let mlens = [0usize, 1, 31, 32, 33, 55, 56, 64, 119, 4096];
    let dks = [(hb(ANNEX_D), hb(ANNEX_K)), (ds.last().unwrap().1.clone(), ks.last().unwrap().1.clone())];
    for id in &ids {
        for ml in mlens {
            for mc in ["zero", "seed"] {
                for (d, k) in &dks {
                    let idtag = match id {
                        None => "default".to_string(),
                        Some(s) => format!("id={}", if s.starts_with("len:") { s.clone() } else { format!("len:{}", s.len()) }),
                    };
                    cases.push(Case::Sign { d: hexbig(d), id: id.clone(), msg_len: ml, msg_class: mc.into(), k: hexbig(k), tag: format!("{}/mlen={}", idtag, ml) });
                }
            }
        }
    }
    // every ID length 0..=300 (ENTL crosses 255 bits at 32 bytes and 2040 bits at 255 bytes) with one (d, k, message)
    for il in 0..=ctx.tier.pick(300usize, 1200) {
        cases.push(Case::Sign { d: ANNEX_D.into(), id: Some(format!("len:{}", il)), msg_len: 20, msg_class: "seed".into(), k: ANNEX_K.into(), tag: "idlen-sweep".into() });
    }
    // every message length 0..=300 (thorough 1200) with one (d, k, ID)
    for ml in 0..=ctx.tier.pick(300usize, 1200) {
        cases.push(Case::Sign { d: ANNEX_D.into(), id: Some("len:16".into()), msg_len: ml, msg_class: "seed".into(), k: ANNEX_K.into(), tag: "mlen-sweep".into() });
    }
    if ctx.tier == Tier::Thorough {
        // 4-way product over reduced alphabets
        for (dn, d) in ds.iter().step_by(2) {
            for (kn, k) in ks.iter().step_by(2) {
                for id in ids.iter().step_by(2) {
                    for ml in [0usize, 33, 56, 64] {
                        cases.push(Case::Sign { d: hexbig(d), id: id.clone(), msg_len: ml, msg_class: "seed".into(), k: hexbig(k), tag: format!("d={}/k={}/mlen={}", dn, kn, ml) });
                    }
                }
            }
        }
    }
    // pre-searched messages for (Annex d, Annex k) whose e + x1 falls in [n, 2^256) (r < 2^224: the rarely taken
    // "no carry but >= n" reduction) or whose s < 2^224 — the same vectors C04 uses for the +n aliases
    if let Ok(txt) = std::fs::read_to_string(format!("{}/corpus/sm2_small_rs.json", VERIF_ROOT)) {
        for e in serde_json::from_str::<Value>(&txt).ok().and_then(|v| v.as_array().cloned()).unwrap_or_default() {
            let m = e["msg"].as_str().unwrap_or("").to_string();
            let kind = e["kind"].as_str().unwrap_or("small").to_string();
            cases.push(Case::Sign { d: ANNEX_D.into(), id: None, msg_len: m.len() / 2, msg_class: format!("hex:{}", m), k: ANNEX_K.into(), tag: format!("pre-searched/{}", kind) });
        }
    }
    // pre-searched messages whose digest e = SM3(ZA || M) is >= n (top 32 bits all ones): e mod n differs from e
    {
        let big: Vec<Value> = std::fs::read_to_string(format!("{}/corpus/sm2_big_e.json", VERIF_ROOT)).ok().and_then(|t| serde_json::from_str::<Value>(&t).ok()).and_then(|v| v.as_array().cloned()).unwrap_or_default();
        let mut ok = 0;
        for e in &big {
            let (d, m) = (e["d"].as_str().unwrap_or(""), e["msg"].as_str().unwrap_or(""));
            let id = e["id"].as_str().map(|s| s.to_string());
            let idb = id.as_ref().map(|s| s.as_bytes().to_vec()).unwrap_or_else(|| sm2::DEFAULT_ID.to_vec());
            if sm2::digest_e(&idb, &sm2::g_mul(&hb(d)), &hex::decode(m).unwrap_or_default()) >= n {
                ok += 1;
                for k in [ANNEX_K.to_string(), hexbig(&ks[5].1)] {
                    cases.push(Case::Sign { d: d.into(), id: id.clone(), msg_len: m.len() / 2, msg_class: format!("hex:{}", m), k, tag: "pre-searched/e>=n".into() });
                }
            }
        }
        ctx.cov("messages_with_digest_e_ge_n", json!(ok));
        if ok == 0 {
            ctx.machinery_error("corpus/sm2_big_e.json missing or not reproduced by the reference");
        }
    }
    for (d, k) in &dks {
        for lambda in ["1", "2", "p-1", "seed"] {
            for id in [None, Some("len:16".to_string()), Some("".to_string())] {
                cases.push(Case::KeyRepr { d: hexbig(d), k: hexbig(k), lambda: lambda.into(), id, msg_len: 33 });
            }
        }
    }
    for len in [8191usize, 8192, 8193, 20000] {
        cases.push(Case::IdTooLong { len });
    }
    for idx in 0..corpus().len() {
        cases.push(Case::Corpus { idx });
    }
    if corpus().is_empty() {
        ctx.machinery_error("corpus/sm2_sigs.json missing or empty");
    }
    ctx.cov("openssl_signatures", json!(corpus().len()));
    ctx.sample(serde_json::to_value(&cases[0]).unwrap());
    ctx.sample(serde_json::to_value(&cases[cases.len() / 2]).unwrap());
    run_cases(ctx, &cases, 8, eval);
    // call sequences over related inputs on one thread: two keys x two IDs in every order
    {
        let mut items = Vec::new();
        for (d, id) in [(&ds[1].1, Some("alice@example.com".to_string())), (&ds[4].1, Some("alice@example.com".to_string())), (&ds[1].1, None), (&ds[4].1, None)] {
            items.push(Case::Sign { d: hexbig(d), id: id.clone(), msg_len: 33, msg_class: "seed".into(), k: hexbig(&ks[6].1), tag: "sequence".into() });
        }
        let seqs = permutations(&items);
        ctx.cov("related_input_sequences", json!(seqs.len()));
        run_sequences(ctx, &seqs, eval);
    }

    // GM/T 0003.5 Annex A through the library, exact
    let sk = private_key(&hb(ANNEX_D));
    let (r, _) = with_rng(vec![cand(&hb(ANNEX_K))], || sk.sign(None, b"message digest"));
    ctx.call();
    ctx.state();
    let want = "f5a03b0648d2c4630eeac513e1bb81a15944da3827d5b74143ac7eaceee720b3b1b6aa29df212fd8763182bc0d421ca1bb9038fd1f7f42d4840b69c485bbc1aa";
    match r {
        Guard::Done(Ok(s)) if hex::encode(&s) == want => ctx.outcome("ok/annex-A"),
        other => ctx.violation("Sm2PrivateKey::sign", "annex-A-example", gdbg(&other), json!({"Sign": {"d": ANNEX_D, "id": null, "msg_len": 14, "msg_class": "annex", "k": ANNEX_K, "tag": "annex"}})),
    }
    crate::cold::check(ctx, "C03");
}
