//! C04 — SM2 verification accepts nothing but a valid signature (fault enumeration inside the product)
use crate::alpha::*;
use crate::c03::gdbg;
use crate::engine::*;
use crate::sm2api::*;
use num_bigint::BigUint;
use num_traits::{One, Zero};
use rayon::prelude::*;
use refmodels::sm2;
use refmodels::util::{hexbig as hb, SplitMix};
use serde::{Deserialize, Serialize};
use serde_json::Value;
use std::sync::Arc;

#[derive(Serialize, Deserialize, Clone, Debug)]
pub struct Case {
    /// SEC1 uncompressed public key
    pub pk: String,
    pub id: Option<String>,
    pub msg: String,
    pub sig: String,
    /// what was done to a valid signature (class of the case)
    pub label: String,
    /// the public key object holds the point in the Jacobian representation with this Z (hex); None = affine
    #[serde(default)]
    pub lambda: Option<String>,
    /// the public key object holds the point at infinity written (t^2 : t^3 : 0) with this t (hex); `pk` is then unused
    #[serde(default)]
    pub inf: Option<String>,
    /// the public key object holds these raw coordinates, which are NOT on the curve, with this Z (hex x, y, z); `pk` is unused
    #[serde(default)]
    pub raw: Option<[String; 3]>,
}

pub fn eval(ctx: &Ctx, c: &Case) {
    ctx.state();
    let cj = || serde_json::to_value(c).unwrap();
    let pkb = hex::decode(&c.pk).unwrap();
    let msg = hex::decode(&c.msg).unwrap();
    let sig = hex::decode(&c.sig).unwrap();
    let id_bytes = c.id.as_ref().map(|s| s.as_bytes().to_vec()).unwrap_or_else(|| sm2::DEFAULT_ID.to_vec());
    let (pk, accept) = if let Some([x, y, z]) = &c.raw {
        // a key object whose coordinates satisfy no curve equation is no public key: nothing verifies under it
        let p = &sm2::params().p;
        let (x, y, z) = (hb(x), hb(y), hb(z));
        let (z2, z3) = ((&z * &z) % p, (&z * &z * &z) % p);
        let pt = gm_sm2::p256_ecc::Point { x: to_mont(&((&x * &z2) % p)), y: to_mont(&((&y * &z3) % p)), z: to_mont(&z) };
        if sm2::on_curve(&Some((x, y))) {
            ctx.machinery_error("raw key object is on the curve");
            return;
        }
        (gm_sm2::key::Sm2PublicKey { point: pt }, false)
    } else if let Some(t) = &c.inf {
        // the point at infinity is no public key (GB/T 32918.1 6.2.1 a): nothing verifies under it
        let p = &sm2::params().p;
        let t = hb(t);
        (gm_sm2::key::Sm2PublicKey { point: gm_sm2::p256_ecc::Point { x: to_mont(&((&t * &t) % p)), y: to_mont(&((&t * &t * &t) % p)), z: [0; 4] } }, false)
    } else {
        let pk_ref = sm2::decode_point(&pkb).expect("case public key is valid");
        // an ID longer than 8191 bytes has no 16-bit ENTL: nothing verifies under it
        let accept = id_bytes.len() <= 8191 && sm2::verify_msg(&pk_ref, &id_bytes, &msg, &sig);
        let pk = match &c.lambda {
            None => public_key(&pk_ref),
            Some(l) => gm_sm2::key::Sm2PublicKey { point: lib_point(&pk_ref, &hb(l)) },
        };
        (pk, accept)
    };
    ctx.trace();
    let ids = c.id.as_ref().map(|s| static_id(s));
    ctx.call();
    let r = guard(|| pk.verify(ids, &msg, &sig));
    let site = "Sm2PublicKey::verify";
    match (r, accept) {
        (Guard::Done(Ok(())), true) => ctx.outcome("accepted/valid"),
        (Guard::Done(Err(_)), false) => ctx.outcome(&format!("rejected/{}", c.label)),
        (Guard::Done(Ok(())), false) => ctx.violation(site, &format!("accepted-invalid/{}", c.label), format!("sig={} siglen={}", c.sig, sig.len()), cj()),
        (Guard::Done(Err(e)), true) => ctx.violation(site, &format!("rejected-valid/{}", c.label), format!("err={:?} sig={}", e, c.sig), cj()),
        (Guard::Panic(p), _) => ctx.violation(site, &format!("panic/{}/{}", panic_site(&p), c.label), format!("{} siglen={}", p, sig.len()), cj()),
    }
}

pub fn replay(ctx: &Arc<Ctx>, v: &Value) {
    if crate::cold::replay(ctx, v) {
        return;
    }
    let c: Case = serde_json::from_value(v.clone()).expect("C04 case");
    eval(ctx, &c);
}

fn sig_bytes(r: &BigUint, s: &BigUint) -> String {
    // components may exceed 32 bytes only via 2^256-1 which still fits
    format!("{}{}", hexbig(r), hexbig(s))
}

pub fn run(ctx: &Arc<Ctx>) {
    refmodels::selftest::run(&["sm3", "sm2"]).unwrap_or_else(|e| ctx.machinery_error(format!("reference self-test failed: {}", e)));
    let n = sm2::params().n.clone();
    let p = sm2::params().p.clone();
    ctx.set_rule("for each base signature (quick 12, thorough 60: keys x nonces x IDs x messages from the C03 alphabets, made by the reference signer): all 512 single-bit flips of r||s; r,s substituted by {0,1,n-1,n,n+1,2^256-1}, s=n-r, swapped, s -> n-s, r -> n-r; (r+delta, s') completed with the private key so that the verification point is unchanged, delta in {+-1, +-(p-n), +-(2^256-n), +-(2^256-p)}; the public key held as a Jacobian key object (Z in {2, p-1, seeded}); message bit flipped / byte appended / truncated, or replaced by the intermediate values e = SM3(Z_A||M), Z_A||M, Z_A, SM3(M) (also on messages of 2^16+5 bytes and 4 MiB+17 bytes, changed at the end, in the middle and after the first block); ID changed (also to normalisation-equivalent spellings: trailing / leading white space, line end, NUL, case; and to IDs longer than 8191 bytes sharing the signer's prefix); key replaced by another key and by -P; every signature length 0..=130 as prefix/extension and constant fills, and lengths 64 + 256k, 64 + 65536 with neighbours; the valid (r, s) re-encoded as DER SEQUENCE { r, s }, as hex text, doubled, or with a leading 00 / 04; signatures searched so that r||s starts with 30 3e or r + s has 16 clear low bits; plus the product RxS of a 12-element boundary alphabet; pre-searched messages whose digest e is >= n; key objects that hold the point at infinity or a point off the curve (affine and Jacobian), with signatures forged for the verification point [s]G; pre-searched signatures with r or s below 2^224 and their r+n / s+n aliases. Oracle: the reference verifier (and 'exactly 64 bytes'); library must return Err whenever it rejects — never Ok, never a panic — and Ok when it accepts.");
    let ds = scalar_alphabet(&n, ctx.seed, "c04d", 2);
    let ks = scalar_alphabet(&n, ctx.seed, "c04k", 1);
    let nbase = ctx.tier.pick(12usize, 160);
    // IDs are byte strings to the standard; the API takes &str, so non-ASCII IDs are multi-byte UTF-8
    let ids: Vec<Option<String>> = vec![None, Some("alice@example.com".into()), Some("".into()), Some("用户甲".into()), Some("alice@example.com\n".into()), Some("Alice@Example.com ".into())];
    let mut cases: Vec<Case> = Vec::new();
    let mut g = SplitMix::new(ctx.seed, "c04");
    let other_key = sm2::g_mul(&g.nonzero_below(&(&n - 1u32)));
    for b in 0..nbase {
        let (dn, d) = &ds[(b * 5) % ds.len()];
        let (kn, k) = &ks[(b * 7 + 3) % ks.len()];
        let _ = (dn, kn);
        let id = ids[b % ids.len()].clone();
        let mlen = [0usize, 1, 32, 55, 64, 119][b % 6];
        let msg = content("seed", mlen, ctx.seed ^ b as u64);
        let pk = sm2::g_mul(d);
        let id_bytes = id.as_ref().map(|s| s.as_bytes().to_vec()).unwrap_or_else(|| sm2::DEFAULT_ID.to_vec());
        let e = sm2::digest_e(&id_bytes, &pk, &msg);
        let (r, s) = match sm2::sign_with_k(d, &e, k) {
            Some(v) => v,
            None => sm2::sign_with_k(d, &e, &(k + 1u32)).expect("base signature"),
        };
        let pkh = hex::encode(sm2::encode_point(&pk, false));
        let mk = |sig: String, msg: &[u8], id: &Option<String>, pkh: &str, label: &str| Case { pk: pkh.to_string(), id: id.clone(), msg: hex::encode(msg), sig, label: label.to_string(), lambda: None, inf: None, raw: None };
        let valid = sig_bytes(&r, &s);
        cases.push(mk(valid.clone(), &msg, &id, &pkh, "valid"));
        // the same point held as a Jacobian key object (Z = 2, p - 1, seeded): valid accepted, altered refused
        for lam in [BigUint::from(2u32), &p - 1u32, g.nonzero_below(&p)] {
            let l = Some(hexbig(&lam));
            let mut c = mk(valid.clone(), &msg, &id, &pkh, "valid");
            c.lambda = l.clone();
            cases.push(c);
            let mut f = hex::decode(&valid).unwrap();
            f[31] ^= 1;
            let mut c = mk(hex::encode(&f), &msg, &id, &pkh, "bitflip-r/jacobian-key-object");
            c.lambda = l.clone();
            cases.push(c);
            let mut m2 = msg.clone();
            m2.push(0x80);
            let mut c = mk(valid.clone(), &m2, &id, &pkh, "msg-extended/jacobian-key-object");
            c.lambda = l;
            cases.push(c);
        }
        // the right point with a shifted r: (r', s') with r' = r + delta and s' = (1+d)^-1 (k - r' d), so that
        // [s']G + [r'+s']P = [k]G exactly as for the valid signature, but r' != (e + x1) mod n
        {
            let k_used = if sm2::sign_with_k(d, &e, k).is_some() { k.clone() } else { k + 1u32 };
            let two256: BigUint = BigUint::one() << 256usize;
            let one_plus_d_inv = (BigUint::one() + d).modpow(&(&n - 2u32), &n);
            let deltas: Vec<(&str, BigUint)> = vec![("1", BigUint::one()), ("-1", &n - 1u32), ("p-n", &p - &n), ("n-p", &n - ((&p - &n) % &n)), ("2^256-n", (&two256 - &n) % &n), ("2^256-p", (&two256 - &p) % &n), ("-(2^256-n)", &n - ((&two256 - &n) % &n)), ("-(2^256-p)", &n - ((&two256 - &p) % &n))];
            for (dn2, delta) in &deltas {
                let r2 = (&r + delta) % &n;
                let s2 = (&one_plus_d_inv * ((&k_used + &n - (&r2 * d) % &n) % &n)) % &n;
                if r2.is_zero() || s2.is_zero() || ((&r2 + &s2) % &n).is_zero() {
                    continue;
                }
                cases.push(mk(sig_bytes(&r2, &s2), &msg, &id, &pkh, &format!("right-point-shifted-r/delta={}", dn2)));
            }
        }
        // all single-bit flips
        let vb = hex::decode(&valid).unwrap();
        for bit in 0..512 {
            let mut f = vb.clone();
            f[bit / 8] ^= 0x80 >> (bit % 8);
            cases.push(mk(hex::encode(f), &msg, &id, &pkh, if bit < 256 { "bitflip-r" } else { "bitflip-s" }));
        }
        // component substitutions
        let max: BigUint = (BigUint::one() << 256usize) - BigUint::one();
        let subs: Vec<(&str, BigUint)> = vec![("0", BigUint::zero()), ("1", BigUint::one()), ("n-1", &n - 1u32), ("n", n.clone()), ("n+1", &n + 1u32), ("2^256-1", max.clone()), ("p", p.clone())];
        for (name, v) in &subs {
            cases.push(mk(sig_bytes(v, &s), &msg, &id, &pkh, &format!("r={}", name)));
            cases.push(mk(sig_bytes(&r, v), &msg, &id, &pkh, &format!("s={}", name)));
        }
        cases.push(mk(sig_bytes(&r, &(&n - &r)), &msg, &id, &pkh, "s=n-r"));
        // verification point at infinity AND r = e mod n: a verifier that converts O to affine (0, 0) sees (e + 0) = r
        {
            let one_plus_d_inv = (BigUint::one() + d).modpow(&(&n - 2u32), &n);
            let rv = &e % &n;
            let sv = (&n - (&rv * d % &n) * &one_plus_d_inv % &n) % &n;
            if !rv.is_zero() && !sv.is_zero() && !((&rv + &sv) % &n).is_zero() {
                cases.push(mk(sig_bytes(&rv, &sv), &msg, &id, &pkh, "sum-is-point-at-infinity/r=e"));
            }
        }
        // in-range (r, s) for which [s]G + [r+s]P is the point at infinity: s + t d = 0 with t = r + s
        for sv in [BigUint::one(), &n - 1u32, g.nonzero_below(&n)] {
            let dinv = d.modpow(&(&n - 2u32), &n);
            let t = (&n - (&sv * &dinv) % &n) % &n;
            let rv = (&t + &n - &sv) % &n;
            if !t.is_zero() && !rv.is_zero() {
                cases.push(mk(sig_bytes(&rv, &sv), &msg, &id, &pkh, "sum-is-point-at-infinity"));
            }
        }
        cases.push(mk(sig_bytes(&s, &r), &msg, &id, &pkh, "swapped"));
        // ECDSA habits: (r, n - s) and (n - r, s) are signatures of nothing here
        cases.push(mk(sig_bytes(&r, &(&n - &s)), &msg, &id, &pkh, "s-replaced-by-n-s"));
        cases.push(mk(sig_bytes(&(&n - &r), &s), &msg, &id, &pkh, "r-replaced-by-n-r"));
        cases.push(mk(sig_bytes(&(&n - &r), &(&n - &s)), &msg, &id, &pkh, "both-negated"));
        cases.push(mk(sig_bytes(&(&r + &n).min(max.clone()), &s), &msg, &id, &pkh, "r+n"));
        cases.push(mk(sig_bytes(&r, &(&s + &n).min(max.clone())), &msg, &id, &pkh, "s+n"));
        // message / id / key changes
        if !msg.is_empty() {
            let mut m2 = msg.clone();
            m2[0] ^= 1;
            cases.push(mk(valid.clone(), &m2, &id, &pkh, "msg-bitflip"));
            cases.push(mk(valid.clone(), &msg[..msg.len() - 1], &id, &pkh, "msg-truncated"));
        }
        let mut m3 = msg.clone();
        m3.push(0);
        cases.push(mk(valid.clone(), &m3, &id, &pkh, "msg-extended"));
        // the intermediate values of the signed message offered as the message: the digest e = SM3(Z_A || M),
        // Z_A || M itself, Z_A alone, SM3(M) (a verifier that "also takes a pre-hashed message" accepts the first)
        {
            let za = sm2::za(&id_bytes, &pk);
            let e_bytes = cand(&e);
            let zam = [&za[..], &msg[..]].concat();
            for (m, lab) in [(e_bytes.to_vec(), "msg-is-the-digest-e"), (zam, "msg-is-ZA||M"), (za.to_vec(), "msg-is-ZA"), (refmodels::sm3::sm3(&msg).to_vec(), "msg-is-SM3(M)")] {
                if m != msg {
                    cases.push(mk(valid.clone(), &m, &id, &pkh, lab));
                }
            }
        }
        let id2 = match &id {
            None => Some("1234567812345679".to_string()),
            Some(s) => Some(format!("{}x", s)),
        };
        cases.push(mk(valid.clone(), &msg, &id2, &pkh, "id-changed"));
        if id.as_deref() == Some("用户甲") {
            // same UTF-8 length, code points that agree in their low byte
            cases.push(mk(valid.clone(), &msg, &Some("用户串".to_string()), &pkh, "id-changed"));
        }
        if id.is_some() {
            cases.push(mk(valid.clone(), &msg, &None, &pkh, "id-default-instead"));
        }
        // IDs that only a normalising verifier would identify with the signer's ID
        if let Some(s0) = &id {
            for v in [format!("{} ", s0), format!("{}\n", s0), format!(" {}", s0), s0.to_uppercase(), s0.to_lowercase(), s0.trim_end().to_string(), format!("{}\0", s0)] {
                if v != *s0 {
                    cases.push(mk(valid.clone(), &msg, &Some(v), &pkh, "id-changed/normalisation-equivalent"));
                }
            }
        } else {
            for v in ["1234567812345678 ", "1234567812345678\n", ""] {
                cases.push(mk(valid.clone(), &msg, &Some(v.to_string()), &pkh, "id-changed/normalisation-equivalent"));
            }
        }
        // an ID of more than 8191 bytes has no ENTL: never accepted, whatever prefix it shares with the signer's ID
        if b < 2 {
            let long_id: String = format!("{}{}", id.clone().unwrap_or_default(), "x".repeat(8192));
            cases.push(mk(valid.clone(), &msg, &Some(long_id), &pkh, "id-over-8191-bytes"));
            // the longest legal ID, and the same ID with one more byte
            let id_max: String = "m".repeat(8191);
            let e2 = sm2::digest_e(id_max.as_bytes(), &pk, &msg);
            if let Some((r2, s2)) = sm2::sign_with_k(d, &e2, k) {
                cases.push(mk(sig_bytes(&r2, &s2), &msg, &Some(id_max.clone()), &pkh, "valid"));
                cases.push(mk(sig_bytes(&r2, &s2), &msg, &Some(format!("{}y", id_max)), &pkh, "id-over-8191-bytes"));
                cases.push(mk(sig_bytes(&r2, &s2), &msg, &Some(format!("{}{}", id_max, "z".repeat(8191))), &pkh, "id-over-8191-bytes"));
            }
        }
        cases.push(mk(valid.clone(), &msg, &id, &hex::encode(sm2::encode_point(&other_key, false)), "other-key"));
        cases.push(mk(valid.clone(), &msg, &id, &hex::encode(sm2::encode_point(&sm2::params().curve.neg(&pk), false)), "negated-key"));
        // every length 0..=130
        let mut ext = vb.clone();
        ext.extend_from_slice(&vb);
        ext.extend_from_slice(&[0, 0]);
        for len in 0..=130usize {
            if len != 64 {
                let l = if len < 64 { "len<64" } else { "len>64" };
                cases.push(mk(hex::encode(&ext[..len]), &msg, &id, &pkh, &format!("prefix-or-extension/{}", l)));
                if b < 2 {
                    cases.push(mk(hex::encode(vec![0u8; len]), &msg, &id, &pkh, &format!("zero-fill/{}", l)));
                    cases.push(mk(hex::encode(vec![0xffu8; len]), &msg, &id, &pkh, &format!("ff-fill/{}", l)));
                    cases.push(mk(hex::encode(vec![0x01u8; len]), &msg, &id, &pkh, &format!("01-fill/{}", l)));
                }
            }
        }
        // lengths that equal 64 modulo 256 / 65536 (a length kept in a u8 / u16 would take them for 64), and their neighbours
        if b < 2 {
            for len in [191usize, 192, 255, 256, 257, 319, 320, 321, 576, 832, 64 + 65536, 128 + 65536] {
                let mut big = Vec::with_capacity(len);
                while big.len() < len {
                    big.extend_from_slice(&vb);
                }
                big.truncate(len);
                cases.push(mk(hex::encode(&big), &msg, &id, &pkh, "prefix-or-extension/len=64-mod-256-or-neighbour"));
            }
        }
        // boundary product R x S (once)
        if b == 0 {
            let bnd: Vec<(&str, BigUint)> = vec![
                ("0", BigUint::zero()), ("1", BigUint::one()), ("2", BigUint::from(2u32)), ("n-2", &n - 2u32), ("n-1", &n - 1u32), ("n", n.clone()),
                ("n+1", &n + 1u32), ("p-1", &p - 1u32), ("p", p.clone()), ("2^255", BigUint::one() << 255), ("2^256-1", max.clone()), ("e-dependent", (&n - (&e % &n)) % &n),
            ];
            for (rn, rv) in &bnd {
                for (sn, sv) in &bnd {
                    cases.push(mk(sig_bytes(rv, sv), &msg, &id, &pkh, &format!("boundary-pair/r={}/s={}", rn, sn)));
                }
            }
        }
    }
    // pre-searched signatures with r < 2^224 or s < 2^224: the only ones whose r+n / s+n alias fits in 32 bytes
    let mut small: Vec<Value> = Vec::new();
    for f in ["sm2_small_rs.json", "sm2_small_rs_agent.json"] {
        small.extend(std::fs::read_to_string(format!("{}/corpus/{}", VERIF_ROOT, f)).ok().and_then(|s| serde_json::from_str::<Value>(&s).ok()).and_then(|v| v.as_array().cloned()).unwrap_or_default());
    }
    if small.is_empty() {
        ctx.machinery_error("corpus/sm2_small_rs.json missing or empty");
    }
    let two224: BigUint = BigUint::one() << 224usize;
    for e in &small {
        let (pkh, msg) = (e["pub"].as_str().unwrap().to_string(), hex::decode(e["msg"].as_str().unwrap()).unwrap());
        let (r, s) = (hb(e["r"].as_str().unwrap()), hb(e["s"].as_str().unwrap()));
        let kind = e["kind"].as_str().unwrap();
        let mk = |sig: String, label: &str| Case { pk: pkh.clone(), id: None, msg: hex::encode(&msg), sig, label: label.to_string(), lambda: None, inf: None, raw: None };
        cases.push(mk(sig_bytes(&r, &s), "valid"));
        if r < two224 {
            cases.push(mk(sig_bytes(&(&r + &n), &s), "r+n-alias"));
        }
        if s < two224 {
            cases.push(mk(sig_bytes(&r, &(&s + &n)), "s+n-alias"));
        }
        if !(r < two224 || s < two224) {
            ctx.machinery_error(format!("corpus entry {} has no small component", kind));
        }
    }
    // long messages: 2^16 + 5 bytes and 4 MiB + 17 bytes (ZA || M pads to more than 2^16 blocks): a change in the last
    // byte, in the middle and right after the first block must be refused
    for (mlen, dk) in [(65541usize, 1usize), ((4 << 20) + 17, 2)] {
        let d = &ds[dk].1;
        let pk = sm2::g_mul(d);
        let msg = content("mod251", mlen, ctx.seed);
        let e = sm2::digest_e(sm2::DEFAULT_ID, &pk, &msg);
        if let Some((r, s)) = sm2::sign_with_k(d, &e, &ks[3].1) {
            let pkh = hex::encode(sm2::encode_point(&pk, false));
            let mk = |m: &[u8], label: &str| Case { pk: pkh.clone(), id: None, msg: hex::encode(m), sig: sig_bytes(&r, &s), label: label.to_string(), lambda: None, inf: None, raw: None };
            cases.push(mk(&msg, "valid"));
            for pos in [mlen - 1, mlen / 2, 40usize] {
                let mut m2 = msg.clone();
                m2[pos] ^= 0x01;
                cases.push(mk(&m2, "long-msg-byte-changed"));
            }
            cases.push(mk(&msg[..mlen - 1], "long-msg-truncated"));
        }
    }
    ctx.cov("small_component_signatures", serde_json::json!(small.len()));
    // pre-searched messages whose digest e is >= n: a reference-made signature must be accepted, its neighbours refused
    {
        let big: Vec<Value> = std::fs::read_to_string(format!("{}/corpus/sm2_big_e.json", VERIF_ROOT)).ok().and_then(|t| serde_json::from_str::<Value>(&t).ok()).and_then(|v| v.as_array().cloned()).unwrap_or_default();
        let mut ok = 0;
        for e in &big {
            let d = hb(e["d"].as_str().unwrap_or("0"));
            let msg = hex::decode(e["msg"].as_str().unwrap_or("")).unwrap_or_default();
            let id = e["id"].as_str().map(|s| s.to_string());
            let idb = id.as_ref().map(|s| s.as_bytes().to_vec()).unwrap_or_else(|| sm2::DEFAULT_ID.to_vec());
            let pk = sm2::g_mul(&d);
            let ee = sm2::digest_e(&idb, &pk, &msg);
            if ee < n {
                continue;
            }
            ok += 1;
            let Some((r, s)) = sm2::sign_with_k(&d, &ee, &ks[4].1) else { continue };
            let pkh = hex::encode(sm2::encode_point(&pk, false));
            let mk = |sig: String, m: &[u8], label: &str| Case { pk: pkh.clone(), id: id.clone(), msg: hex::encode(m), sig, label: label.to_string(), lambda: None, inf: None, raw: None };
            cases.push(mk(sig_bytes(&r, &s), &msg, "valid"));
            // the signature an implementation makes that takes -(e mod n) or the unreduced e wrongly: r shifted by the difference
            for (dn2, delta) in [("-2e", (&n * 2u32 - (&ee % &n) * 2u32) % &n), ("2^256-n", ((BigUint::one() << 256usize) - &n) % &n)] {
                let r2 = (&r + &delta) % &n;
                if !r2.is_zero() && r2 != r {
                    cases.push(mk(sig_bytes(&r2, &s), &msg, &format!("e>=n/r-shifted-by-{}", dn2)));
                }
            }
            let mut m2 = msg.clone();
            m2[0] ^= 1;
            cases.push(mk(sig_bytes(&r, &s), &m2, "msg-bitflip"));
        }
        ctx.cov("messages_with_digest_e_ge_n", serde_json::json!(ok));
        if ok == 0 {
            ctx.machinery_error("corpus/sm2_big_e.json missing or not reproduced by the reference");
        }
    }
    // signatures of a particular shape (r||s starting like a DER SEQUENCE; r + s with 16 clear low bits): valid ones are accepted,
    // their neighbours refused. And the valid (r, s) of the first base signature in other encodings - DER SEQUENCE { r, s }
    // (70..72 bytes), lower- and upper-case hex text (128 bytes), r||s||r||s - none of which is "exactly 64 bytes"
    {
        let (d, k) = (hb(crate::alpha::ANNEX_D), hb(crate::alpha::ANNEX_K));
        let pk = sm2::g_mul(&d);
        let pkh = hex::encode(sm2::encode_point(&pk, false));
        let mk = |sig: String, m: &[u8], label: &str| Case { pk: pkh.clone(), id: None, msg: hex::encode(m), sig, label: label.to_string(), lambda: None, inf: None, raw: None };
        let mut shapes = crate::c03::signature_shapes();
        shapes.push(("ordinary".into(), "message digest".into()));
        for (kind, msg) in &shapes {
            let e = sm2::digest_e(sm2::DEFAULT_ID, &pk, msg.as_bytes());
            let Some((r, s)) = sm2::sign_with_k(&d, &e, &k) else { continue };
            cases.push(mk(sig_bytes(&r, &s), msg.as_bytes(), "valid"));
            let mut f = hex::decode(sig_bytes(&r, &s)).unwrap();
            f[63] ^= 1;
            cases.push(mk(hex::encode(&f), msg.as_bytes(), &format!("signature-shape/{}/bitflip-s", kind)));
            let mut m2 = msg.as_bytes().to_vec();
            m2[0] ^= 1;
            cases.push(mk(sig_bytes(&r, &s), &m2, &format!("signature-shape/{}/msg-bitflip", kind)));
            let der = refmodels::der::sequence(&[refmodels::der::integer(&r), refmodels::der::integer(&s)]);
            cases.push(mk(hex::encode(&der), msg.as_bytes(), "other-encoding/DER-SEQUENCE{r,s}"));
            let raw = hex::decode(sig_bytes(&r, &s)).unwrap();
            cases.push(mk(hex::encode(sig_bytes(&r, &s).as_bytes()), msg.as_bytes(), "other-encoding/hex-text"));
            cases.push(mk(hex::encode(sig_bytes(&r, &s).to_uppercase().as_bytes()), msg.as_bytes(), "other-encoding/hex-text"));
            cases.push(mk(hex::encode([raw.clone(), raw.clone()].concat()), msg.as_bytes(), "other-encoding/r||s-twice"));
            cases.push(mk(hex::encode([vec![0u8], raw.clone()].concat()), msg.as_bytes(), "other-encoding/leading-00"));
            cases.push(mk(hex::encode([vec![0x04u8], raw.clone()].concat()), msg.as_bytes(), "other-encoding/leading-04"));
        }
    }
    // call sequences over related inputs on one thread: two keys x two IDs, valid and altered, in every order
    {
        let mut items: Vec<Case> = Vec::new();
        let msg = b"sequence message".to_vec();
        for (d, id) in [(&ds[0].1, Some("alice@example.com".to_string())), (&ds[3].1, Some("alice@example.com".to_string())), (&ds[0].1, Some("carol@example.com".to_string())), (&ds[3].1, None)] {
            let pk = sm2::g_mul(d);
            let idb = id.as_ref().map(|s| s.as_bytes().to_vec()).unwrap_or_else(|| sm2::DEFAULT_ID.to_vec());
            let e = sm2::digest_e(&idb, &pk, &msg);
            let (r, s) = sm2::sign_with_k(d, &e, &ks[5].1).expect("sequence signature");
            items.push(Case { pk: hex::encode(sm2::encode_point(&pk, false)), id: id.clone(), msg: hex::encode(&msg), sig: sig_bytes(&r, &s), label: "valid".into(), lambda: None, inf: None, raw: None });
        }
        // the signature of item 0 presented under the ID of item 2 (same key) and under the key of item 1 (same ID)
        let mut cross1 = items[0].clone();
        cross1.id = items[2].id.clone();
        cross1.label = "id-changed".into();
        let mut cross2 = items[0].clone();
        cross2.pk = items[1].pk.clone();
        cross2.label = "other-key".into();
        let mut seqs: Vec<Vec<Case>> = permutations(&items);
        for p in permutations(&[items[0].clone(), cross1.clone(), items[2].clone(), cross2.clone()]) {
            seqs.push(p);
        }
        ctx.cov("related_input_sequences", serde_json::json!(seqs.len()));
        run_sequences(ctx, &seqs, eval);
    }
    // a key object holding the point at infinity: with [t]P = O the verification point is [s]G alone, so anybody can compute
    // r = e + x([s]G) for the Z_A a verifier would derive from whatever coordinates it reads off that object
    {
        let msg = b"message under no key".to_vec();
        let idb = sm2::DEFAULT_ID.to_vec();
        let mut count = 0;
        for t in [BigUint::one(), BigUint::from(2u32), g.nonzero_below(&p)] {
            let (tx, ty) = ((&t * &t) % &p, (&t * &t * &t) % &p);
            for (zn, zx, zy) in [("(0,0)", BigUint::zero(), BigUint::zero()), ("(X,Y)", tx.clone(), ty.clone()), ("(1,1)", BigUint::one(), BigUint::one())] {
                let za = sm2::za(&idb, &Some((zx, zy)));
                let e = refmodels::util::from_be(&refmodels::sm3::sm3_cat(&[&za, &msg])) ;
                for sv in [BigUint::one(), BigUint::from(2u32), g.nonzero_below(&n)] {
                    let x1 = sm2::g_mul(&sv).unwrap().0;
                    let r = (&e + &x1) % &n;
                    if r.is_zero() || ((&r + &sv) % &n).is_zero() {
                        continue;
                    }
                    cases.push(Case { pk: String::new(), id: None, msg: hex::encode(&msg), sig: sig_bytes(&r, &sv), label: format!("key-object-at-infinity/forged-for-ZA-over-{}", zn), lambda: None, inf: Some(hexbig(&t)), raw: None });
                    count += 1;
                }
            }
        }
        ctx.cov("forgeries_under_a_key_object_at_infinity", serde_json::json!(count));
    }
    // key objects whose point is not on the curve (affine and Jacobian): (1, 0) and (2, 0) double to O under the curve's
    // formulas, so [t]P is O for even t and a forger needs no key; (x_G, y_G + 1) and (0, 0) for the same treatment
    {
        let msg = b"message under no key".to_vec();
        let idb = sm2::DEFAULT_ID.to_vec();
        let (gx, gy) = sm2::params().g.clone().unwrap();
        let mut count = 0;
        for (x, y) in [(BigUint::one(), BigUint::zero()), (BigUint::from(2u32), BigUint::zero()), (gx.clone(), (&gy + 1u32) % &p), (BigUint::zero(), BigUint::zero())] {
            if sm2::on_curve(&Some((x.clone(), y.clone()))) {
                continue;
            }
            for z in [BigUint::one(), BigUint::from(2u32), g.nonzero_below(&p)] {
                let za = sm2::za(&idb, &Some((x.clone(), y.clone())));
                let e = refmodels::util::from_be(&refmodels::sm3::sm3_cat(&[&za, &msg]));
                for sv in 1u32..=8 {
                    let sv = BigUint::from(sv);
                    let x1 = sm2::g_mul(&sv).unwrap().0;
                    let r = (&e + &x1) % &n;
                    if r.is_zero() || ((&r + &sv) % &n).is_zero() {
                        continue;
                    }
                    cases.push(Case { pk: String::new(), id: None, msg: hex::encode(&msg), sig: sig_bytes(&r, &sv), label: format!("key-object-off-the-curve/{}/forged-for-[s]G", if z.is_one() { "affine" } else { "jacobian" }), lambda: None, inf: None, raw: Some([hexbig(&x), hexbig(&y), hexbig(&z)]) });
                    count += 1;
                }
            }
        }
        ctx.cov("forgeries_under_a_key_object_off_the_curve", serde_json::json!(count));
    }
    ctx.note_bound(format!("{} base signatures, {} cases", nbase, cases.len()));
    ctx.sample(serde_json::to_value(&cases[1]).unwrap());
    ctx.sample(serde_json::to_value(&cases[cases.len() - 1]).unwrap());
    run_cases(ctx, &cases, 16, eval);
    let _ = hb;
    crate::cold::check(ctx, "C04");
}

/// one-off build-time tool: search messages whose signature under (Annex d, Annex k) has r < 2^224 or
/// s < 2^224, so that r+n / s+n still fit in 32 bytes (the only unreduced aliases of a valid component).
/// Every hit is re-validated by the reference verifier on every run.
pub fn search_small_components() {
    use rayon::prelude::*;
    use std::sync::atomic::{AtomicBool, AtomicU64, Ordering};
    let pr = sm2::params();
    let n = pr.n.clone();
    let d = hb(crate::alpha::ANNEX_D);
    let k = hb(crate::alpha::ANNEX_K);
    let pk = sm2::g_mul(&d);
    let za = sm2::za(sm2::DEFAULT_ID, &pk);
    let x1 = sm2::g_mul(&k).unwrap().0;
    let inv1d = (BigUint::one() + &d).modpow(&(&n - 2u32), &n);
    // s = inv1d * (k - r d) ; r = e + x1
    let bound: BigUint = BigUint::one() << 224usize;
    let found_r = AtomicU64::new(0);
    let found_s = AtomicU64::new(0);
    let stop = AtomicBool::new(false);
    let out = std::sync::Mutex::new(Vec::<Value>::new());
    let chunk: u64 = 1 << 22;
    (0..(1u64 << 12)).into_par_iter().for_each(|c| {
        if stop.load(Ordering::Relaxed) {
            return;
        }
        let mut base = refmodels::sm3::Sm3::new();
        base.update(&za);
        for i in 0..chunk {
            let ctr = c * chunk + i;
            let msg = format!("order #{}", ctr);
            let mut h = base.clone();
            h.update(msg.as_bytes());
            let e = refmodels::util::from_be(&h.finish());
            let r = (&e + &x1) % &n;
            let small_r = r < bound;
            let mut small_s = false;
            // cheap pre-filter is not possible for s: one modular product per trial
            let s = (&inv1d * ((&k + &n * &n - (&r * &d)) % &n)) % &n;
            if s < bound {
                small_s = true;
            }
            if (small_r || small_s) && !r.is_zero() && !s.is_zero() && (&r + &k) != n {
                let kind = if small_r { "small-r" } else { "small-s" };
                let cnt = if small_r { found_r.fetch_add(1, Ordering::Relaxed) } else { found_s.fetch_add(1, Ordering::Relaxed) };
                if cnt < 2 {
                    out.lock().unwrap().push(serde_json::json!({"kind": kind, "pub": hex::encode(sm2::encode_point(&pk, false)), "msg": hex::encode(msg.as_bytes()), "r": hexbig(&r), "s": hexbig(&s)}));
                    eprintln!("found {} at {}", kind, ctr);
                    let _ = std::fs::write(format!("{}/corpus/sm2_small_rs.json", VERIF_ROOT), serde_json::to_string_pretty(&*out.lock().unwrap()).unwrap());
                }
                if found_r.load(Ordering::Relaxed) >= 1 && found_s.load(Ordering::Relaxed) >= 1 {
                    stop.store(true, Ordering::Relaxed);
                    return;
                }
            }
        }
    });
}

/// `gmverif tool search-e`: messages whose digest e = SM3(ZA || M) is >= n (first 32 bits all ones), for the Annex key
/// under the default ID and for a second key under another ID. Writes corpus/sm2_big_e.json (re-validated on use).
pub fn search_big_e() {
    use rayon::prelude::*;
    use std::sync::atomic::{AtomicU64, Ordering};
    let pr = sm2::params();
    let n = pr.n.clone();
    let out = std::sync::Mutex::new(Vec::<Value>::new());
    for (dhex, id) in [(crate::alpha::ANNEX_D, None::<&str>), ("785129917D45A9EA5437A59356B82338EAADDA6CEB199088F14AE10DEFA229B5", Some("bob456@qq.com"))] {
        let d = hb(dhex);
        let pk = sm2::g_mul(&d);
        let idb = id.map(|s| s.as_bytes().to_vec()).unwrap_or_else(|| sm2::DEFAULT_ID.to_vec());
        let za = sm2::za(&idb, &pk);
        let found = AtomicU64::new(0);
        let chunk: u64 = 1 << 22;
        (0..(1u64 << 12)).into_par_iter().for_each(|c| {
            if found.load(Ordering::Relaxed) >= 2 {
                return;
            }
            let mut base = refmodels::sm3::Sm3::new();
            base.update(&za);
            for i in 0..chunk {
                let ctr = c * chunk + i;
                let msg = format!("invoice #{}", ctr);
                let mut h = base.clone();
                h.update(msg.as_bytes());
                let dg = h.finish();
                if dg[0] == 0xff && dg[1] == 0xff && dg[2] == 0xff && dg[3] == 0xff {
                    let e = refmodels::util::from_be(&dg);
                    if e >= n && found.fetch_add(1, Ordering::Relaxed) < 2 {
                        eprintln!("found e >= n at {} for id {:?}", ctr, id);
                        out.lock().unwrap().push(serde_json::json!({"d": dhex, "id": id, "msg": hex::encode(msg.as_bytes()), "e": hex::encode(dg)}));
                        let _ = std::fs::write(format!("{}/corpus/sm2_big_e.json", VERIF_ROOT), serde_json::to_string_pretty(&*out.lock().unwrap()).unwrap());
                    }
                }
            }
        });
    }
    eprintln!("done: {} entries", out.lock().unwrap().len());
}
