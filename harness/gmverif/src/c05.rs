//! C05 — SM2 public-key encryption round-trips and conforms to GB/T 32918.4 (E2 with the RNG seam)
use crate::alpha::*;
use crate::c03::gdbg;
use crate::engine::*;
use crate::sm2api::*;
use gm_sm2::key::Sm2Model;
use num_bigint::BigUint;
use rayon::prelude::*;
use refmodels::util::{from_limbs, hexbig as hb, SplitMix};
use refmodels::{der, sm2, sm3};
use serde::{Deserialize, Serialize};
use serde_json::{json, Value};
use std::sync::Arc;

#[derive(Serialize, Deserialize, Clone, Debug)]
pub enum Case {
    Enc { d: String, k: String, msg_len: usize, msg_class: String, c1c3c2: bool, compressed: bool, tag: String },
    /// library encrypts with its real RNG; the reference decryptor must recover M
    RealRng { d: String, msg_len: usize, c1c3c2: bool, compressed: bool },
    Kdf { klen: usize, z_class: String },
    OpenSsl { idx: usize },
}

pub fn model(c1c3c2: bool) -> Sm2Model {
    if c1c3c2 {
        Sm2Model::C1C3C2
    } else {
        Sm2Model::C1C2C3
    }
}

fn cfg(c1c3c2: bool, compressed: bool) -> String {
    format!("{}/{}", if c1c3c2 { "C1C3C2" } else { "C1C2C3" }, if compressed { "compressed" } else { "uncompressed" })
}

fn len_class(l: usize) -> &'static str {
    if l % 32 == 0 {
        "klen%32=0"
    } else if l < 32 {
        "klen<32"
    } else {
        "klen%32!=0"
    }
}

pub fn eval(ctx: &Ctx, case: &Case) {
    ctx.state();
    let cj = || serde_json::to_value(case).unwrap();
    let n = &sm2::params().n;
    match case {
        Case::Enc { d, k, msg_len, msg_class, c1c3c2, compressed, tag } => {
            let (d, k) = (hb(d), hb(k));
            let msg = content(msg_class, *msg_len, ctx.seed);
            let pk_ref = sm2::g_mul(&d);
            // tag "key-object-Z=<hex>": both key objects hold the public point in that Jacobian representation
            let (pk, sk) = match tag.strip_prefix("key-object-Z=") {
                Some(l) => {
                    let pk = gm_sm2::key::Sm2PublicKey { point: lib_point(&pk_ref, &hb(l)) };
                    (pk.clone(), private_key_with(&d, pk))
                }
                None => (public_key(&pk_ref), private_key(&d)),
            };
            let mut g = SplitMix::new(ctx.seed, "c05fallback");
            let mut queue = vec![cand(&k)];
            for _ in 0..6 {
                queue.push(cand(&g.nonzero_below(&(n - 2u32))));
            }
            let (r, log) = with_rng(queue, || pk.encrypt(&msg, *compressed, model(*c1c3c2)));
            ctx.call();
            let site = "Sm2PublicKey::encrypt";
            let cls = format!("{}/{}/{}", cfg(*c1c3c2, *compressed), len_class(*msg_len), tag);
            let ct = match r {
                Guard::Done(Ok(ct)) => ct,
                other => {
                    ctx.violation(site, &format!("not-ok/{}", cls), format!("d={} k={} mlen={} -> {}", hexbig(&d), hexbig(&k), msg_len, gdbg(&other)), cj());
                    return;
                }
            };
            let Some(k_used) = log.accepted.last().map(from_limbs) else {
                ctx.violation(site, &format!("no-nonce-drawn/{}", cls), "encryption did not draw a nonce".to_string(), cj());
                return;
            };
            ctx.trace();
            // the conforming ciphertext for the offered nonce itself must decrypt, whatever the library's encryptor did with it
            if tag.starts_with("nonce-with-zero-last") {
                if let Some(rc) = sm2::encrypt_with_k(&pk_ref, &msg, &k) {
                    let rb = rc.encode(*c1c3c2, *compressed);
                    ctx.call();
                    match guard(|| sk.decrypt(&rb, *compressed, model(*c1c3c2))) {
                        Guard::Done(Ok(m)) if m == msg => {}
                        other => ctx.violation("Sm2PrivateKey::decrypt", &format!("reference-ciphertext/{}", cls), format!("d={} k={} mlen={} -> {}", hexbig(&d), hexbig(&k), msg_len, gdbg(&other)), cj()),
                    }
                }
            }
            // a nonce the standard accepts (its key stream is not all zero) must be the one that is used
            // (judged only when the sampler itself accepted k: it may refuse order-1, see C14)
            if k_used != k && log.accepted.first().map(from_limbs) == Some(k.clone()) && sm2::encrypt_with_k(&pk_ref, &msg, &k).is_some() {
                ctx.violation(site, &format!("valid-nonce-discarded/{}", cls), format!("d={} offered k={} used k={} mlen={}", hexbig(&d), hexbig(&k), hexbig(&k_used), msg_len), cj());
                return;
            }
            match sm2::encrypt_with_k(&pk_ref, &msg, &k_used) {
                Some(want) => {
                    let wb = want.encode(*c1c3c2, *compressed);
                    if wb != ct {
                        let part = if ct.len() != wb.len() {
                            "length"
                        } else {
                            let c1len = if *compressed { 33 } else { 65 };
                            if ct[..c1len] != wb[..c1len] {
                                "C1"
                            } else {
                                "C2/C3"
                            }
                        };
                        ctx.violation(site, &format!("ciphertext-mismatch/{}/{}", part, cls), format!("d={} k={} mlen={} got={} want={}", hexbig(&d), hexbig(&k_used), msg_len, truncate(&hex::encode(&ct), 200), truncate(&hex::encode(&wb), 200)), cj());
                        return;
                    }
                }
                None => {
                    ctx.violation(site, &format!("all-zero-kdf-nonce-used/{}", cls), format!("k={}", hexbig(&k_used)), cj());
                    return;
                }
            }
            // independent decryptor recovers M
            if sm2::decrypt(&d, &ct, *c1c3c2, *compressed).as_deref() != Some(&msg[..]) {
                ctx.violation(site, &format!("reference-decryptor-fails/{}", cls), format!("d={} mlen={}", hexbig(&d), msg_len), cj());
                return;
            }
            // library round trip
            ctx.call();
            match guard(|| sk.decrypt(&ct, *compressed, model(*c1c3c2))) {
                Guard::Done(Ok(m)) if m == msg => {}
                other => {
                    ctx.violation("Sm2PrivateKey::decrypt", &format!("roundtrip/{}", cls), format!("d={} k={} mlen={} -> {}", hexbig(&d), hexbig(&k_used), msg_len, gdbg(&other)), cj());
                    return;
                }
            }
            // library decrypts a ciphertext from the independent encryptor (different nonce)
            let mut g2 = SplitMix::new(ctx.seed ^ *msg_len as u64, "c05refnonce");
            let rct = loop {
                let k2 = g2.nonzero_below(n);
                if let Some(c) = sm2::encrypt_with_k(&pk_ref, &msg, &k2) {
                    break c;
                }
            };
            let rb = rct.encode(*c1c3c2, *compressed);
            ctx.call();
            match guard(|| sk.decrypt(&rb, *compressed, model(*c1c3c2))) {
                Guard::Done(Ok(m)) if m == msg => ctx.outcome(&format!("ok/{}/{}", cfg(*c1c3c2, *compressed), len_class(*msg_len))),
                other => ctx.violation("Sm2PrivateKey::decrypt", &format!("reference-ciphertext/{}", cls), format!("d={} mlen={} ct={} -> {}", hexbig(&d), msg_len, truncate(&hex::encode(&rb), 200), gdbg(&other)), cj()),
            }
        }
        Case::RealRng { d, msg_len, c1c3c2, compressed } => {
            let d = hb(d);
            let msg = content("seed", *msg_len, ctx.seed);
            let pk = public_key(&sm2::g_mul(&d));
            ctx.call();
            match guard(|| pk.encrypt(&msg, *compressed, model(*c1c3c2))) {
                Guard::Done(Ok(ct)) => {
                    ctx.trace();
                    if sm2::decrypt(&d, &ct, *c1c3c2, *compressed).as_deref() != Some(&msg[..]) {
                        ctx.violation("Sm2PublicKey::encrypt", &format!("reference-decryptor-fails/real-rng/{}", cfg(*c1c3c2, *compressed)), format!("d={} mlen={} ct={}", hexbig(&d), msg_len, truncate(&hex::encode(&ct), 200)), cj());
                    } else {
                        ctx.outcome("ok/real-rng");
                    }
                }
                other => ctx.violation("Sm2PublicKey::encrypt", "not-ok/real-rng", gdbg(&other), cj()),
            }
        }
        Case::Kdf { klen, z_class } => {
            let z = content(z_class, 64, ctx.seed);
            ctx.call();
            let want = sm3::kdf(&z, *klen);
            ctx.trace();
            match guard(|| gm_sm2::util::kdf(&z, *klen)) {
                Guard::Done(v) if v == want => ctx.outcome(&format!("ok/kdf/{}", len_class(*klen))),
                Guard::Done(v) => ctx.violation("gm_sm2::util::kdf", &format!("kdf-mismatch/{}", len_class(*klen)), format!("klen={} got_len={} want_len={}", klen, v.len(), want.len()), cj()),
                Guard::Panic(p) => ctx.violation("gm_sm2::util::kdf", &format!("panic/{}", panic_site(&p)), format!("klen={} {}", klen, p), cj()),
            }
        }
        Case::OpenSsl { idx } => {
            let e = &openssl_cts()[*idx];
            let d = hb(e["d"].as_str().unwrap());
            let msg = hex::decode(e["msg"].as_str().unwrap()).unwrap();
            let doc = hex::decode(e["der"].as_str().unwrap()).unwrap();
            let Some((x, y, hash, ct)) = der::sm2_cipher_decode(&doc) else {
                ctx.machinery_error(format!("reference DER reader rejects OpenSSL ciphertext {}", idx));
                return;
            };
            let mut raw = vec![0x04];
            raw.extend_from_slice(&cand(&x));
            raw.extend_from_slice(&cand(&y));
            raw.extend_from_slice(&hash);
            raw.extend_from_slice(&ct);
            if sm2::decrypt(&d, &raw, true, false).as_deref() != Some(&msg[..]) {
                ctx.machinery_error(format!("reference decryptor fails on OpenSSL ciphertext {}", idx));
                return;
            }
            ctx.trace();
            ctx.call();
            let sk = private_key(&d);
            match guard(|| sk.decrypt(&raw, false, Sm2Model::C1C3C2)) {
                Guard::Done(Ok(m)) if m == msg => ctx.outcome("ok/openssl-ciphertext"),
                other => ctx.violation("Sm2PrivateKey::decrypt", "openssl-ciphertext", format!("idx={} -> {}", idx, gdbg(&other)), cj()),
            }
        }
    }
}

pub fn openssl_cts() -> &'static Vec<Value> {
    static C: std::sync::OnceLock<Vec<Value>> = std::sync::OnceLock::new();
    C.get_or_init(|| {
        let s = std::fs::read_to_string(format!("{}/corpus/sm2_cts.json", VERIF_ROOT)).unwrap_or_else(|_| "[]".into());
        serde_json::from_str::<Value>(&s).unwrap().as_array().unwrap().clone()
    })
}

pub fn replay(ctx: &Arc<Ctx>, v: &Value) {
    if crate::cold::replay(ctx, v) {
        return;
    }
    let c: Case = serde_json::from_value(v.clone()).expect("C05 case");
    eval(ctx, &c);
}

pub fn run(ctx: &Arc<Ctx>) {
    refmodels::selftest::run(&["sm3", "sm2"]).unwrap_or_else(|e| ctx.machinery_error(format!("reference self-test failed: {}", e)));
    let n = sm2::params().n.clone();
    ctx.set_rule("every message length 1..=300 (thorough 1..=1200) x {C1C2C3,C1C3C2} x {compressed,uncompressed} x content {zero, seeded} with fixed (d,k); keys {Annex d, n-2, seeded} x nonce alphabet at lengths {1,32,33}; crafted nonces whose key stream is all zero (1-byte message: must be skipped) or zero only in its last partial KDF block (33 / 65 bytes: must be used); longer messages; KDF for every klen 1..=300 and {1024,4096,65537, 2^24+1, 2^25+2} x 2 Z values; library-with-real-RNG ciphertexts decrypted by the reference; OpenSSL DER ciphertext corpus. Per case: ciphertext = reference ciphertext byte for byte for the accepted nonce, reference decryptor recovers M, library round trip, library decrypts a reference-made ciphertext.");
    let ks = scalar_alphabet(&n, ctx.seed, "c05k", 1);
    let ds: Vec<(String, BigUint)> = vec![("annex".into(), hb(ANNEX_D)), ("n-2".into(), &n - 2u32), ("seed".into(), SplitMix::new(ctx.seed, "c05d").nonzero_below(&(&n - 1u32)))];
    let lmax = 300usize;
    let mut cases = Vec::new();
    cases.push(Case::Enc { d: ANNEX_D.into(), k: ANNEX_K.into(), msg_len: 19, msg_class: "annex-enc".into(), c1c3c2: false, compressed: false, tag: "annex".into() });
    let nkeys = ctx.tier.pick(1usize, 3);
    let mlen_max = ctx.tier.pick(300usize, 1200);
    for (dn, d) in ds.iter().take(nkeys) {
        for l in 1..=mlen_max {
            for c1c3c2 in [false, true] {
                for compressed in [false, true] {
                    for mc in ["zero", "seed"] {
                        if mc == "zero" && l % 7 != 1 && l != 32 && l != 64 {
                            continue;
                        }
                        // alternate nonces so that compressed C1 sees both y parities
                        let (kn, k) = &ks[l % ks.len()];
                        cases.push(Case::Enc { d: hexbig(d), k: hexbig(k), msg_len: l, msg_class: mc.into(), c1c3c2, compressed, tag: format!("d={}/k={}", dn, kn) });
                    }
                }
            }
        }
    }
    let nonce_lens: Vec<usize> = ctx.tier.pick(vec![1, 32, 33], vec![1, 31, 32, 33, 64, 65]);
    for (dn, d) in &ds {
        for (kn, k) in &ks {
            for l in &nonce_lens {
                cases.push(Case::Enc { d: hexbig(d), k: hexbig(k), msg_len: *l, msg_class: "seed".into(), c1c3c2: l % 2 == 0, compressed: l % 3 == 0, tag: format!("d={}/k={}", dn, kn) });
            }
        }
    }
    // crafted nonces whose KDF output for a 1-byte (thorough: also 2-byte) message is all zero: step A5 must pick another k
    {
        let d = hb(ANNEX_D);
        let pk = sm2::g_mul(&d);
        for klen in ctx.tier.pick(vec![1usize], vec![1, 2]) {
            let mut k = SplitMix::new(ctx.seed, "c05zerot").nonzero_below(&(&n - (BigUint::from(1u32) << 40)));
            let mut s = sm2::mul(&k, &pk);
            let mut found = 0;
            let mut tries = 0u64;
            while found < 2 && tries < (1 << 22) {
                let (x2, y2) = sm2::xy_bytes(&s);
                if sm3::kdf(&[&x2[..], &y2[..]].concat(), klen).iter().all(|b| *b == 0) {
                    for (c1c3c2, compressed) in [(false, false), (true, true)] {
                        cases.push(Case::Enc { d: ANNEX_D.into(), k: hexbig(&k), msg_len: klen, msg_class: "seed".into(), c1c3c2, compressed, tag: "nonce-with-all-zero-kdf".into() });
                    }
                    found += 1;
                }
                s = sm2::add(&s, &pk);
                k += 1u32;
                tries += 1;
            }
            ctx.cov(&format!("crafted_all_zero_kdf_nonces_klen{}", klen), json!(found));
            if found == 0 {
                ctx.machinery_error("no nonce with all-zero KDF output found");
            }
        }
    }
    // crafted nonces whose key stream is zero only in its LAST (partial) KDF block: |M| = 33 / 65 (thorough 34) with
    // t[32..] = 0 / t[64..] = 0. The key stream as a whole is not zero: the nonce must be used, and the ciphertext decrypts
    {
        let d = hb(ANNEX_D);
        let pk = sm2::g_mul(&d);
        for mlen in ctx.tier.pick(vec![33usize, 65], vec![33, 65, 34]) {
            let mut k = SplitMix::new(ctx.seed ^ mlen as u64, "c05lastblock").nonzero_below(&(&n - (BigUint::from(1u32) << 40)));
            let mut s = sm2::mul(&k, &pk);
            let mut found = 0;
            let mut tries = 0u64;
            let from = (mlen - 1) / 32 * 32;
            while found < 2 && tries < (1 << 22) {
                let (x2, y2) = sm2::xy_bytes(&s);
                let t = sm3::kdf(&[&x2[..], &y2[..]].concat(), mlen);
                if t[from..].iter().all(|b| *b == 0) && !t.iter().all(|b| *b == 0) {
                    for (c1c3c2, compressed) in [(false, false), (true, true)] {
                        cases.push(Case::Enc { d: ANNEX_D.into(), k: hexbig(&k), msg_len: mlen, msg_class: "seed".into(), c1c3c2, compressed, tag: "nonce-with-zero-last-kdf-block".into() });
                    }
                    found += 1;
                }
                s = sm2::add(&s, &pk);
                k += 1u32;
                tries += 1;
            }
            ctx.cov(&format!("crafted_zero_last_block_nonces_mlen{}", mlen), json!(found));
            if found == 0 {
                ctx.machinery_error("no nonce with a zero last KDF block found");
            }
        }
    }
    for l in ctx.tier.pick(vec![1000usize, 4096], vec![1000, 4096, 65535, 65536]) {
        cases.push(Case::Enc { d: ANNEX_D.into(), k: ANNEX_K.into(), msg_len: l, msg_class: "seed".into(), c1c3c2: true, compressed: false, tag: "long".into() });
    }
    for l in [1usize, 31, 32, 33, 100] {
        for c1c3c2 in [false, true] {
            for compressed in [false, true] {
                cases.push(Case::RealRng { d: hexbig(&ds[2].1), msg_len: l, c1c3c2, compressed });
            }
        }
    }
    for klen in (1..=lmax).chain([1024usize, 4096, 65537, (1 << 24) + 1, (1 << 25) + 2]) {
        for z in ["zero", "seed"] {
            cases.push(Case::Kdf { klen, z_class: z.into() });
        }
    }
    for idx in 0..openssl_cts().len() {
        cases.push(Case::OpenSsl { idx });
    }
    if openssl_cts().is_empty() {
        ctx.machinery_error("corpus/sm2_cts.json missing or empty");
    }
    ctx.cov("openssl_ciphertexts", json!(openssl_cts().len()));
    ctx.sample(serde_json::to_value(&cases[0]).unwrap());
    ctx.sample(serde_json::to_value(&cases[100]).unwrap());
    {
        let p = &sm2::params().p;
        let mut g = SplitMix::new(ctx.seed, "c05lambda");
        for lam in [BigUint::from(2u32), p - 1u32, g.nonzero_below(p)] {
            for (c1c3c2, compressed) in [(false, false), (true, true)] {
                cases.push(Case::Enc { d: ANNEX_D.into(), k: ANNEX_K.into(), msg_len: 33, msg_class: "seed".into(), c1c3c2, compressed, tag: format!("key-object-Z={}", hexbig(&lam)) });
            }
        }
    }
    run_cases(ctx, &cases, 8, eval);
    crate::cold::check(ctx, "C05");
}
