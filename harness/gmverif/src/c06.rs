//! C06 — SM2 decryption rejects every tampered or invalid-curve ciphertext (fault enumeration)
use crate::alpha::*;
use crate::c03::gdbg;
use crate::c05::model;
use crate::engine::*;
use crate::sm2api::*;
use num_bigint::BigUint;
use num_traits::{One, Zero};
use rayon::prelude::*;
use refmodels::sm2::{self, Pt};
use refmodels::sm3;
use refmodels::util::{hexbig as hb, SplitMix};
use serde::{Deserialize, Serialize};
use serde_json::Value;
use std::sync::Arc;

#[derive(Serialize, Deserialize, Clone, Debug)]
pub struct Case {
    pub d: String,
    pub ct: String,
    pub c1c3c2: bool,
    pub compressed: bool,
    /// expected plaintext when the ciphertext is untouched, None when it must be rejected
    pub expect: Option<String>,
    pub label: String,
    /// `ct` is a GM/T 0009 SEQUENCE and goes through `decrypt_asn1` (with the `compressed` flag as given)
    #[serde(default)]
    pub asn1: bool,
}

/// strict reference for the ASN.1 form: parse with the independent DER reader, coordinates below p, then decrypt
fn ref_decrypt_asn1(d: &BigUint, doc: &[u8]) -> Option<Vec<u8>> {
    let (x, y, hash, body) = refmodels::der::sm2_cipher_decode(doc)?;
    let p = &sm2::params().p;
    if x >= *p || y >= *p || hash.len() != 32 {
        return None;
    }
    let mut raw = vec![0x04u8];
    raw.extend_from_slice(&cand(&x));
    raw.extend_from_slice(&cand(&y));
    raw.extend_from_slice(&hash);
    raw.extend_from_slice(&body);
    sm2::decrypt(d, &raw, true, false)
}

pub fn eval(ctx: &Ctx, c: &Case) {
    ctx.state();
    let cj = || serde_json::to_value(c).unwrap();
    let d = hb(&c.d);
    let ct = hex::decode(&c.ct).unwrap();
    let sk = private_key(&d);
    ctx.call();
    let r = if c.asn1 { guard(|| sk.decrypt_asn1(&ct, c.compressed, model(c.c1c3c2))) } else { guard(|| sk.decrypt(&ct, c.compressed, model(c.c1c3c2))) };
    let site = if c.asn1 { "Sm2PrivateKey::decrypt_asn1" } else { "Sm2PrivateKey::decrypt" };
    let cfg = format!("{}/{}", if c.c1c3c2 { "C1C3C2" } else { "C1C2C3" }, if c.compressed { "compressed" } else { "uncompressed" });
    // the strict reference decryptor must agree with the expectation (guards the oracle)
    let refd = if c.asn1 { ref_decrypt_asn1(&d, &ct) } else { sm2::decrypt(&d, &ct, c.c1c3c2, c.compressed) };
    ctx.trace();
    if refd.as_ref().map(hex::encode) != c.expect {
        ctx.machinery_error(format!("reference decryptor disagrees with case expectation for label {}", c.label));
        return;
    }
    match (&c.expect, r) {
        (Some(m), Guard::Done(Ok(got))) if hex::encode(&got) == *m => ctx.outcome("ok/untouched"),
        (Some(_), other) => ctx.violation(site, &format!("valid-ciphertext-not-decrypted/{}", cfg), gdbg(&other), cj()),
        (None, Guard::Done(Err(_))) => ctx.outcome(&format!("rejected/{}", c.label)),
        (None, Guard::Done(Ok(m))) => ctx.violation(site, &format!("accepted-tampered/{}/{}", c.label, cfg), format!("returned {} bytes: {}", m.len(), truncate(&hex::encode(&m), 80)), cj()),
        (None, Guard::Panic(p)) => ctx.violation(site, &format!("panic/{}/{}/{}", panic_site(&p), c.label, cfg), format!("ctlen={} {}", ct.len(), p), cj()),
    }
}

pub fn replay(ctx: &Arc<Ctx>, v: &Value) {
    if crate::cold::replay(ctx, v) {
        return;
    }
    let c: Case = serde_json::from_value(v.clone()).expect("C06 case");
    eval(ctx, &c);
}

/// complete a ciphertext for an arbitrary C1 (possibly on another curve) with the b-independent
/// reference arithmetic, exactly as an invalid-curve attacker who knows d would
pub fn complete(d: &BigUint, c1: &Pt, msg: &[u8]) -> Option<(Vec<u8>, [u8; 32])> {
    let s = sm2::mul(d, c1);
    s.as_ref()?;
    let (x2, y2) = sm2::xy_bytes(&s);
    let t = sm3::kdf(&[&x2[..], &y2[..]].concat(), msg.len());
    let c2: Vec<u8> = msg.iter().zip(t.iter()).map(|(a, b)| a ^ b).collect();
    let c3 = sm3::sm3_cat(&[&x2, msg, &y2]);
    Some((c2, c3))
}

/// the same completion with the shared point computed by the library's own arithmetic on the raw coordinates (what an
/// attacker who studied this very build would send: a defect in the field layer changes [d]C1 for some operands, and a
/// body completed by the reference then no longer matches what the decryptor computes)
fn complete_with_library_arithmetic(d: &BigUint, c1: &Pt, msg: &[u8]) -> Option<(Vec<u8>, [u8; 32])> {
    let (x, y) = c1.clone()?;
    let Guard::Done(s) = guard(|| lib_point_raw(&x, &y).scalar_mul(&scalar(d)).to_affine_point()) else { return None };
    if from_mont(&s.z).is_zero() {
        return None;
    }
    let (x2, y2) = (cand(&from_mont(&s.x)), cand(&from_mont(&s.y)));
    let t = sm3::kdf(&[&x2[..], &y2[..]].concat(), msg.len());
    let c2: Vec<u8> = msg.iter().zip(t.iter()).map(|(a, b)| a ^ b).collect();
    let c3 = sm3::sm3_cat(&[&x2, msg, &y2]);
    Some((c2, c3))
}

fn raw_encode(c1_bytes: &[u8], c2: &[u8], c3: &[u8], c1c3c2: bool) -> Vec<u8> {
    let mut v = c1_bytes.to_vec();
    if c1c3c2 {
        v.extend_from_slice(c3);
        v.extend_from_slice(c2);
    } else {
        v.extend_from_slice(c2);
        v.extend_from_slice(c3);
    }
    v
}

fn unc(x: &BigUint, y: &BigUint) -> Vec<u8> {
    // raw 32-byte fields, values may be >= p (but < 2^256)
    let mut v = vec![0x04];
    v.extend_from_slice(&cand(x));
    v.extend_from_slice(&cand(y));
    v
}

pub fn run(ctx: &Arc<Ctx>) {
    refmodels::selftest::run(&["sm3", "sm2"]).unwrap_or_else(|e| ctx.machinery_error(format!("reference self-test failed: {}", e)));
    let pr = sm2::params();
    let (n, p) = (pr.n.clone(), pr.p.clone());
    ctx.set_rule("base ciphertexts (message lengths {1,17,32,33}, thorough 1..=40, x 2 orders x 2 C1 encodings, made by the reference encryptor): every single-bit flip of the whole ciphertext; C3 with several bytes changed so that the differences cancel (equal XOR differences, sums of 0 mod 256) or with every byte inverted; every truncation length; C1 replaced by (x,y+-1), (x+-1,y), (0,0), (x, y') with y'^2 differing from the right-hand side in chosen bits of the stored form (upper / lower half of a limb, single limbs), points on y^2=x^3+ax+b' (incl. an order-2 point) and points of the quadratic twist (x, rhs^((p+1)/4)) and off-curve points with x^3+ax+b = y or 2y for y in {R^-1, 2R^-1, 2} (cubic solved by the reference), with C2,C3 completed correctly for that point (by the reference and, separately, by the library's own arithmetic on the raw coordinates), compressed x that is a non-residue, x+p aliases of an on-curve point with tiny x, compressed non-residue x with the body completed for the bogus root, a ciphertext whose KDF output is all zero, C1 of another ciphertext; C2/C3 swapped between two ciphertexts; the C1 tag byte replaced by every other value; undecodable / off-curve C1 with the body completed for a fallback point (the recipient's public key, G, zero coordinates). The ASN.1 form through decrypt_asn1 with both values of its compressed flag: every single-bit flip of C1.x, C1.y, C3 and C2 re-encoded as a well-formed GM/T 0009 document, y negated, y + p, x / y + k 2^256, off-curve (x, y) with the original body and with the body completed for the foreign point, empty and truncated C2. Oracle: result must be Err — never Ok(anything), never a panic; the untouched ciphertext must decrypt.");
    let mut g = SplitMix::new(ctx.seed, "c06");
    let lens: Vec<usize> = ctx.tier.pick(vec![1, 17, 32, 33], (1..=40).collect());
    let d = hb(ANNEX_D);
    let d2 = g.nonzero_below(&(&n - 2u32)) | BigUint::one(); // odd
    let mut cases: Vec<Case> = Vec::new();
    for (bi, &l) in lens.iter().enumerate() {
        for c1c3c2 in [false, true] {
            for compressed in [false, true] {
                let dd = if bi % 2 == 0 { &d } else { &d2 };
                let pk = sm2::g_mul(dd);
                let msg = content("seed", l, ctx.seed ^ (bi as u64));
                let k = g.nonzero_below(&n);
                let base = sm2::encrypt_with_k(&pk, &msg, &k).expect("base ct");
                let ct = base.encode(c1c3c2, compressed);
                let mk = |ctb: Vec<u8>, expect: Option<String>, label: &str| Case { d: hexbig(dd), ct: hex::encode(ctb), c1c3c2, compressed, expect, label: label.to_string(), asn1: false };
                cases.push(mk(ct.clone(), Some(hex::encode(&msg)), "untouched"));
                let c1len = if compressed { 33 } else { 65 };
                // every single-bit flip
                for bit in 0..ct.len() * 8 {
                    let mut f = ct.clone();
                    f[bit / 8] ^= 0x80 >> (bit % 8);
                    let byte = bit / 8;
                    let region = if byte == 0 {
                        "tag"
                    } else if byte < c1len {
                        "C1"
                    } else {
                        let in_c3 = if c1c3c2 { byte < c1len + 32 } else { byte >= ct.len() - 32 };
                        if in_c3 {
                            "C3"
                        } else {
                            "C2"
                        }
                    };
                    cases.push(mk(f, None, &format!("bitflip-{}", region)));
                }
                // every truncation
                for tl in 0..ct.len() {
                    let lab = if tl < c1len { "truncated-inside-C1" } else if tl < c1len + 32 { "truncated-inside-C3-window" } else if tl == c1len + 32 { "truncated-empty-C2" } else { "truncated-body" };
                    cases.push(mk(ct[..tl].to_vec(), None, lab));
                }
                // several bytes of C3 changed so that the differences cancel under a sloppy comparison (xor-fold, sum-fold)
                {
                    let c3_at = if c1c3c2 { c1len } else { ct.len() - 32 };
                    let edits: [&[(usize, u8)]; 7] = [&[(0, 0x80), (1, 0x80)], &[(0, 0x80), (31, 0x80)], &[(3, 0x01), (17, 0xff)], &[(5, 0x40), (6, 0xc0)], &[(0, 0x40), (8, 0x40), (16, 0x40), (24, 0x40)], &[(10, 0x55), (20, 0x55)], &[(0, 0xff), (1, 0x01)]];
                    for e in edits {
                        let mut f = ct.clone();
                        for (i, x) in e {
                            f[c3_at + i] ^= x;
                        }
                        cases.push(mk(f, None, "C3-several-bytes-with-cancelling-differences"));
                    }
                    let mut f = ct.clone();
                    for b in f[c3_at..c3_at + 32].iter_mut() {
                        *b ^= 0xff;
                    }
                    cases.push(mk(f, None, "C3-every-byte-inverted"));
                    // a C3 that differs but prints the same as unpadded hex / decimal text: bytes 0X,YZ rewritten XY,0Z
                    for i in 0..31 {
                        let (a, b) = (ct[c3_at + i], ct[c3_at + i + 1]);
                        if a != 0 && a < 0x10 && b >= 0x10 {
                            let mut f = ct.clone();
                            f[c3_at + i] = (a << 4) | (b >> 4);
                            f[c3_at + i + 1] = b & 0x0f;
                            cases.push(mk(f, None, "C3-same-unpadded-hex-text"));
                        }
                    }
                }
                // appended byte
                let mut ext = ct.clone();
                ext.push(0);
                cases.push(mk(ext, None, "extended-by-one-byte"));
                if !compressed {
                    let (x, y) = base.c1.clone().unwrap();
                    // off-curve neighbours, completed "correctly" for the substituted point
                    let subs: Vec<(&str, BigUint, BigUint)> = vec![
                        ("offcurve-y+1", x.clone(), (&y + 1u32) % &p),
                        ("offcurve-y-1", x.clone(), (&y + &p - 1u32) % &p),
                        ("offcurve-x+1", (&x + 1u32) % &p, y.clone()),
                        ("offcurve-x-1", (&x + &p - 1u32) % &p, y.clone()),
                        ("offcurve-random", g.below(&p), g.below(&p)),
                        ("offcurve-order2-y=0", g.below(&p), BigUint::zero()),
                    ];
                    for (lab, sx, sy) in subs {
                        let pt: Pt = Some((sx.clone(), sy.clone()));
                        if sm2::on_curve(&pt) {
                            continue;
                        }
                        // with the original C2/C3 (plain substitution)
                        cases.push(mk(raw_encode(&unc(&sx, &sy), &base.c2, &base.c3, c1c3c2), None, &format!("{}/orig-body", lab)));
                        // invalid-curve attack: body recomputed for the foreign point
                        if let Some((c2, c3)) = complete(dd, &pt, &msg) {
                            cases.push(mk(raw_encode(&unc(&sx, &sy), &c2, &c3, c1c3c2), None, &format!("{}/invalid-curve-completed", lab)));
                        }
                        if let Some((c2, c3)) = complete_with_library_arithmetic(dd, &pt, &msg) {
                            cases.push(mk(raw_encode(&unc(&sx, &sy), &c2, &c3, c1c3c2), None, &format!("{}/completed-with-library-arithmetic", lab)));
                        }
                    }
                    // points of the quadratic twist in the uncompressed form: x with x^3+ax+b a non-residue and the y a
                    // decoder gets from rhs^((p+1)/4) without checking the root (y^2 = -rhs), body completed for them
                    {
                        let mut nx = BigUint::from(2u32 + bi as u32);
                        let mut found = 0;
                        while found < 2 {
                            let rhs = (&nx * &nx * &nx + &pr.a * &nx + &pr.b) % &p;
                            if sm2::sqrt_mod_p(&rhs).is_none() {
                                let y0 = rhs.modpow(&((&p + 1u32) >> 2), &p);
                                for yy in [y0.clone(), (&p - &y0) % &p] {
                                    let tpt: Pt = Some((nx.clone(), yy.clone()));
                                    cases.push(mk(raw_encode(&unc(&nx, &yy), &base.c2, &base.c3, c1c3c2), None, "twist-point/orig-body"));
                                    if let Some((c2, c3)) = complete(dd, &tpt, &msg) {
                                        cases.push(mk(raw_encode(&unc(&nx, &yy), &c2, &c3, c1c3c2), None, "twist-point/invalid-curve-completed"));
                                    }
                                    if let Some((c2, c3)) = complete_with_library_arithmetic(dd, &tpt, &msg) {
                                        cases.push(mk(raw_encode(&unc(&nx, &yy), &c2, &c3, c1c3c2), None, "twist-point/completed-with-library-arithmetic"));
                                    }
                                }
                                found += 1;
                            }
                            nx += 1u32;
                        }
                    }
                    // off-curve points with x^3 + a x + b = y instead of y^2, for y whose Montgomery form is the plain integer 1 or 2
                    // (R^-1, 2 R^-1: a "multiply by one" shortcut keyed on the plain constant squares them to themselves) and y = 2
                    {
                        let rinv = (BigUint::one() << 256usize).modpow(&(&p - 2u32), &p);
                        for (yl, yv) in [("R^-1", rinv.clone()), ("2R^-1", (&rinv * 2u32) % &p), ("2", BigUint::from(2u32))] {
                            for (rl, rhs) in [("y", yv.clone()), ("2y", (&yv * 2u32) % &p)] {
                                if let Some(xr) = sm2::xs_for_rhs(&rhs).first() {
                                    let fpt: Pt = Some((xr.clone(), yv.clone()));
                                    if sm2::on_curve(&fpt) {
                                        continue;
                                    }
                                    cases.push(mk(raw_encode(&unc(xr, &yv), &base.c2, &base.c3, c1c3c2), None, &format!("offcurve-rhs(x)={}/y={}/orig-body", rl, yl)));
                                    if let Some((c2, c3)) = complete(dd, &fpt, &msg) {
                                        cases.push(mk(raw_encode(&unc(xr, &yv), &c2, &c3, c1c3c2), None, &format!("offcurve-rhs(x)={}/y={}/invalid-curve-completed", rl, yl)));
                                    }
                                    if let Some((c2, c3)) = complete_with_library_arithmetic(dd, &fpt, &msg) {
                                        cases.push(mk(raw_encode(&unc(xr, &yv), &c2, &c3, c1c3c2), None, &format!("offcurve-rhs(x)={}/y={}/completed-with-library-arithmetic", rl, yl)));
                                    }
                                }
                            }
                        }
                    }
                    // off-curve points whose y^2 differs from x^3 + a x + b in a few chosen bits of the STORED (Montgomery) form only:
                    // in the upper half of one or two 64-bit limbs, in the lower half, in the top limb, in the bottom limb - a
                    // comparison that drops part of every limb, or some limb, accepts one of them
                    {
                        let r256: BigUint = BigUint::one() << 256usize;
                        let rinv = r256.modpow(&(&p - 2u32), &p);
                        let rhs = (&x * &x * &x + &pr.a * &x + &pr.b) % &p;
                        let stored = (&rhs * &r256) % &p;
                        let masks: [(&str, BigUint); 7] = [
                            ("bit40", BigUint::one() << 40usize),
                            ("bits40+100", (BigUint::one() << 40usize) + (BigUint::one() << 100usize)),
                            ("bit5", BigUint::one() << 5usize),
                            ("bits5+70", (BigUint::one() << 5usize) + (BigUint::one() << 70usize)),
                            ("bit200", BigUint::one() << 200usize),
                            ("bit130", BigUint::one() << 130usize),
                            ("bit63", BigUint::one() << 63usize),
                        ];
                        for (ml, mask) in masks {
                            // walk to the next stored value of this shape that is a field element and a square
                            for step in 0..16u32 {
                                let cand_stored = &stored ^ (&mask << step as usize);
                                if cand_stored >= p {
                                    continue;
                                }
                                let y2 = (&cand_stored * &rinv) % &p;
                                if let Some(yv) = sm2::sqrt_mod_p(&y2) {
                                    let fpt: Pt = Some((x.clone(), yv.clone()));
                                    if sm2::on_curve(&fpt) {
                                        continue;
                                    }
                                    if let Some((c2, c3)) = complete(dd, &fpt, &msg) {
                                        cases.push(mk(raw_encode(&unc(&x, &yv), &c2, &c3, c1c3c2), None, &format!("offcurve-y^2-differs-in-stored-{}/invalid-curve-completed", ml)));
                                    }
                                    if let Some((c2, c3)) = complete_with_library_arithmetic(dd, &fpt, &msg) {
                                        cases.push(mk(raw_encode(&unc(&x, &yv), &c2, &c3, c1c3c2), None, &format!("offcurve-y^2-differs-in-stored-{}/completed-with-library-arithmetic", ml)));
                                    }
                                    break;
                                }
                            }
                        }
                    }
                    // off-curve points that zero an intermediate of the curve equation: x^2 + a = 0 (x = +-sqrt 3), with the y a
                    // verifier whose product x (x^2 + a) comes out as x, as 1 or as 0 would expect
                    if let Some(r3) = sm2::sqrt_mod_p(&BigUint::from(3u32)) {
                        for xz in [r3.clone(), &p - &r3] {
                            for (yl, rhs) in [("y^2=x+b", (&xz + &pr.b) % &p), ("y^2=1+b", (&pr.b + 1u32) % &p), ("y^2=x^2+b", (&xz * &xz + &pr.b) % &p)] {
                                if let Some(yz) = sm2::sqrt_mod_p(&rhs) {
                                    let fpt: Pt = Some((xz.clone(), yz.clone()));
                                    if sm2::on_curve(&fpt) {
                                        continue;
                                    }
                                    cases.push(mk(raw_encode(&unc(&xz, &yz), &base.c2, &base.c3, c1c3c2), None, &format!("offcurve-x^2+a=0/{}/orig-body", yl)));
                                    if let Some((c2, c3)) = complete_with_library_arithmetic(dd, &fpt, &msg) {
                                        cases.push(mk(raw_encode(&unc(&xz, &yz), &c2, &c3, c1c3c2), None, &format!("offcurve-x^2+a=0/{}/completed-with-library-arithmetic", yl)));
                                    }
                                    if let Some((c2, c3)) = complete(dd, &fpt, &msg) {
                                        cases.push(mk(raw_encode(&unc(&xz, &yz), &c2, &c3, c1c3c2), None, &format!("offcurve-x^2+a=0/{}/invalid-curve-completed", yl)));
                                    }
                                }
                            }
                        }
                    }
                    cases.push(mk(raw_encode(&unc(&BigUint::zero(), &BigUint::zero()), &base.c2, &base.c3, c1c3c2), None, "C1=(0,0)"));
                }
                // tiny-x on-curve point and its x+p alias (both encodings)
                let mut tx = BigUint::from(1u32 + bi as u32);
                let tiny = loop {
                    let rhs = (&tx * &tx * &tx + &pr.a * &tx + &pr.b) % &p;
                    if let Some(y) = sm2::sqrt_mod_p(&rhs) {
                        break (tx.clone(), y);
                    }
                    tx += 1u32;
                };
                let tpt: Pt = Some(tiny.clone());
                if let Some((c2, c3)) = complete(dd, &tpt, &msg) {
                    let alias_x = &tiny.0 + &p;
                    if compressed {
                        let tag = if tiny.1.bit(0) { 0x03 } else { 0x02 };
                        let mut good = vec![tag];
                        good.extend_from_slice(&cand(&tiny.0));
                        cases.push(mk(raw_encode(&good, &c2, &c3, c1c3c2), Some(hex::encode(&msg)), "tiny-x-point"));
                        let mut bad = vec![tag];
                        bad.extend_from_slice(&cand(&alias_x));
                        cases.push(mk(raw_encode(&bad, &c2, &c3, c1c3c2), None, "x>=p-alias"));
                    } else {
                        cases.push(mk(raw_encode(&unc(&tiny.0, &tiny.1), &c2, &c3, c1c3c2), Some(hex::encode(&msg)), "tiny-x-point"));
                        cases.push(mk(raw_encode(&unc(&alias_x, &tiny.1), &c2, &c3, c1c3c2), None, "x>=p-alias"));
                    }
                }
                if compressed {
                    // x that is not the abscissa of any curve point
                    let mut nx = g.below(&p);
                    loop {
                        let rhs = (&nx * &nx * &nx + &pr.a * &nx + &pr.b) % &p;
                        if sm2::sqrt_mod_p(&rhs).is_none() {
                            break;
                        }
                        nx += 1u32;
                    }
                    let mut c1 = vec![0x02];
                    c1.extend_from_slice(&cand(&nx));
                    cases.push(mk(raw_encode(&c1, &base.c2, &base.c3, c1c3c2), None, "compressed-nonresidue-x"));
                    // invalid-curve variant: a decoder that skips the root check ends up with
                    // y' = rhs^((p+1)/4) (parity-adjusted), a point on another curve; complete the body for it
                    let rhs = (&nx * &nx * &nx + &pr.a * &nx + &pr.b) % &p;
                    let y0 = rhs.modpow(&((&p + 1u32) >> 2), &p);
                    for tag in [0x02u8, 0x03] {
                        let y = if y0.bit(0) == (tag == 0x03) { y0.clone() } else { (&p - &y0) % &p };
                        let fpt: Pt = Some((nx.clone(), y));
                        if let Some((c2, c3)) = complete(dd, &fpt, &msg) {
                            let mut c1 = vec![tag];
                            c1.extend_from_slice(&cand(&nx));
                            cases.push(mk(raw_encode(&c1, &c2, &c3, c1c3c2), None, "compressed-nonresidue-x/invalid-curve-completed"));
                        }
                    }
                }
                // step B4: a ciphertext whose KDF output is all zero must be refused (1-byte body, crafted nonce)
                if l == 1 {
                    let mut kz = g.nonzero_below(&(&n - (BigUint::one() << 40usize)));
                    let mut sp = sm2::mul(&kz, &pk);
                    for _ in 0..(1 << 14) {
                        let (x2, y2) = sm2::xy_bytes(&sp);
                        if sm3::kdf(&[&x2[..], &y2[..]].concat(), 1)[0] == 0 {
                            let m1 = [0x5au8];
                            let c3 = sm3::sm3_cat(&[&x2, &m1, &y2]);
                            let c1b = sm2::encode_point(&sm2::g_mul(&kz), compressed);
                            cases.push(mk(raw_encode(&c1b, &m1, &c3, c1c3c2), None, "kdf-output-all-zero"));
                            break;
                        }
                        sp = sm2::add(&sp, &pk);
                        kz += 1u32;
                    }
                }
                // second ciphertext for swaps
                let k2 = g.nonzero_below(&n);
                let other = sm2::encrypt_with_k(&pk, &msg, &k2).expect("ct2");
                let c1b = sm2::encode_point(&base.c1, compressed);
                let c1o = sm2::encode_point(&other.c1, compressed);
                cases.push(mk(raw_encode(&c1b, &other.c2, &base.c3, c1c3c2), None, "C2-from-other-ciphertext"));
                cases.push(mk(raw_encode(&c1b, &base.c2, &other.c3, c1c3c2), None, "C3-from-other-ciphertext"));
                cases.push(mk(raw_encode(&c1o, &base.c2, &base.c3, c1c3c2), None, "C1-from-other-ciphertext"));
                // the tag byte of C1 replaced by every other value (02/03/04 announce a form of another length than
                // the one the caller asked for; 06/07, the hybrid form of the same point, are left unjudged)
                for tag in 0..=255u8 {
                    if tag == ct[0] || tag == 0x06 || tag == 0x07 {
                        continue;
                    }
                    let mut f = ct.clone();
                    f[0] = tag;
                    cases.push(mk(f, None, if (2..=4).contains(&tag) { "tag-of-another-form" } else { "tag-unknown" }));
                }
                // an undecodable / off-curve C1 with the body completed for a point a lenient decoder might fall back to:
                // the recipient's public key [d]G (C1 := G), G itself, and the all-zero coordinates of an infinity
                {
                    let mut bad_c1: Vec<(&str, Vec<u8>)> = Vec::new();
                    if compressed {
                        let mut nx = BigUint::from(7u32);
                        while sm2::sqrt_mod_p(&((&nx * &nx * &nx + &pr.a * &nx + &pr.b) % &p)).is_some() {
                            nx += 1u32;
                        }
                        bad_c1.push(("nonresidue-x", [vec![0x02], cand(&nx).to_vec()].concat()));
                        bad_c1.push(("x=2^256-1", [vec![0x03], vec![0xffu8; 32]].concat()));
                        bad_c1.push(("unknown-tag", [vec![0x05], cand(&base.c1.clone().unwrap().0).to_vec()].concat()));
                        bad_c1.push(("all-zero", vec![0u8; 33]));
                    } else {
                        bad_c1.push(("(1,1)", unc(&BigUint::one(), &BigUint::one())));
                        bad_c1.push(("(0,0)", unc(&BigUint::zero(), &BigUint::zero())));
                        bad_c1.push(("x=y=2^256-1", [vec![0x04], vec![0xffu8; 64]].concat()));
                        let (bx, by) = base.c1.clone().unwrap();
                        bad_c1.push(("unknown-tag", { let mut v = unc(&bx, &by); v[0] = 0x05; v }));
                        bad_c1.push(("y+1", unc(&bx, &((&by + 1u32) % &p))));
                        bad_c1.push(("all-zero", vec![0u8; 65]));
                    }
                    let (pkx, pky) = sm2::xy_bytes(&pk);
                    let (gx, gy) = sm2::xy_bytes(&sm2::params().g);
                    for (cl, c1b) in &bad_c1 {
                        for (sl, x2, y2) in [("public-key", pkx, pky), ("G", gx, gy), ("zero-coordinates", [0u8; 32], [0u8; 32])] {
                            let t = sm3::kdf(&[&x2[..], &y2[..]].concat(), msg.len());
                            let c2: Vec<u8> = msg.iter().zip(t.iter()).map(|(a, b)| a ^ b).collect();
                            let c3 = sm3::sm3_cat(&[&x2, &msg, &y2]);
                            cases.push(mk(raw_encode(c1b, &c2, &c3, c1c3c2), None, &format!("undecodable-C1-{}/body-for-fallback-{}", cl, sl)));
                        }
                    }
                }
                // wrong order / wrong encoding flags are the caller's business and not judged
            }
        }
    }
    // the ASN.1 form (GM/T 0009) through decrypt_asn1, with both values of its `compressed` flag: every single-bit flip of
    // x, y, the hash and the ciphertext octets, re-encoded as a well-formed document, must be refused
    for (bi, l) in [1usize, 33].into_iter().enumerate() {
        let dd = if bi == 0 { &d } else { &d2 };
        let pk = sm2::g_mul(dd);
        let msg = content("seed", l, ctx.seed ^ 0xa5);
        let k = g.nonzero_below(&n);
        let base = sm2::encrypt_with_k(&pk, &msg, &k).expect("base ct");
        let (x, y) = base.c1.clone().unwrap();
        for compressed in [false, true] {
            let mk = |doc: Vec<u8>, expect: Option<String>, label: &str| Case { d: hexbig(dd), ct: hex::encode(doc), c1c3c2: true, compressed, expect, label: label.to_string(), asn1: true };
            cases.push(mk(refmodels::der::sm2_cipher_encode(&x, &y, &base.c3, &base.c2), Some(hex::encode(&msg)), "untouched"));
            for bit in 0..256u32 {
                let fx = &x ^ (BigUint::from(1u32) << bit);
                let fy = &y ^ (BigUint::from(1u32) << bit);
                cases.push(mk(refmodels::der::sm2_cipher_encode(&fx, &y, &base.c3, &base.c2), None, "asn1-bitflip-C1.x"));
                cases.push(mk(refmodels::der::sm2_cipher_encode(&x, &fy, &base.c3, &base.c2), None, "asn1-bitflip-C1.y"));
                let mut h = base.c3;
                h[(bit / 8) as usize] ^= 0x80 >> (bit % 8);
                cases.push(mk(refmodels::der::sm2_cipher_encode(&x, &y, &h, &base.c2), None, "asn1-bitflip-C3"));
            }
            for bit in 0..base.c2.len() * 8 {
                let mut c2 = base.c2.clone();
                c2[bit / 8] ^= 0x80 >> (bit % 8);
                cases.push(mk(refmodels::der::sm2_cipher_encode(&x, &y, &base.c3, &c2), None, "asn1-bitflip-C2"));
            }
            // invalid-curve points through the ASN.1 form, with the body completed for [d](x, y) on the foreign curve
            for (fx, fy, lab) in [(BigUint::from(1u32), BigUint::from(1u32), "(1,1)"), (x.clone(), (&y + 1u32) % &p, "(x,y+1)"), ((&x + 1u32) % &p, y.clone(), "(x+1,y)"), (BigUint::from(2u32), BigUint::from(0u32), "(2,0)")] {
                let fpt: Pt = Some((fx.clone(), fy.clone()));
                if sm2::params().curve.on_curve(&fpt) {
                    continue;
                }
                if let Some((c2f, c3f)) = complete(dd, &fpt, &msg) {
                    cases.push(mk(refmodels::der::sm2_cipher_encode(&fx, &fy, &c3f, &c2f), None, &format!("asn1-off-curve-{}/invalid-curve-completed", lab)));
                }
                cases.push(mk(refmodels::der::sm2_cipher_encode(&fx, &fy, &base.c3, &base.c2), None, &format!("asn1-off-curve-{}", lab)));
            }
            // a coordinate with further octets in front of its 32 (x + k 2^256, y + k 2^256): not a field element, never the same point
            for kk in [1u32, 0x7f, 0x80, 0xff] {
                let bump = BigUint::from(kk) << 256usize;
                cases.push(mk(refmodels::der::sm2_cipher_encode(&(&x + &bump), &y, &base.c3, &base.c2), None, "asn1-C1.x-plus-k*2^256"));
                cases.push(mk(refmodels::der::sm2_cipher_encode(&x, &(&y + &bump), &base.c3, &base.c2), None, "asn1-C1.y-plus-k*2^256"));
            }
            // the ciphertext octets removed altogether (empty OCTET STRING): nothing to decrypt, never Ok
            cases.push(mk(refmodels::der::sm2_cipher_encode(&x, &y, &base.c3, &[]), None, "asn1-empty-C2"));
            cases.push(mk(refmodels::der::sm2_cipher_encode(&BigUint::from(1u32), &BigUint::from(1u32), &[0u8; 32], &[]), None, "asn1-empty-C2/fabricated-point"));
            cases.push(mk(refmodels::der::sm2_cipher_encode(&x, &y, &base.c3, &base.c2[..base.c2.len() - 1]), None, "asn1-C2-truncated"));
            // y replaced by p - y (the other root: a different valid point) and by y + p (unreduced)
            cases.push(mk(refmodels::der::sm2_cipher_encode(&x, &(&p - &y), &base.c3, &base.c2), None, "asn1-C1.y-negated"));
            cases.push(mk(refmodels::der::sm2_cipher_encode(&x, &(&y + &p), &base.c3, &base.c2), None, "asn1-C1.y+p"));
        }
    }
    ctx.note_bound(format!("{} base lengths x 4 configurations, {} cases", lens.len(), cases.len()));
    ctx.sample(serde_json::to_value(&cases[0]).unwrap());
    ctx.sample(serde_json::to_value(&cases[cases.len() - 1]).unwrap());
    run_cases(ctx, &cases, 16, eval);
    crate::cold::check(ctx, "C06");
}
