//! C07 — SM4 CBC/CFB/OFB/CTR match the standard modes, round-trip, and reject malformed input
use crate::alpha::{content, seeded};
use crate::engine::*;
use gm_sm4::{CipherMode, Sm4CipherMode};
use rayon::prelude::*;
use refmodels::sm4;
use serde::{Deserialize, Serialize};
use serde_json::Value;
use std::sync::Arc;

#[derive(Serialize, Deserialize, Clone, Debug)]
pub enum Case {
    /// encrypt + decrypt of data of length `len`
    Mode { mode: String, len: usize, key: String, iv: String, content: String },
    /// IV of wrong length must give Err from encrypt and decrypt
    BadIv { mode: String, ivlen: usize, datalen: usize },
    /// CBC decrypt of arbitrary ciphertext bytes of length `len`
    CbcCtLen { len: usize, content: String },
    /// CBC decrypt where the final plaintext byte is v (others seeded / well-formed padding)
    CbcLastByte { v: u8, wellformed: bool, blocks: usize },
    /// operations on ONE mode object; the last one is judged. op = 0..=5, see `seq_op`
    History { mode: String, seq: Vec<u16> },
    /// the mode object is built on one thread and used on fresh threads (moved in) that never built one
    CrossThread { mode: String },
}

pub const MODES: [&str; 4] = ["cbc", "cfb", "ofb", "ctr"];

fn mk(mode: &str) -> CipherMode {
    match mode {
        "cbc" => CipherMode::Cbc,
        "cfb" => CipherMode::Cfb,
        "ofb" => CipherMode::Ofb,
        "ctr" => CipherMode::Ctr,
        _ => panic!("mode"),
    }
}
fn h16(s: &str) -> [u8; 16] {
    hex::decode(s).unwrap().try_into().unwrap()
}
const STD_KEY: &str = "0123456789abcdeffedcba9876543210";

fn ref_enc(mode: &str, key: &[u8; 16], iv: &[u8; 16], data: &[u8]) -> Vec<u8> {
    match mode {
        "cbc" => sm4::cbc_encrypt(key, iv, data),
        "cfb" => sm4::cfb_encrypt(key, iv, data),
        "ofb" => sm4::ofb_crypt(key, iv, data),
        "ctr" => sm4::ctr_crypt(key, iv, data),
        _ => unreachable!(),
    }
}

fn dbg<T: std::fmt::Debug>(g: &Guard<T>) -> String {
    match g {
        Guard::Done(v) => truncate(&format!("{:?}", v), 120),
        Guard::Panic(p) => format!("panic {}", p),
    }
}

fn len_class(len: usize) -> &'static str {
    if len == 0 {
        "len=0"
    } else if len % 16 == 0 {
        "len%16=0"
    } else if len < 16 {
        "len<16"
    } else {
        "len%16!=0"
    }
}

fn eval(ctx: &Ctx, case: &Case) {
    ctx.state();
    let cj = || serde_json::to_value(case).unwrap();
    match case {
        Case::Mode { mode, len, key, iv, content: cl } => {
            let (k, ivb) = (h16(key), h16(iv));
            let data = content(cl, *len, ctx.seed);
            let Guard::Done(Ok(m)) = guard(|| Sm4CipherMode::new(&k, mk(mode))) else {
                ctx.violation("Sm4CipherMode::new", "valid-key-rejected", key.clone(), cj());
                return;
            };
            ctx.call();
            let want = ref_enc(mode, &k, &ivb, &data);
            let enc = guard(|| m.encrypt(&data, &ivb));
            ctx.call();
            ctx.trace();
            let site_e = format!("Sm4CipherMode::encrypt[{}]", mode);
            let site_d = format!("Sm4CipherMode::decrypt[{}]", mode);
            match &enc {
                Guard::Done(Ok(ct)) if *ct == want => ctx.outcome(&format!("ok/{}/{}", mode, len_class(*len))),
                Guard::Done(Ok(ct)) => {
                    let what = if ct.len() != want.len() { "ciphertext-length" } else { "ciphertext-mismatch" };
                    ctx.violation(&site_e, &format!("{}/{}", what, len_class(*len)), format!("len={} iv={} got={} want={}", len, iv, truncate(&hex::encode(ct), 96), truncate(&hex::encode(&want), 96)), cj());
                }
                other => ctx.violation(&site_e, &format!("not-ok/{}", len_class(*len)), format!("len={} iv={} -> {}", len, iv, dbg(other)), cj()),
            }
            // decrypt the reference ciphertext (independent of the library's encrypt)
            let dec = guard(|| m.decrypt(&want, &ivb));
            ctx.call();
            match &dec {
                Guard::Done(Ok(pt)) if *pt == data => {}
                other => ctx.violation(&site_d, &format!("roundtrip/{}", len_class(*len)), format!("len={} iv={} -> {}", len, iv, dbg(other)), cj()),
            }
        }
        Case::CrossThread { mode } => {
            let k = h16(STD_KEY);
            let ivb = [0x3cu8; 16];
            let data = content("seed", 37, ctx.seed);
            let want = ref_enc(mode, &k, &ivb, &data);
            ctx.calls(3);
            ctx.trace();
            let Guard::Done(Ok(m)) = guard(|| Sm4CipherMode::new(&k, mk(mode))) else { return };
            let (d2, w2) = (data.clone(), want.clone());
            let m = crate::engine::Xfer::new(m);
            let r = std::thread::spawn(move || guard(|| (m.get().decrypt(&w2, &ivb), m.get().encrypt(&d2, &ivb)))).join();
            match r {
                Ok(Guard::Done((Ok(pt), Ok(ct)))) if pt == data && ct == want => ctx.outcome("ok/cross-thread"),
                other => ctx.violation(&format!("Sm4CipherMode[{}]", mode), "wrong-result-on-another-thread", truncate(&format!("{:?}", other.map(|g| g.map(|(a, b)| (a.map(hex::encode), b.map(hex::encode))))), 200), cj()),
            }
        }
        Case::BadIv { mode, ivlen, datalen } => {
            let k = h16(STD_KEY);
            let iv = seeded(ctx.seed, "badiv", *ivlen);
            let data = seeded(ctx.seed, "badivdata", *datalen);
            let Guard::Done(Ok(m)) = guard(|| Sm4CipherMode::new(&k, mk(mode))) else { return };
            for (name, r) in [("encrypt", guard(|| m.encrypt(&data, &iv))), ("decrypt", guard(|| m.decrypt(&data, &iv)))] {
                ctx.call();
                let site = format!("Sm4CipherMode::{}[{}]", name, mode);
                match r {
                    Guard::Done(Err(_)) => ctx.outcome("err/bad-iv"),
                    Guard::Done(Ok(_)) => ctx.violation(&site, "bad-iv-length-accepted", format!("ivlen={} datalen={}", ivlen, datalen), cj()),
                    Guard::Panic(p) => ctx.violation(&site, &format!("bad-iv-length-panic/{}", panic_site(&p)), format!("ivlen={} datalen={} {}", ivlen, datalen, p), cj()),
                }
            }
        }
        Case::CbcCtLen { len, content: cl } => {
            let (k, iv) = (h16(STD_KEY), [0x5au8; 16]);
            let ct = content(cl, *len, ctx.seed);
            let Guard::Done(Ok(m)) = guard(|| Sm4CipherMode::new(&k, CipherMode::Cbc)) else { return };
            ctx.call();
            let r = guard(|| m.decrypt(&ct, &iv));
            let site = "Sm4CipherMode::decrypt[cbc]";
            let must_err = *len == 0 || *len % 16 != 0 || {
                let raw = sm4::cbc_decrypt_raw(&k, &iv, &ct);
                let v = raw[raw.len() - 1];
                !(1..=16).contains(&v)
            };
            match r {
                Guard::Panic(p) => ctx.violation(site, &format!("panic/{}/{}", panic_site(&p), len_class(*len)), format!("ctlen={} {}", len, p), cj()),
                Guard::Done(Ok(_)) if must_err => ctx.violation(site, &format!("malformed-accepted/{}", len_class(*len)), format!("ctlen={} content={}", len, cl), cj()),
                Guard::Done(Ok(_)) => ctx.outcome("ok/cbc-random-ct-valid-last-byte"),
                Guard::Done(Err(_)) => ctx.outcome(&format!("err/cbc-ct/{}", len_class(*len))),
            }
        }
        Case::History { mode, seq } => eval_history(ctx, case, mode, seq),
        Case::CbcLastByte { v, wellformed, blocks } => {
            let (k, iv) = (h16(STD_KEY), [0xa5u8; 16]);
            let mut pt = seeded(ctx.seed, "cbclast", 16 * blocks);
            let n = pt.len();
            pt[n - 1] = *v;
            if *wellformed {
                for i in 0..(*v as usize) {
                    pt[n - 1 - i] = *v;
                }
            }
            let ct = sm4::cbc_encrypt_nopad(&k, &iv, &pt);
            let Guard::Done(Ok(m)) = guard(|| Sm4CipherMode::new(&k, CipherMode::Cbc)) else { return };
            ctx.call();
            let r = guard(|| m.decrypt(&ct, &iv));
            let site = "Sm4CipherMode::decrypt[cbc]";
            let in_range = (1..=16).contains(v);
            match r {
                Guard::Panic(p) => ctx.violation(site, &format!("panic/{}/last-byte", panic_site(&p)), format!("v={} {}", v, p), cj()),
                Guard::Done(Ok(_)) if !in_range => ctx.violation(site, "padding-byte-out-of-range-accepted", format!("v={}", v), cj()),
                Guard::Done(Ok(out)) => {
                    // in range: if it answers, the answer must be the data in front of the padding
                    if out[..] != pt[..n - *v as usize] {
                        ctx.violation(site, "wrong-plaintext-after-unpad", format!("v={} wellformed={}", v, wellformed), cj());
                    } else {
                        ctx.outcome("ok/cbc-unpad");
                    }
                }
                Guard::Done(Err(e)) if in_range && *wellformed => ctx.violation(site, "wellformed-padding-rejected", format!("v={} err={:?}", v, e), cj()),
                Guard::Done(Err(_)) => ctx.outcome("err/cbc-last-byte"),
            }
        }
    }
}

/// (decrypt?, data, iv) of an operation of the object-history model
fn seq_op(seed: u64, mode: &str, op: u16) -> (bool, Vec<u8>, [u8; 16]) {
    let key = h16(STD_KEY);
    let iv0: [u8; 16] = seeded(seed, "c07hiv0", 16).try_into().unwrap();
    let mut iv1: [u8; 16] = seeded(seed, "c07hiv1", 16).try_into().unwrap();
    for b in &mut iv1[8..] {
        *b = 0xff; // carries through 8 bytes in CTR
    }
    let d0 = seeded(seed, "c07hd0", 37);
    let d1 = seeded(seed, "c07hd1", 64);
    match op {
        0 => (false, d0, iv0),
        1 => (false, d1, iv1),
        2 => (false, seeded(seed, "c07hd2", 5), iv0),
        3 => (true, ref_enc(mode, &key, &iv0, &d0), iv0),
        4 => (true, ref_enc(mode, &key, &iv1, &d1), iv1),
        _ => (false, d0, iv1),
    }
}

fn eval_history(ctx: &Ctx, case: &Case, mode: &str, seq: &[u16]) {
    let key = h16(STD_KEY);
    let Guard::Done(Ok(m)) = guard(|| Sm4CipherMode::new(&key, mk(mode))) else { return };
    ctx.depth(seq.len() as u64);
    for (i, op) in seq.iter().enumerate() {
        if *op >= 6 {
            // calls that must fail (15-byte IV; for CBC an empty ciphertext) must leave the object untouched
            ctx.call();
            let r = guard(|| if *op == 6 { m.encrypt(&[1, 2, 3], &[0u8; 15]) } else { m.decrypt(&[], &[7u8; 16]) });
            let must_err = *op == 6 || mode == "cbc";
            match r {
                Guard::Done(Err(_)) if must_err => {}
                Guard::Done(Ok(_)) if !must_err => {}
                other => {
                    ctx.violation(&format!("Sm4CipherMode[{}]", mode), "malformed-call-in-sequence-not-handled", format!("seq={:?} -> {}", seq, dbg(&other)), serde_json::to_value(case).unwrap());
                    return;
                }
            }
            if i + 1 < seq.len() {
                continue;
            }
            // judged last: follow it with one ordinary encryption
            let (_, data, iv) = seq_op(ctx.seed, mode, 0);
            let key = h16(STD_KEY);
            match guard(|| m.encrypt(&data, &iv)) {
                Guard::Done(Ok(v)) if v == ref_enc(mode, &key, &iv, &data) => ctx.outcome(&format!("ok/history/{}", mode)),
                other => ctx.violation(&format!("Sm4CipherMode[{}]", mode), "result-depends-on-earlier-calls-on-the-object", format!("seq={:?} -> {}", seq, dbg(&other)), serde_json::to_value(case).unwrap()),
            }
            return;
        }
        let (dec, data, iv) = seq_op(ctx.seed, mode, *op);
        ctx.call();
        let r = guard(|| if dec { m.decrypt(&data, &iv) } else { m.encrypt(&data, &iv) });
        if i + 1 == seq.len() {
            ctx.trace();
            let want = if dec {
                match mode {
                    "cbc" => {
                        let raw = sm4::cbc_decrypt_raw(&key, &iv, &data);
                        let pad = *raw.last().unwrap() as usize;
                        raw[..raw.len() - pad].to_vec()
                    }
                    "cfb" => sm4::cfb_decrypt(&key, &iv, &data),
                    "ofb" => sm4::ofb_crypt(&key, &iv, &data),
                    _ => sm4::ctr_crypt(&key, &iv, &data),
                }
            } else {
                ref_enc(mode, &key, &iv, &data)
            };
            match r {
                Guard::Done(Ok(v)) if v == want => ctx.outcome(&format!("ok/history/{}", mode)),
                other => ctx.violation(&format!("Sm4CipherMode[{}]", mode), "result-depends-on-earlier-calls-on-the-object", format!("seq={:?} -> {}", seq, dbg(&other)), serde_json::to_value(case).unwrap()),
            }
        }
    }
}

pub fn replay(ctx: &Arc<Ctx>, v: &Value) {
    if crate::cold::replay(ctx, v) {
        return;
    }
    let c: Case = serde_json::from_value(v.clone()).expect("C07 case");
    eval(ctx, &c);
}

pub fn run(ctx: &Arc<Ctx>) {
    refmodels::selftest::run(&["sm4"]).unwrap_or_else(|e| ctx.machinery_error(format!("reference self-test failed: {}", e)));
    corpus_selftest(ctx);
    let lmax = ctx.tier.pick(200usize, 1100);
    ctx.set_rule("mode x every data length 0..=Lmax x {standard key, seeded key} x IV in {0, seeded, last j bytes 0xFF for j=0..=16} x content {zero, seeded}, plaintexts that already end like PKCS#7 padding (p bytes of p, p = 1..=16, at 16 / 32 / 33 / 48 bytes), and long data {255..257, 1023..1025, 4095..4097, 4111, 65553 bytes; thorough up to 2^20+5} x IVs whose counter is about to carry out of 1, 2 and 8 bytes: ciphertext = reference mode output (length included), library decrypts the reference ciphertext back to the data. Error side: IV lengths 0..=32 and 16 + {256, 512, 65536}, CBC ciphertext of every length 0..=Lmax, CBC final plaintext byte every value 0..=255 (well-formed and malformed padding). Plus all operation sequences to depth 3 (thorough 4) on one mode object per mode. Oracle: textbook modes over the reference block cipher, pinned by an OpenSSL-generated corpus.");
    ctx.note_bound(format!("Lmax={}", lmax));
    let seed_key = hex::encode(seeded(ctx.seed, "c07key", 16));
    let mut ivs: Vec<String> = vec![hex::encode([0u8; 16]), hex::encode(seeded(ctx.seed, "c07iv", 16))];
    for j in 0..=16usize {
        let mut iv = seeded(ctx.seed, "c07ivc", 16);
        for b in 0..j {
            iv[15 - b] = 0xff;
        }
        ivs.push(hex::encode(iv));
    }
    let mut cases = Vec::new();
    for mode in MODES {
        for len in 0..=lmax {
            for key in [STD_KEY.to_string(), seed_key.clone()] {
                for iv in &ivs {
                    for cl in ["zero", "seed"] {
                        cases.push(Case::Mode { mode: mode.into(), len, key: key.clone(), iv: iv.clone(), content: cl.into() });
                    }
                }
            }
        }
        cases.push(Case::CrossThread { mode: mode.into() });
        // IV lengths that equal 16 modulo 256 / 65536 are wrong lengths too
        for ivlen in [16usize + 256, 16 + 512, 16 + 65536] {
            cases.push(Case::BadIv { mode: mode.into(), ivlen, datalen: 33 });
        }
        for ivlen in 0..=32usize {
            if ivlen != 16 {
                for datalen in [0usize, 16, 33] {
                    cases.push(Case::BadIv { mode: mode.into(), ivlen, datalen });
                }
            }
        }
    }
    // long data: around 16, 64 and 256 blocks, 4 KiB and 64 KiB (batching of blocks, 8/16-bit block counters), with the
    // CTR counter about to carry out of its low byte, low two bytes and low eight bytes
    {
        let mut ivs_long: Vec<String> = vec![ivs[1].clone()];
        for j in [1usize, 2, 8] {
            let mut iv = seeded(ctx.seed, "c07ivl", 16);
            for b in 0..j {
                iv[15 - b] = 0xff;
            }
            iv[15] = 0xfe;
            ivs_long.push(hex::encode(iv));
        }
        let longs: Vec<usize> = ctx.tier.pick(vec![255usize, 256, 257, 1023, 1024, 1025, 4095, 4096, 4097, 4111, 65536 + 17], vec![255, 256, 257, 1023, 1024, 1025, 4095, 4096, 4097, 4111, 8191, 8192, 8209, 65535, 65536, 65536 + 17, (1 << 20) + 5]);
        for mode in MODES {
            for len in &longs {
                for iv in &ivs_long {
                    cases.push(Case::Mode { mode: mode.into(), len: *len, key: seed_key.clone(), iv: iv.clone(), content: "seed".into() });
                }
            }
        }
    }
    // every value of the last byte of key and IV (text-like trimming of a trailing newline etc.)
    for v in 0..=255u8 {
        let mut k = h16(STD_KEY);
        k[15] = v;
        let mut iv = h16(&seed_key);
        iv[15] = v;
        for mode in MODES {
            cases.push(Case::Mode { mode: mode.into(), len: 33, key: hex::encode(k), iv: ivs[1].clone(), content: "seed".into() });
            cases.push(Case::Mode { mode: mode.into(), len: 33, key: STD_KEY.into(), iv: hex::encode(iv), content: "seed".into() });
        }
    }
    // plaintexts that already end like PKCS#7 padding (p bytes of value p, p = 1..=16) at lengths 16, 32, 33, 48:
    // a block-aligned one still gets its own padding block, and decryption strips exactly that block
    for total in [16usize, 32, 33, 48] {
        for pad in 1..=16usize {
            let mut data = content("seed", total, 0x7ad);
            for b in data[total - pad..].iter_mut() {
                *b = pad as u8;
            }
            for mode in MODES {
                cases.push(Case::Mode { mode: mode.into(), len: total, key: STD_KEY.into(), iv: ivs[1].clone(), content: format!("hex:{}", hex::encode(&data)) });
            }
        }
    }
    for len in 0..=lmax {
        for cl in ["zero", "ff", "seed"] {
            cases.push(Case::CbcCtLen { len, content: cl.into() });
        }
    }
    for v in 0..=255u8 {
        for blocks in [1usize, 3] {
            cases.push(Case::CbcLastByte { v, wellformed: false, blocks });
            if (1..=16).contains(&v) {
                cases.push(Case::CbcLastByte { v, wellformed: true, blocks });
            }
        }
        // a self-consistent run of v copies of v for v > 16 (a "verify the whole padding" rewrite that drops the upper bound
        // accepts it): enough blocks to hold the run
        if v > 16 {
            cases.push(Case::CbcLastByte { v, wellformed: true, blocks: (v as usize + 15) / 16 });
            cases.push(Case::CbcLastByte { v, wellformed: true, blocks: (v as usize + 15) / 16 + 1 });
        }
    }
    ctx.sample(serde_json::to_value(&cases[5]).unwrap());
    ctx.sample(serde_json::to_value(&cases[cases.len() - 1]).unwrap());
    run_cases(ctx, &cases, 64, eval);
    // E1: one mode object, all operation sequences up to depth 3 (thorough 4) over 8 operations
    // (encrypt / decrypt, three data lengths, two IVs, two calls that must be refused): the mode object keeps no state between calls
    let depth = ctx.tier.pick(3usize, 4);
    for mode in MODES {
        let c2 = ctx.clone();
        let ms = mode.to_string();
        let model = HistModel {
            inits: vec![vec![]],
            actions: Box::new(move |h: &[u16]| if h.len() < depth { (0..8).collect() } else { vec![] }),
            visit: Arc::new(move |h: &[u16]| {
                if !h.is_empty() {
                    let c = Case::History { mode: ms.clone(), seq: h.to_vec() };
                    eval(&c2, &c);
                    prefix_push(serde_json::to_value(&c).unwrap());
                }
            }),
            batch: 32,
        };
        let st = explore(model);
        ctx.cov(&format!("object_history_model/{}", mode), serde_json::json!({"unique_states": st.unique_states, "generated": st.generated, "max_depth": st.max_depth}));
    }
    ctx.sample(serde_json::json!({"History": {"mode": "ctr", "seq": [1, 3, 0]}}));
    crate::cold::check(ctx, "C07");
}

/// the reference modes are pinned by OpenSSL-generated vectors (corpus/sm4_modes.json)
fn corpus_selftest(ctx: &Ctx) {
    let path = format!("{}/corpus/sm4_modes.json", VERIF_ROOT);
    let Ok(s) = std::fs::read_to_string(&path) else {
        ctx.machinery_error(format!("missing corpus {}", path));
        return;
    };
    let v: Value = serde_json::from_str(&s).expect("corpus json");
    let mut n = 0;
    for e in v.as_array().expect("array") {
        let mode = e["mode"].as_str().unwrap();
        let key = h16(e["key"].as_str().unwrap());
        let iv = h16(e["iv"].as_str().unwrap());
        let pt = hex::decode(e["pt"].as_str().unwrap()).unwrap();
        let ct = hex::decode(e["ct"].as_str().unwrap()).unwrap();
        let got = if mode == "ecb" {
            pt.chunks(16).flat_map(|b| sm4::encrypt_block(&key, b.try_into().unwrap()).to_vec()).collect()
        } else {
            ref_enc(mode, &key, &iv, &pt)
        };
        if got != ct {
            ctx.machinery_error(format!("reference {} disagrees with OpenSSL corpus entry (len {})", mode, pt.len()));
            return;
        }
        n += 1;
    }
    ctx.cov("openssl_corpus_entries_reproduced_by_reference", serde_json::json!(n));
}
