//! C08 — ZUC keystream matches the specification however it is requested (E1 over request histories)
use crate::alpha::seeded;
use crate::engine::*;
use refmodels::zuc;
use serde::{Deserialize, Serialize};
use serde_json::{json, Value};
use std::sync::Arc;

#[derive(Serialize, Deserialize, Clone, Debug)]
pub enum Case {
    /// request sizes on one generator
    History { key: String, iv: String, sizes: Vec<usize> },
    /// `total` words in `parts` equal requests
    Long { key: String, iv: String, total: usize, parts: usize },
    /// every request of the history is served on a NEW thread (the generator is moved from thread to thread)
    Migrating { key: String, iv: String, sizes: Vec<usize> },
}

fn h16(s: &str) -> [u8; 16] {
    hex::decode(s).unwrap().try_into().unwrap()
}

fn split_class(sizes: &[usize]) -> String {
    let zeros = sizes.iter().filter(|s| **s == 0).count();
    let shape = if sizes.len() <= 1 { "single-request" } else { "split" };
    format!("{}{}", shape, if zeros > 0 { "+empty-request" } else { "" })
}

fn eval(ctx: &Ctx, case: &Case) {
    ctx.state();
    let cj = || serde_json::to_value(case).unwrap();
    let site = "ZUC::generate_keystream";
    match case {
        Case::History { key, iv, sizes } => {
            let (k, v) = (h16(key), h16(iv));
            let total: usize = sizes.iter().sum();
            let want = zuc::keystream(&k, &v, total);
            ctx.trace();
            let r = guard(|| {
                let mut z = gm_zuc::ZUC::new(&k, &v);
                let mut out: Vec<Vec<u32>> = Vec::new();
                for s in sizes {
                    out.push(z.generate_keystream(*s));
                }
                out
            });
            ctx.calls(sizes.len() as u64 + 1);
            ctx.depth(sizes.len() as u64);
            match r {
                Guard::Panic(p) => ctx.violation(site, &format!("panic/{}", panic_site(&p)), format!("sizes={:?} {}", sizes, p), cj()),
                Guard::Done(parts) => {
                    for (i, p) in parts.iter().enumerate() {
                        if p.len() != sizes[i] {
                            ctx.violation(site, &format!("request-length/{}", split_class(sizes)), format!("sizes={:?} request {} returned {} words", sizes, i, p.len()), cj());
                            return;
                        }
                    }
                    let cat: Vec<u32> = parts.concat();
                    if cat != want {
                        let first = cat.iter().zip(want.iter()).position(|(a, b)| a != b).unwrap_or(0);
                        let pos = if first == 0 { "from-first-word" } else { "later-word" };
                        ctx.violation(site, &format!("keystream-mismatch/{}/{}", split_class(sizes), pos), format!("key={} iv={} sizes={:?} first_diff={} got={:08x?} want={:08x?}", key, iv, sizes, first, &cat[..cat.len().min(4)], &want[..want.len().min(4)]), cj());
                    } else {
                        ctx.outcome(&format!("ok/{}", split_class(sizes)));
                    }
                }
            }
        }
        Case::Migrating { key, iv, sizes } => {
            let (k, v) = (h16(key), h16(iv));
            let total: usize = sizes.iter().sum();
            let want = zuc::keystream(&k, &v, total);
            ctx.trace();
            ctx.calls(sizes.len() as u64 + 1);
            let r = guard(|| {
                let mut z = gm_zuc::ZUC::new(&k, &v);
                let mut out: Vec<u32> = Vec::new();
                for s in sizes {
                    let n = *s;
                    let zx = crate::engine::Xfer::new(z);
                    let (z2, part) = std::thread::spawn(move || {
                        let mut zx = zx;
                        let p = zx.get_mut().generate_keystream(n);
                        (zx, p)
                    })
                    .join()
                    .expect("worker");
                    z = z2.into_inner();
                    out.extend(part);
                }
                out
            });
            match r {
                Guard::Done(out) if out == want => ctx.outcome("ok/generator-moved-between-threads"),
                Guard::Done(out) => ctx.violation(site, "keystream-mismatch/generator-moved-between-threads", format!("key={} iv={} sizes={:?} got={:08x?}", key, iv, sizes, &out[..out.len().min(4)]), cj()),
                Guard::Panic(p) => ctx.violation(site, &format!("panic/{}", panic_site(&p)), p, cj()),
            }
        }
        Case::Long { key, iv, total, parts } => {
            let (k, v) = (h16(key), h16(iv));
            let mut rz = zuc::Zuc::with_cov(&k, &v);
            let want = rz.words(*total);
            ctx.trace();
            let per = total / parts;
            let r = guard(|| {
                let mut z = gm_zuc::ZUC::new(&k, &v);
                let mut out = Vec::with_capacity(*total);
                for _ in 0..*parts {
                    out.extend(z.generate_keystream(per));
                }
                out
            });
            ctx.calls(*parts as u64 + 1);
            match r {
                Guard::Panic(p) => ctx.violation(site, &format!("panic/{}", panic_site(&p)), p, cj()),
                Guard::Done(out) => {
                    if out != want {
                        let first = out.iter().zip(want.iter()).position(|(a, b)| a != b).unwrap_or(usize::MAX);
                        ctx.violation(site, "keystream-mismatch/long-stream", format!("key={} iv={} total={} parts={} first_diff={}", key, iv, total, parts, first), cj());
                    } else {
                        ctx.outcome("ok/long-stream");
                    }
                }
            }
            if let Some(c) = rz.cov.take() {
                let hit: usize = c.hit.iter().map(|t| t.iter().filter(|n| **n > 0).count()).sum();
                ctx.cov_add("sbox_position_index_hits_sum_over_long_streams", hit as u64);
                ctx.cov_add("s16_zero_branch_hits", c.s16_zero);
                if *total >= 1 << 14 && hit != 1024 {
                    ctx.machinery_error(format!("long stream indexed only {} of 1024 (position, S-box index) pairs", hit));
                }
            }
        }
    }
}

pub fn replay(ctx: &Arc<Ctx>, v: &Value) {
    if crate::cold::replay(ctx, v) {
        return;
    }
    let c: Case = serde_json::from_value(v.clone()).expect("C08 case");
    eval(ctx, &c);
}

fn key_ivs(ctx: &Ctx) -> Vec<(String, String)> {
    vec![
        ("00".repeat(16), "00".repeat(16)),
        ("ff".repeat(16), "ff".repeat(16)),
        ("3d4c4be96a82fdaeb58f641db17b455b".into(), "84319aa8de6915ca1f6bda6bfbd8c766".into()),
        (hex::encode(seeded(ctx.seed, "c08k1", 16)), hex::encode(seeded(ctx.seed, "c08iv1", 16))),
        (hex::encode(seeded(ctx.seed, "c08k2", 16)), hex::encode(seeded(ctx.seed, "c08iv2", 16))),
    ]
}

fn explore_splits(ctx: &Arc<Ctx>, kivs: Vec<(String, String)>, tmax: usize, zmax: usize, nmax: usize, label: &str) {
    let c2 = ctx.clone();
    let kv = Arc::new(kivs);
    let kv2 = kv.clone();
    // history = [key index, request sizes...]
    let model = HistModel {
        batch: 64,
        inits: (0..kv.len() as u16).map(|i| vec![i]).collect(),
        actions: Box::new(move |h: &[u16]| {
            let total: usize = h[1..].iter().map(|x| *x as usize).sum();
            let zeros = h[1..].iter().filter(|x| **x == 0).count();
            let mut a = Vec::new();
            for n in 0..=nmax {
                if n == 0 {
                    if zeros < zmax {
                        a.push(0u16);
                    }
                } else if total + n <= tmax {
                    a.push(n as u16);
                }
            }
            a
        }),
        visit: Arc::new(move |h: &[u16]| {
            let (k, v) = &kv2[h[0] as usize];
            let sizes: Vec<usize> = h[1..].iter().map(|x| *x as usize).collect();
            let c = Case::History { key: k.clone(), iv: v.clone(), sizes };
            eval(&c2, &c);
            prefix_push(serde_json::to_value(&c).unwrap());
        }),
    };
    let st = explore(model);
    ctx.depth(st.max_depth);
    ctx.cov(label, json!({"key_iv_pairs": kv.len(), "max_total_words": tmax, "max_empty_requests": zmax, "unique_states": st.unique_states, "generated": st.generated, "max_depth": st.max_depth}));
}

/// request sizes around the register length (16 cells) and its multiples, in every sequence of up to `depth` requests
const BIG_SIZES: [u16; 9] = [15, 16, 17, 21, 31, 32, 33, 47, 64];
fn explore_big(ctx: &Arc<Ctx>, kivs: Vec<(String, String)>, depth: usize) {
    let c2 = ctx.clone();
    let kv = Arc::new(kivs);
    let kv2 = kv.clone();
    let model = HistModel {
        batch: 64,
        inits: (0..kv.len() as u16).map(|i| vec![i]).collect(),
        actions: Box::new(move |h: &[u16]| if h.len() - 1 < depth { let mut a = BIG_SIZES.to_vec(); a.push(0); a.push(3); a } else { vec![] }),
        visit: Arc::new(move |h: &[u16]| {
            if h.len() < 3 {
                return;
            }
            let (k, v) = &kv2[h[0] as usize];
            let sizes: Vec<usize> = h[1..].iter().map(|x| *x as usize).collect();
            let c = Case::History { key: k.clone(), iv: v.clone(), sizes };
            eval(&c2, &c);
            prefix_push(serde_json::to_value(&c).unwrap());
        }),
    };
    let st = explore(model);
    ctx.cov("long_request_sequence_model", json!({"key_iv_pairs": kv.len(), "sizes": BIG_SIZES, "plus": [0, 3], "max_requests": depth, "unique_states": st.unique_states, "generated": st.generated}));
}

/// `gmverif tool search-zuc`: key/IV pairs for which the LFSR feedback is 0 mod 2^31-1 in WORK mode within the first 64
/// words (the s16 = 0 -> 2^31-1 replacement outside initialisation); writes corpus/zuc_s16_zero_work.json
pub fn search_s16_zero_work() {
    use rayon::prelude::*;
    use std::sync::atomic::{AtomicU64, Ordering};
    let found = AtomicU64::new(0);
    let out = std::sync::Mutex::new(Vec::<Value>::new());
    (0..(1u64 << 16)).into_par_iter().for_each(|c| {
        if found.load(Ordering::Relaxed) >= 3 {
            return;
        }
        for i in 0..(1u64 << 12) {
            let ctr = (c << 12) | i;
            let mut k = [0u8; 16];
            k[..8].copy_from_slice(&ctr.to_be_bytes());
            k[15] = 0x5a;
            let iv: [u8; 16] = core::array::from_fn(|j| (j as u8).wrapping_mul(17));
            let mut z = zuc::Zuc::with_cov(&k, &iv);
            let init_hits = z.cov.as_ref().map(|c| c.s16_zero).unwrap_or(0);
            let _ = z.words(64);
            let hits = z.cov.as_ref().map(|c| c.s16_zero).unwrap_or(0);
            if hits > init_hits && found.fetch_add(1, Ordering::Relaxed) < 3 {
                eprintln!("found work-mode s16 = 0 for key {}", hex::encode(k));
                out.lock().unwrap().push(json!({"key": hex::encode(k), "iv": hex::encode(iv)}));
                let _ = std::fs::write(format!("{}/corpus/zuc_s16_zero_work.json", VERIF_ROOT), serde_json::to_string_pretty(&*out.lock().unwrap()).unwrap());
            }
        }
    });
    eprintln!("done: {}", out.lock().unwrap().len());
}

pub fn run(ctx: &Arc<Ctx>) {
    refmodels::selftest::run(&["zuc"]).unwrap_or_else(|e| ctx.machinery_error(format!("reference self-test failed: {}", e)));
    let zmax = ctx.tier.pick(1usize, 2);
    ctx.set_rule("stateright BFS over request histories on the real generator: every composition of every total <= 12 words with every placement of up to Zmax empty requests, per key/IV in {0/0, FF/FF, official vector 3, 2 seeded}; thorough adds the 256 single-bit keys and IVs with total <= 4. Invariant in every state: concatenation of returned words = reference keystream prefix and each request returns exactly the number of words asked. Crafted key/IV pairs whose first initialisation round has LFSR feedback = 0 mod 2^31-1 (the s16=0 replacement). Every sequence of up to 3 (thorough 4) requests over sizes {0,3,15,16,17,21,31,32,33,47,64} (requests longer than the 16-cell register). Pre-searched key/IV pairs whose feedback is 0 in work mode. Long streams: 2^16 words in one request and in 2^8 equal requests. Oracle: independent ZUC (u64 arithmetic mod 2^31-1, generated S-boxes) pinned by the three official vectors.");
    ctx.note_bound(format!("T={} Zmax={}", ctx.tier.pick(12, 16), zmax));
    let tmax = ctx.tier.pick(12usize, 16);
    explore_splits(ctx, key_ivs(ctx), tmax, zmax, tmax, "split_model");
    ctx.sample(json!({"History": {"key": "00".repeat(16), "iv": "00".repeat(16), "sizes": [3, 0, 1, 8]}}));
    let single_bit_t = ctx.tier.pick(2usize, 6);
    {
        let mut kivs = Vec::new();
        for bit in 0..128 {
            let mut b = [0u8; 16];
            b[bit / 8] = 0x80 >> (bit % 8);
            kivs.push((hex::encode(b), "00".repeat(16)));
            kivs.push(("00".repeat(16), hex::encode(b)));
        }
        explore_splits(ctx, kivs, single_bit_t, 0, single_bit_t, "single_bit_key_iv_model");
    }
    // crafted key/IV pairs that hit the s16 == 0 replacement in the first initialisation round
    let mut crafted: Vec<(String, String)> = Vec::new();
    for i in 0..4u64 {
        let bk: [u8; 16] = seeded(ctx.seed ^ i, "c08craftk", 16).try_into().unwrap();
        let bi: [u8; 16] = seeded(ctx.seed ^ i, "c08crafti", 16).try_into().unwrap();
        for (k, v) in zuc::craft_s16_zero(&bk, &bi) {
            crafted.push((hex::encode(k), hex::encode(v)));
        }
    }
    ctx.cov("crafted_key_iv_pairs_hitting_s16_zero_in_init_round_1", json!(crafted.len()));
    if crafted.is_empty() {
        ctx.machinery_error("no crafted s16==0 key/IV pair found");
    } else {
        ctx.sample(json!({"History": {"key": crafted[0].0, "iv": crafted[0].1, "sizes": [2, 2]}}));
        crafted.truncate(8);
        explore_splits(ctx, crafted, 4, 1, 4, "crafted_s16_zero_model");
    }
    // sequences of requests that are longer than the 16-cell register
    explore_big(ctx, key_ivs(ctx), ctx.tier.pick(3usize, 4));
    ctx.sample(json!({"History": {"key": "00".repeat(16), "iv": "00".repeat(16), "sizes": [21, 0, 33]}}));
    // pre-searched key/IV pairs whose LFSR feedback is 0 mod 2^31-1 in work mode within the first 64 words
    {
        let pairs: Vec<(String, String)> = std::fs::read_to_string(format!("{}/corpus/zuc_s16_zero_work.json", VERIF_ROOT)).ok().and_then(|t| serde_json::from_str::<Value>(&t).ok()).and_then(|v| v.as_array().cloned()).unwrap_or_default().iter().map(|e| (e["key"].as_str().unwrap().to_string(), e["iv"].as_str().unwrap().to_string())).collect();
        let mut confirmed = 0;
        for (k, v) in &pairs {
            let mut z = zuc::Zuc::with_cov(&h16(k), &h16(v));
            let init = z.cov.as_ref().map(|c| c.s16_zero).unwrap_or(0);
            let _ = z.words(64);
            if z.cov.as_ref().map(|c| c.s16_zero).unwrap_or(0) > init {
                confirmed += 1;
            }
            for sizes in [vec![64usize], vec![20, 44], vec![1; 64]] {
                eval(ctx, &Case::History { key: k.clone(), iv: v.clone(), sizes });
            }
        }
        ctx.cov("key_iv_pairs_hitting_s16_zero_in_work_mode", json!({"in_corpus": pairs.len(), "confirmed_by_reference_branch_counter": confirmed}));
        if pairs.is_empty() || confirmed != pairs.len() {
            ctx.machinery_error(format!("corpus/zuc_s16_zero_work.json: {} pairs, {} confirmed", pairs.len(), confirmed));
        }
    }
    for (k, v) in key_ivs(ctx) {
        for sizes in [vec![1usize, 1, 1], vec![3, 0, 17, 2], vec![16, 16], vec![5]] {
            eval(ctx, &Case::Migrating { key: k.clone(), iv: v.clone(), sizes });
        }
    }
    let (k, v) = key_ivs(ctx)[3].clone();
    let long_total = 1usize << 16;
    for parts in [1usize, 1 << 8] {
        let c = Case::Long { key: k.clone(), iv: v.clone(), total: long_total, parts };
        eval(ctx, &c);
        ctx.sample(serde_json::to_value(&c).unwrap());
    }
    let (k, v) = key_ivs(ctx)[2].clone();
    eval(ctx, &Case::Long { key: k, iv: v, total: long_total, parts: 16 });
    ctx.assume("the LFSR s16 == 0 replacement is exercised in the first initialisation round (crafted key/IV pairs) and in work mode (pre-searched key/IV pairs), both confirmed by the reference's branch counter; other rounds only by chance");
    crate::cold::check(ctx, "C08");
}
