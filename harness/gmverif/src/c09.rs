//! C09 — SM9 signatures verify, conform to GM/T 0044.2, and forgeries are rejected
use crate::alpha::content;
use crate::c03::gdbg;
use crate::engine::*;
use crate::sm9api::*;
use gm_sm9::key::{Sm9SignKey, Sm9SignMasterKey};
use num_bigint::BigUint;
use num_traits::{One, Zero};
use refmodels::sm9::{self, F12, G1, G2};
use refmodels::util::{from_limbs, hexbig as hb, to_limbs, SplitMix};
use serde::{Deserialize, Serialize};
use serde_json::{json, Value};
use std::collections::HashMap;
use std::sync::{Arc, Mutex};

#[derive(Serialize, Deserialize, Clone, Debug)]
pub enum Case {
    /// honest signing with nonce r (via the seam): exact value, range, self/cross verification
    Sign { ks: String, id: String, msg_len: usize, r: String, tag: String },
    /// a signature made by the reference for (ks, id, msg, r), altered as `forge` says, must be refused
    /// (forge = "none" / "rerandomised-S" must be accepted)
    Verify { ks: String, id: String, msg_len: usize, r: String, forge: String },
    /// master key N - H1(ID||01) + delta: for delta = 0 no signing key exists (extraction must report failure), for
    /// delta = +-1 one exists and its signatures verify
    NoKey { id: String, delta: i32 },
}

fn ident(spec: &str, seed: u64) -> Vec<u8> {
    if let Some(n) = spec.strip_prefix("len:") {
        content("seed", n.parse().unwrap(), seed ^ 0x1d)
    } else {
        spec.as_bytes().to_vec()
    }
}

/// per master key: (Ppub-s, g = e(P1, Ppub-s)) computed once by the reference
fn master(ks: &BigUint) -> (G2, F12) {
    static M: Mutex<Option<HashMap<BigUint, (G2, F12)>>> = Mutex::new(None);
    if let Some(v) = M.lock().unwrap().get_or_insert_with(HashMap::new).get(ks) {
        return v.clone();
    }
    let ppubs = sm9::g2_mul(ks, &sm9::params().p2);
    let g = sm9::sign_g(&ppubs);
    M.lock().unwrap().as_mut().unwrap().insert(ks.clone(), (ppubs.clone(), g.clone()));
    (ppubs, g)
}

fn lib_master(ks: &BigUint, ppubs: &G2) -> Sm9SignMasterKey {
    Sm9SignMasterKey { ks: to_limbs(ks), ppubs: lib_g2_affine(ppubs) }
}

pub fn eval(ctx: &Ctx, case: &Case) {
    ctx.state();
    let cj = || serde_json::to_value(case).unwrap();
    let pr = sm9::params();
    let n = &pr.n;
    match case {
        Case::Sign { ks, id, msg_len, r, tag } => {
            let (ks, r) = (hb(ks), hb(r));
            let idb = ident(id, ctx.seed);
            let msg = if tag == "annex-example" { b"Chinese IBS standard".to_vec() } else { content("seed", *msg_len, ctx.seed) };
            let (ppubs, g) = master(&ks);
            let Some(ds) = sm9::extract_sign_key(&ks, &idb) else { return };
            let msk = lib_master(&ks, &ppubs);
            ctx.call();
            let key: Sm9SignKey = match guard(|| msk.extract_key(&idb)) {
                Guard::Done(Some(k)) => k,
                other => {
                    ctx.violation("Sm9SignMasterKey::extract_key", &format!("no-key/{}", tag), gdbg(&other.map(|o| o.is_some())), cj());
                    return;
                }
            };
            // tag ".../Zq=<name>/Zp=<name>": the key objects hold Ppub-s (G2) and ds (G1) in those Jacobian representations
            let (mut key, mut msk) = (key, msk);
            if let Some((zq, zp)) = z_names(tag) {
                msk.ppubs = lib_g2(&ppubs, &z2_named(&zq, ctx.seed));
                key.ppubs = msk.ppubs;
                key.ds = lib_g1(&ds, &z1_named(&zp, ctx.seed));
            }
            let mut gsm = SplitMix::new(ctx.seed, "c09filler");
            let mut q = vec![cand(&r)];
            for _ in 0..4 {
                q.push(cand(&gsm.nonzero_below(&(n - 2u32))));
            }
            let (res, log) = with_rng(q, || key.sign(&msg));
            ctx.call();
            let site = "Sm9SignKey::sign";
            let (h, s) = match res {
                Guard::Done(Ok(v)) => v,
                Guard::Done(Err(e)) => {
                    ctx.violation(site, &format!("unexpected-err/{}", tag), format!("{:?}", e), cj());
                    return;
                }
                Guard::Panic(p) => {
                    let c = if is_exhausted(&p) { format!("nonce-loop-did-not-terminate/{}", tag) } else { format!("panic/{}/{}", panic_site(&p), tag) };
                    ctx.violation(site, &c, p, cj());
                    return;
                }
            };
            let hv = from_limbs(&h);
            let sv = ref_g1(&s);
            if hv.is_zero() || hv >= *n {
                ctx.violation(site, &format!("h-out-of-range/{}", tag), hexbig(&hv), cj());
                return;
            }
            if sv.is_none() || !pr.e1.on_curve(&sv) {
                ctx.violation(site, &format!("S-not-on-curve/{}", tag), g1_str(&sv), cj());
                return;
            }
            let Some(r_used) = log.accepted.last().map(from_limbs) else {
                ctx.violation(site, &format!("no-nonce-drawn/{}", tag), String::new(), cj());
                return;
            };
            if tag == "annex-example" && (hexbig(&hv) != "823c4b21e4bd2dfe1ed92c606653e996668563152fc33f55d7bfbb9bd9705adb" || sv.as_ref().map(|p| hexbig(&p.0)) != Some("73bf96923ce58b6ad0e13e9643a406d8eb98417c50ef1b29cef9adb48b6d598c".to_string())) {
                ctx.violation(site, "value-mismatch/GMT0044.5-example", format!("h={} S={}", hexbig(&hv), g1_str(&sv)), cj());
                return;
            }
            ctx.trace();
            match sm9::sign_with_r(&g, &ds, &msg, &r_used) {
                Some((h0, s0)) if h0 == hv && s0 == sv => {}
                Some((h0, s0)) => {
                    let what = if h0 != hv { "h" } else { "S" };
                    ctx.violation(site, &format!("value-mismatch/{}/{}", what, tag), format!("ks={} id={} mlen={} r={} got h={} S={} want h={} S={}", hexbig(&ks), id, msg_len, hexbig(&r_used), hexbig(&hv), g1_str(&sv), hexbig(&h0), g1_str(&s0)), cj());
                    return;
                }
                None => {
                    ctx.violation(site, &format!("degenerate-nonce-used/{}", tag), hexbig(&r_used), cj());
                    return;
                }
            }
            // the library verifies its own signature
            ctx.call();
            match guard(|| msk.verify_sign(&idb, &msg, &h, &s)) {
                Guard::Done(Ok(())) => ctx.outcome(&format!("ok/sign/{}", tag)),
                other => ctx.violation("Sm9SignMasterKey::verify_sign", &format!("own-signature-rejected/{}", tag), gdbg(&other), cj()),
            }
        }
        Case::NoKey { id, delta } => {
            let idb = ident(id, ctx.seed);
            let h1 = sm9::h1(&idb, sm9::HID_SIGN);
            let ks = ((n - &h1) + n + BigUint::from((*delta + 1) as u32) - 1u32) % n;
            if ks.is_zero() {
                return;
            }
            let (ppubs, _) = master(&ks);
            let msk = lib_master(&ks, &ppubs);
            ctx.call();
            ctx.trace();
            let want_some = sm9::extract_sign_key(&ks, &idb).is_some();
            match guard(|| msk.extract_key(&idb)) {
                Guard::Done(k) if k.is_some() == want_some => ctx.outcome(&format!("ok/extract/H1+ks={}", delta)),
                Guard::Done(k) => ctx.violation("Sm9SignMasterKey::extract_key", &format!("failure-reporting/H1+ks={}", delta), format!("ks={} got={} want={}", hexbig(&ks), if k.is_some() { "Some" } else { "None" }, if want_some { "Some" } else { "None" }), cj()),
                Guard::Panic(p) => ctx.violation("Sm9SignMasterKey::extract_key", &format!("panic/{}", panic_site(&p)), p, cj()),
            }
        }
        Case::Verify { ks, id, msg_len, r, forge } => {
            let (ks, r) = (hb(ks), hb(r));
            let idb = ident(id, ctx.seed);
            let msg = content("seed", *msg_len, ctx.seed);
            let (ppubs, g) = master(&ks);
            let Some(ds) = sm9::extract_sign_key(&ks, &idb) else { return };
            let Some((h, s)) = sm9::sign_with_r(&g, &ds, &msg, &r) else { return };
            ctx.trace();
            let mut msk = lib_master(&ks, &ppubs);
            let (mut hh, mut ss, mut m2, mut id2) = (h.clone(), lib_g1_affine(&s), msg.clone(), idb.clone());
            let mut expect_ok = false;
            let (sx, sy) = s.clone().unwrap();
            let two256: BigUint = BigUint::one() << 256usize;
            let f = forge.as_str();
            if let Some(bit) = f.strip_prefix("h-bit:") {
                let b: usize = bit.parse().unwrap();
                hh = &h ^ (BigUint::one() << (255 - b));
            } else {
                match f {
                    "none" => expect_ok = true,
                    "rerandomised-S" => {
                        ss = lib_g1(&s, &SplitMix::new(ctx.seed, "c09lambda").nonzero_below(&pr.p));
                        expect_ok = true;
                    }
                    // a verifier holds the master PUBLIC key only: the secret field of the object is a dummy
                    "public-only-verifier/ks=0" | "public-only-verifier/ks=1" | "public-only-verifier/ks=seed" => {
                        let dummy = if f.ends_with("=0") { BigUint::zero() } else if f.ends_with("=1") { BigUint::one() } else { SplitMix::new(ctx.seed, "c09dummy").nonzero_below(n) };
                        msk = lib_master(&dummy, &ppubs);
                        expect_ok = true;
                    }
                    "h=0" => hh = BigUint::zero(),
                    "h=1" => hh = BigUint::one(),
                    "h=N-1" => hh = n - 1u32,
                    "h=N" => hh = n.clone(),
                    "h=N+1" => hh = n + 1u32,
                    "h=2^256-1" => hh = &two256 - 1u32,
                    "h+N" => {
                        if &h + n >= two256 {
                            return;
                        }
                        hh = &h + n;
                    }
                    "S=-S" => ss = lib_g1_affine(&pr.e1.neg(&s)),
                    "S=2S" => ss = lib_g1_affine(&sm9::g1_add(&s, &s)),
                    "S=P1" => ss = lib_g1_affine(&pr.p1),
                    "S=ds" => ss = lib_g1_affine(&ds),
                    "S=infinity" => ss = lib_g1(&None, &BigUint::one()),
                    "S=infinity/h=H2(M||0)" | "S=infinity/h=H2(M||1)" => {
                        // universal-forgery shapes: if the pairing of O collapses w' to a constant, h = H2(M || const) verifies
                        ss = lib_g1(&None, &BigUint::one());
                        let w = if f.ends_with("0)") { vec![0u8; 384] } else { sm9::f12_bytes(&sm9::f12_one()) };
                        hh = sm9::h2(&msg, &w);
                    }
                    f2 if f2.starts_with("S=degenerate") => {
                        // S=degenerate(x,y)/h=H2(M||w): off-curve points with a zero coordinate make every line value lie in a
                        // subfield; if the pairing then collapses to a constant w (0, 1), h = H2(M || w) verifies for everybody
                        let (xy, hw) = f2["S=degenerate".len()..].split_once('/').unwrap();
                        let (dx, dy) = match xy {
                            "(0,0)" => (BigUint::zero(), BigUint::zero()),
                            "(0,1)" => (BigUint::zero(), BigUint::one()),
                            "(1,0)" => (BigUint::one(), BigUint::zero()),
                            _ => panic!("unknown degenerate point"),
                        };
                        ss = lib_g1_raw(&dx, &dy);
                        let w = if hw.ends_with("0)") { vec![0u8; 384] } else { sm9::f12_bytes(&sm9::f12_one()) };
                        hh = sm9::h2(&msg, &w);
                    }
                    "S=off-curve(y+1)" => ss = lib_g1_raw(&sx, &((&sy + 1u32) % &pr.p)),
                    "S=off-curve(x+1)" => ss = lib_g1_raw(&((&sx + 1u32) % &pr.p), &sy),
                    "S=(0,0)" => ss = lib_g1_raw(&BigUint::zero(), &BigUint::zero()),
                    "msg-bitflip" => {
                        if m2.is_empty() {
                            m2.push(0);
                        } else {
                            m2[0] ^= 1;
                        }
                    }
                    "msg-extended" => m2.push(0),
                    "id-changed" => id2.push(b'x'),
                    "other-master-public-key" => {
                        let other = sm9::g2_mul(&(&ks + 1u32), &pr.p2);
                        msk = lib_master(&ks, &other);
                    }
                    _ => panic!("unknown forge {}", f),
                }
            }
            let hl = to_limbs(&hh);
            ctx.call();
            let res = guard(|| msk.verify_sign(&id2, &m2, &hl, &ss));
            let site = "Sm9SignMasterKey::verify_sign";
            let fclass = if f.starts_with("h-bit:") { "h-bitflip" } else { f };
            match (res, expect_ok) {
                (Guard::Done(Ok(())), true) => ctx.outcome(&format!("accepted/{}", fclass)),
                (Guard::Done(Err(_)), false) => ctx.outcome(&format!("rejected/{}", fclass)),
                (Guard::Done(Ok(())), false) => ctx.violation(site, &format!("forgery-accepted/{}", fclass), format!("forge={}", f), cj()),
                (Guard::Done(Err(e)), true) => ctx.violation(site, &format!("valid-signature-rejected/{}", fclass), format!("{:?}", e), cj()),
                (Guard::Panic(p), _) => ctx.violation(site, &format!("panic/{}/{}", panic_site(&p), fclass), p, cj()),
            }
        }
    }
}

pub fn replay(ctx: &Arc<Ctx>, v: &Value) {
    if crate::cold::replay(ctx, v) {
        return;
    }
    let c: Case = serde_json::from_value(v.clone()).expect("C09 case");
    eval(ctx, &c);
}

pub const ANNEX_KS: &str = "000130E78459D78545CB54C587E02CF480CE0B66340F319F348A1D5B1F2DC5F4";
pub const ANNEX_R: &str = "00033C8616B06704813203DFD00965022ED15975C662337AED648835DC4B1CBE";

pub fn run(ctx: &Arc<Ctx>) {
    refmodels::selftest::run(&["sm3", "sm9"]).unwrap_or_else(|e| ctx.machinery_error(format!("reference self-test failed: {}", e)));
    let n = sm9::params().n.clone();
    ctx.set_rule("signing: master keys {Annex ks, 1, N-2, seeded, H1(ID), 2^256-H1(ID)+{-1,0,1}} x nonces r (via the RNG seam) {1,2,N-2,Annex r,2^255,seeded x2} at one identity/message, identities {Alice,'',64 bytes,seeded, 12 normalisation-sensitive variants of one name} x message lengths {0,1,20,55,56,64,1024} and every message length 0..=300 (thorough 1200) at one (master, r), key objects holding Ppub-s / ds in Jacobian representations with structured Z (Z in Fp, purely imaginary, generic): (h,S) equals the reference signature for the accepted r (incl. the GM/T 0044.5 example), h in [1,N-1], S on the curve, the library verifies it. Verification: reference-made signatures must be accepted as they are, with S in another Jacobian representation and by a verifier object whose secret field is a dummy (public key only); all 256 single-bit flips of h, h in {0,1,N-1,N,N+1,2^256-1,h+N}, S in {-S,2S,P1,ds,infinity,off-curve,(0,0)}, altered message / identity / master public key must be refused with an error, never a panic.");
    let mut g = SplitMix::new(ctx.seed, "c09");
    // ks = H1(Alice||01): [H1]P2 + Ppub-s is then a doubling inside verification
    let masters: Vec<(String, BigUint)> = vec![("annex".into(), hb(ANNEX_KS)), ("1".into(), BigUint::one()), ("N-2".into(), &n - 2u32), ("seed".into(), g.nonzero_below(&n)), ("H1(ID)".into(), sm9::h1(b"Alice", sm9::HID_SIGN)), ("N-1".into(), &n - 1u32), ("(H1+ks)^-1=2".into(), (BigUint::from(2u32).modpow(&(&n - 2u32), &n) + &n - sm9::h1(b"Alice", sm9::HID_SIGN)) % &n), ("(H1+ks)^-1=2^64+1".into(), (((BigUint::one() << 64usize) + 1u32).modpow(&(&n - 2u32), &n) + &n - sm9::h1(b"Alice", sm9::HID_SIGN)) % &n)];
    let rs: Vec<(String, BigUint)> = vec![("1".into(), BigUint::one()), ("2".into(), BigUint::from(2u32)), ("N-2".into(), &n - 2u32), ("annex".into(), hb(ANNEX_R)), ("2^255+1".into(), (BigUint::one() << 255usize) + 1u32), ("seed".into(), g.nonzero_below(&(&n - 2u32))), ("seed".into(), g.nonzero_below(&(&n - 2u32)))];
    let ids = ["Alice", "", "len:64", "len:13"];
    let mlens = [0usize, 1, 20, 55, 56, 64, 1024];
    let mut cases: Vec<Case> = Vec::new();
    // the Annex example: Alice, "Chinese IBS standard" is 20 bytes of fixed text; content("seed") differs, so the exact
    // Annex bytes are pinned in the reference self-test and the library is compared with the reference on every case
    cases.push(Case::Sign { ks: ANNEX_KS.into(), id: "Alice".into(), msg_len: 20, r: ANNEX_R.into(), tag: "annex-example".into() });
    for (mn, ks) in &masters {
        for (rn, r) in &rs {
            cases.push(Case::Sign { ks: hexbig(ks), id: "Alice".into(), msg_len: 20, r: hexbig(r), tag: format!("ks={}/r={}", mn, rn) });
        }
    }
    for id in ids {
        for ml in mlens {
            cases.push(Case::Sign { ks: ANNEX_KS.into(), id: id.into(), msg_len: ml, r: ANNEX_R.into(), tag: format!("id={}/mlen={}", if id.starts_with("len:") { id } else { "text" }, ml) });
        }
    }
    for id in ["Alice", "Bob", ""] {
        for delta in [-1i32, 0, 1] {
            cases.push(Case::NoKey { id: id.into(), delta });
        }
    }
    // identities whose H1 is extreme: the largest and the smallest of 400 candidates and one above 2^257/3 (the
    // verifier multiplies P2 by H1: scalars near N, with a top bit pattern a signed-digit recoding extends by one digit)
    {
        let mut hs: Vec<(BigUint, String)> = (0..400).map(|i| format!("user{}", i)).map(|s| (sm9::h1(s.as_bytes(), sm9::HID_SIGN), s)).collect();
        hs.sort();
        let third: BigUint = (BigUint::one() << 257usize) / 3u32;
        let mut picks = vec![hs[0].1.clone(), hs[1].1.clone(), hs[hs.len() - 1].1.clone(), hs[hs.len() - 2].1.clone()];
        if let Some((_, s)) = hs.iter().find(|(h, _)| *h > third) {
            picks.push(s.clone());
        }
        for id in picks {
            cases.push(Case::Sign { ks: ANNEX_KS.into(), id, msg_len: 20, r: ANNEX_R.into(), tag: "id=extreme-H1".into() });
        }
    }
    // identities a normalising implementation would alter
    for id in crate::alpha::NORM_IDS {
        cases.push(Case::Sign { ks: ANNEX_KS.into(), id: id.into(), msg_len: 20, r: ANNEX_R.into(), tag: "id=normalisation-sensitive".into() });
    }
    // every identity length 0..=300 (step 3 in the quick tier) at one (master, message, r)
    for il in (0..=300usize).step_by(ctx.tier.pick(3usize, 1)) {
        cases.push(Case::Sign { ks: ANNEX_KS.into(), id: format!("len:{}", il), msg_len: 20, r: ANNEX_R.into(), tag: "idlen-sweep".into() });
    }
    // identities on both sides of the 16-bit bit-length limit that SM2 has and SM9 has not (8191 / 8192 bytes), and of 2^16 bytes
    for il in [8191usize, 8192, 9000, 65535, 65536, 70000] {
        cases.push(Case::Sign { ks: ANNEX_KS.into(), id: format!("len:{}", il), msg_len: 20, r: ANNEX_R.into(), tag: "id-of-8191-bytes-and-more".into() });
    }
    // every message length 0..=300 at one (master, identity, r): the hash input 02 || M || w crosses every buffer size
    for ml in 0..=ctx.tier.pick(300usize, 1200) {
        cases.push(Case::Sign { ks: ANNEX_KS.into(), id: "Alice".into(), msg_len: ml, r: ANNEX_R.into(), tag: "mlen-sweep".into() });
    }
    // key objects in other Jacobian representations (the fields are public; extract_key and decoders produce both kinds)
    for (i, zq) in Z2_NAMES.iter().enumerate() {
        let zp = Z1_NAMES[i % Z1_NAMES.len()];
        cases.push(Case::Sign { ks: ANNEX_KS.into(), id: "Alice".into(), msg_len: 20, r: ANNEX_R.into(), tag: format!("key-objects/Zq={}/Zp={}", zq, zp) });
    }
    // ks with H1(ID||01) + ks = 2^256 (+-1): the modular addition inside extraction carries out of 256 bits
    {
        let two256: BigUint = BigUint::one() << 256usize;
        let mut found = 0;
        for id in ["Alice", "Bob", "Carol", "Dave", "", "len:13"] {
            let h = sm9::h1(&ident(id, ctx.seed), sm9::HID_SIGN);
            for (t, target) in [("2^256-1", &two256 - 1u32), ("2^256", two256.clone()), ("2^256+1", &two256 + 1u32)] {
                if target > h && &target - &h < n {
                    cases.push(Case::Sign { ks: hexbig(&(&target - &h)), id: id.into(), msg_len: 20, r: ANNEX_R.into(), tag: format!("H1+ks={}", t) });
                    found += 1;
                }
            }
        }
        ctx.cov("masters_at_the_2^256_carry_boundary", json!(found));
    }
    if ctx.tier == Tier::Thorough {
        for (mn, ks) in &masters {
            for (rn, r) in rs.iter().step_by(2) {
                for id in ids {
                    for ml in [0usize, 55, 64] {
                        cases.push(Case::Sign { ks: hexbig(ks), id: id.into(), msg_len: ml, r: hexbig(r), tag: format!("ks={}/r={}/3way", mn, rn) });
                    }
                }
            }
        }
    }
    let nbase = ctx.tier.pick(4usize, 48);
    let mut forges: Vec<String> = vec!["none", "rerandomised-S", "public-only-verifier/ks=0", "public-only-verifier/ks=1", "public-only-verifier/ks=seed", "h=0", "h=1", "h=N-1", "h=N", "h=N+1", "h=2^256-1", "h+N", "S=-S", "S=2S", "S=P1", "S=ds", "S=infinity", "S=infinity/h=H2(M||0)", "S=infinity/h=H2(M||1)", "S=off-curve(y+1)", "S=off-curve(x+1)", "S=(0,0)", "S=degenerate(0,0)/h=H2(M||0)", "S=degenerate(0,0)/h=H2(M||1)", "S=degenerate(0,1)/h=H2(M||0)", "S=degenerate(0,1)/h=H2(M||1)", "S=degenerate(1,0)/h=H2(M||0)", "S=degenerate(1,0)/h=H2(M||1)", "msg-bitflip", "msg-extended", "id-changed", "other-master-public-key"].iter().map(|s| s.to_string()).collect();
    for b in 0..256 {
        forges.push(format!("h-bit:{}", b));
    }
    for b in 0..nbase {
        let (_, ks) = &masters[b % masters.len()];
        let (_, r) = &rs[(b * 3 + 3) % rs.len()];
        let id = ids[b % ids.len()];
        let ml = mlens[(b * 2 + 2) % mlens.len()];
        for f in &forges {
            cases.push(Case::Verify { ks: hexbig(ks), id: id.into(), msg_len: ml, r: hexbig(r), forge: f.clone() });
        }
    }
    ctx.note_bound(format!("{} base signatures for forgeries, {} cases", nbase, cases.len()));
    ctx.sample(serde_json::to_value(&cases[3]).unwrap());
    ctx.sample(serde_json::to_value(&cases[cases.len() - 1]).unwrap());
    run_cases(ctx, &cases, 4, eval);
    {
        let mut items = Vec::new();
        for (ks, id) in [(&masters[0].1, "Alice"), (&masters[3].1, "Alice"), (&masters[0].1, "len:13"), (&masters[3].1, "len:13")] {
            items.push(Case::Verify { ks: hexbig(ks), id: id.into(), msg_len: 20, r: hexbig(&rs[5].1), forge: "none".into() });
        }
        // a signature made under master A presented under master B's public key must be refused wherever it sits in the sequence
        let cross = Case::Verify { ks: hexbig(&masters[0].1), id: "Alice".into(), msg_len: 20, r: hexbig(&rs[5].1), forge: "other-master-public-key".into() };
        let mut seqs = permutations(&items);
        for p in permutations(&[items[0].clone(), cross.clone(), items[1].clone(), items[2].clone()]) {
            seqs.push(p);
        }
        ctx.cov("related_input_sequences", json!(seqs.len()));
        run_sequences(ctx, &seqs, eval);
    }
    crate::cold::check(ctx, "C09");
}
