//! C10 — SM9 encryption round-trips, conforms to GM/T 0044.4, and is tamper-evident
use crate::alpha::content;
use crate::c03::gdbg;
use crate::engine::*;
use crate::sm9api::*;
use gm_sm9::fields::FieldElement;
use gm_sm9::key::{Sm9EncKey, Sm9EncMasterKey};
use gm_sm9::verif as hook;
use num_bigint::BigUint;
use rayon::prelude::*;
use num_traits::{One, Zero};
use refmodels::sm3;
use refmodels::sm9::{self, F12, G1, G2};
use refmodels::util::{from_limbs, hexbig as hb, to_limbs, SplitMix};
use serde::{Deserialize, Serialize};
use serde_json::Value;
use std::collections::HashMap;
use std::sync::{Arc, Mutex};

#[derive(Serialize, Deserialize, Clone, Debug)]
pub enum Case {
    Enc { ke: String, id: String, msg_len: usize, r: String, tag: String },
    /// reference-made ciphertext for (ke, id, msg, r) altered as `tamper` says ("none" must decrypt)
    Dec { ke: String, id: String, msg_len: usize, r: String, tamper: String },
    /// a conforming ciphertext whose C1 is the given curve point (made with the recipient's key by the reference, as any
    /// sender whose r happens to hit that point would): it must decrypt
    DecChosenC1 { ke: String, id: String, msg_len: usize, x: String, y: String, tag: String },
}

fn ident(spec: &str, seed: u64) -> Vec<u8> {
    if let Some(n) = spec.strip_prefix("len:") {
        content("seed", n.parse().unwrap(), seed ^ 0x2e)
    } else {
        spec.as_bytes().to_vec()
    }
}

fn master(ke: &BigUint) -> (G1, F12) {
    static M: Mutex<Option<HashMap<BigUint, (G1, F12)>>> = Mutex::new(None);
    if let Some(v) = M.lock().unwrap().get_or_insert_with(HashMap::new).get(ke) {
        return v.clone();
    }
    let ppube = sm9::g1_mul(ke, &sm9::params().p1);
    let g = sm9::enc_g(&ppube);
    M.lock().unwrap().as_mut().unwrap().insert(ke.clone(), (ppube.clone(), g.clone()));
    (ppube, g)
}
fn dec_key(ke: &BigUint, id: &[u8]) -> Option<G2> {
    static M: Mutex<Option<HashMap<(BigUint, Vec<u8>), Option<G2>>>> = Mutex::new(None);
    let k = (ke.clone(), id.to_vec());
    if let Some(v) = M.lock().unwrap().get_or_insert_with(HashMap::new).get(&k) {
        return v.clone();
    }
    let v = sm9::extract_enc_key(ke, id, sm9::HID_ENC);
    M.lock().unwrap().as_mut().unwrap().insert(k, v.clone());
    v
}

fn msg_of(ctx: &Ctx, tag: &str, len: usize) -> Vec<u8> {
    if tag == "annex-example" {
        b"Chinese IBE standard".to_vec()
    } else if tag.starts_with("content=zero") {
        vec![0u8; len]
    } else if tag.starts_with("content=ff") {
        vec![0xffu8; len]
    } else {
        content("seed", len, ctx.seed)
    }
}

pub fn eval(ctx: &Ctx, case: &Case) {
    ctx.state();
    let cj = || serde_json::to_value(case).unwrap();
    let pr = sm9::params();
    let n = &pr.n;
    match case {
        Case::Enc { ke, id, msg_len, r, tag } => {
            let (ke, r) = (hb(ke), hb(r));
            let idb = ident(id, ctx.seed);
            let msg = msg_of(ctx, tag, *msg_len);
            let (ppube, g) = master(&ke);
            let Some(de) = dec_key(&ke, &idb) else { return };
            // tag ".../Zq=<name>/Zp=<name>": the key objects hold de (G2) and Ppub-e (G1) in those Jacobian representations
            let zn = z_names(tag);
            let ke_field = if tag.starts_with("public-only") { BigUint::from(tag.len() as u32 % 2) } else { ke.clone() };
            let msk = Sm9EncMasterKey { ke: to_limbs(&ke_field), ppube: match &zn { Some((_, zp)) => lib_g1(&ppube, &z1_named(zp, ctx.seed)), None => lib_g1_affine(&ppube) } };
            let mut gsm = SplitMix::new(ctx.seed, "c10filler");
            let mut q = vec![cand(&r)];
            for _ in 0..4 {
                q.push(cand(&gsm.nonzero_below(&(n - 2u32))));
            }
            let (res, log) = with_rng(q, || msk.encrypt(&idb, &msg));
            ctx.call();
            let site = "Sm9EncMasterKey::encrypt";
            let lc = if *msg_len % 32 == 0 { "mlen%32=0" } else { "mlen%32!=0" };
            let ct = match res {
                Guard::Done(ct) => ct,
                Guard::Panic(p) => {
                    let c = if is_exhausted(&p) { format!("nonce-loop-did-not-terminate/{}", tag) } else { format!("panic/{}/{}", panic_site(&p), tag) };
                    ctx.violation(site, &c, p, cj());
                    return;
                }
            };
            let Some(r_used) = log.accepted.last().map(from_limbs) else {
                ctx.violation(site, &format!("no-nonce-drawn/{}", tag), String::new(), cj());
                return;
            };
            ctx.trace();
            let Some(want) = sm9::encrypt_with_r(&g, &ppube, &idb, &msg, &r_used) else {
                ctx.violation(site, &format!("nonce-with-all-zero-K1-used/{}", lc), format!("r={} mlen={}: K1 is all zero, step A6 requires another r (C2 would equal M)", hexbig(&r_used), msg_len), cj());
                return;
            };
            let wb = want.encode();
            if ct != wb {
                let part = if ct.len() != wb.len() {
                    "length"
                } else if ct[..65] != wb[..65] {
                    "C1"
                } else if ct[65..97] != wb[65..97] {
                    "C3(MAC)"
                } else {
                    "C2"
                };
                ctx.violation(site, &format!("ciphertext-not-GMT0044.4/{}/{}", part, lc), format!("ke={} id={} mlen={} r={} got={} want={}", hexbig(&ke), id, msg_len, hexbig(&r_used), truncate(&hex::encode(&ct), 260), truncate(&hex::encode(&wb), 260)), cj());
                return;
            }
            if tag == "annex-example" && hex::encode(&ct[65..97]) != "ba672387bcd6de5016a158a52bb2e7fc429197bcab70b25afee37a2b9db9f367" {
                ctx.violation(site, "ciphertext-not-GMT0044.4/annex-example", hex::encode(&ct), cj());
                return;
            }
            // library round trip with the key extracted by the library
            ctx.call();
            // (a sender object that holds only the public key cannot extract: extraction uses the real master key)
            let msk_full = Sm9EncMasterKey { ke: to_limbs(&ke), ppube: msk.ppube };
            let key = match guard(|| msk_full.extract_key(&idb)) {
                Guard::Done(Some(k)) => k,
                other => {
                    ctx.violation("Sm9EncMasterKey::extract_key", "no-key", gdbg(&other.map(|o| o.is_some())), cj());
                    return;
                }
            };
            let mut key = key;
            if let Some((zq, _)) = &zn {
                key.de = lib_g2(&de, &z2_named(zq, ctx.seed));
            }
            ctx.call();
            match guard(|| key.decrypt(&idb, &ct)) {
                Guard::Done(Ok(m)) if m == msg => {}
                other => {
                    ctx.violation("Sm9EncKey::decrypt", &format!("roundtrip/{}{}", lc, if zn.is_some() { "/jacobian-key-objects" } else { "" }), gdbg(&other), cj());
                    return;
                }
            }
            // independent decryptor
            if sm9::decrypt_fields(&de, &idb, &sm9_c1(&ct), &ct[97..], &ct[65..97]).as_deref() != Some(&msg[..]) {
                ctx.violation(site, &format!("reference-decryptor-fails/{}", lc), String::new(), cj());
                return;
            }
            ctx.outcome(&format!("ok/enc/{}", lc));
        }
        Case::DecChosenC1 { ke, id, msg_len, x, y, tag } => {
            let ke = hb(ke);
            let idb = ident(id, ctx.seed);
            let msg = content("seed", *msg_len, ctx.seed);
            let (ppube, _) = master(&ke);
            let Some(de) = dec_key(&ke, &idb) else { return };
            let c1: refmodels::sm9::G1 = Some((hb(x), hb(y)));
            if !pr.e1.on_curve(&c1) {
                ctx.machinery_error("DecChosenC1 point is not on the curve");
                return;
            }
            // K = KDF(C1 || e(C1, de) || ID, |M| + 32)
            let w = sm9::pairing(&c1, &de);
            let mut z = sm9::g1_bytes(&c1).to_vec();
            z.extend_from_slice(&sm9::f12_bytes(&w));
            z.extend_from_slice(&idb);
            let k = refmodels::sm3::kdf(&z, msg.len() + 32);
            let (k1, k2) = k.split_at(msg.len());
            if k1.iter().all(|b| *b == 0) {
                return;
            }
            let c2: Vec<u8> = msg.iter().zip(k1).map(|(a, b)| a ^ b).collect();
            let c3 = sm9::mac(k2, &c2);
            let mut ct = vec![0x04u8];
            ct.extend_from_slice(&sm9::g1_bytes(&c1));
            ct.extend_from_slice(&c3);
            ct.extend_from_slice(&c2);
            ctx.trace();
            let key = Sm9EncKey { ppube: lib_g1_affine(&ppube), de: lib_g2_affine(&de) };
            ctx.call();
            match guard(|| key.decrypt(&idb, &ct)) {
                Guard::Done(Ok(m)) if m == msg => ctx.outcome(&format!("ok/dec/chosen-C1/{}", tag)),
                other => ctx.violation("Sm9EncKey::decrypt", &format!("valid-ciphertext-not-decrypted/chosen-C1/{}", tag), gdbg(&other), cj()),
            }
        }
        Case::Dec { ke, id, msg_len, r, tamper } => {
            let (ke, r) = (hb(ke), hb(r));
            let idb = ident(id, ctx.seed);
            let msg = content("seed", *msg_len, ctx.seed);
            let (ppube, g) = master(&ke);
            let Some(de) = dec_key(&ke, &idb) else { return };
            let Some(base) = sm9::encrypt_with_r(&g, &ppube, &idb, &msg, &r) else { return };
            ctx.trace();
            let good = base.encode();
            let key = Sm9EncKey { ppube: lib_g1_affine(&ppube), de: lib_g2_affine(&de) };
            let mut ct = good.clone();
            let mut id2 = idb.clone();
            let mut expect: Option<Vec<u8>> = None;
            let t = tamper.as_str();
            let tclass: String;
            if let Some(b) = t.strip_prefix("bit:") {
                let b: usize = b.parse().unwrap();
                ct[b / 8] ^= 0x80 >> (b % 8);
                let byte = b / 8;
                tclass = format!("bitflip-{}", if byte == 0 { "tag" } else if byte < 65 { "C1" } else if byte < 97 { "C3" } else { "C2" });
            } else if let Some(l) = t.strip_prefix("trunc:") {
                let l: usize = l.parse().unwrap();
                ct.truncate(l);
                tclass = format!("truncated-{}", if l < 65 { "inside-C1" } else if l < 97 { "inside-C3" } else if l == 97 { "empty-C2" } else { "body" });
            } else {
                tclass = t.to_string();
                let (x, y) = base.c1.clone().unwrap();
                let complete = |c1: &G1, id: &[u8]| -> Option<Vec<u8>> {
                    // body recomputed for a foreign C1 with the library's own pairing (invalid-curve attacker who knows de)
                    let (cx, cy) = c1.clone()?;
                    let w = guard(|| hook::pairing(&lib_g2_affine(&de), &lib_g1_raw(&cx, &cy)).to_bytes_be());
                    let Guard::Done(w) = w else { return None };
                    let mut z = Vec::new();
                    z.extend_from_slice(&cand(&cx));
                    z.extend_from_slice(&cand(&cy));
                    z.extend_from_slice(&w);
                    z.extend_from_slice(id);
                    let k = sm3::kdf(&z, msg.len() + 32);
                    let (k1, k2) = k.split_at(msg.len());
                    let c2: Vec<u8> = msg.iter().zip(k1).map(|(a, b)| a ^ b).collect();
                    let c3 = sm9::mac(k2, &c2);
                    let mut v = vec![0x04];
                    v.extend_from_slice(&cand(&cx));
                    v.extend_from_slice(&cand(&cy));
                    v.extend_from_slice(&c3);
                    v.extend_from_slice(&c2);
                    Some(v)
                };
                match t {
                    "none" => expect = Some(msg.clone()),
                    "extended" => ct.push(0),
                    "mlen-256" | "mlen-300" => {
                        // over-long bodies (the scheme is specified for at most 255 bytes here): must be refused, not panic
                        let extra = if t == "mlen-256" { 256 } else { 300 } - msg.len();
                        ct.extend(std::iter::repeat(0xa5).take(extra));
                    }
                    "other-identity" => id2.push(b'x'),
                    // the same three fields in another order / with fields exchanged (a "legacy layout" fallback would accept)
                    "layout-C1C2C3" => {
                        ct = good[..65].to_vec();
                        ct.extend_from_slice(&good[97..]);
                        ct.extend_from_slice(&good[65..97]);
                    }
                    "layout-C3C1C2" => {
                        ct = vec![0x04];
                        ct.extend_from_slice(&good[65..97]);
                        ct.extend_from_slice(&good[1..65]);
                        ct.extend_from_slice(&good[97..]);
                    }
                    "C3=SM3(K2||C2)" => {
                        // the MAC with its two inputs in the other order (what this library computed before its repair)
                        let mut z = sm9::g1_bytes(&base.c1).to_vec();
                        z.extend_from_slice(&sm9::f12_bytes(&sm9::f12_pow(&g, &r)));
                        z.extend_from_slice(&idb);
                        let k = sm3::kdf(&z, msg.len() + 32);
                        let mac = refmodels::sm3::sm3_cat(&[&k[msg.len()..], &good[97..]]);
                        ct[65..97].copy_from_slice(&mac);
                    }
                    "C1-off-curve(y+1)/orig-body" => ct[33..65].copy_from_slice(&cand(&((&y + 1u32) % &pr.p))),
                    "C1-off-curve(y+1)/invalid-curve-completed" => match complete(&Some((x.clone(), (&y + 1u32) % &pr.p)), &idb) {
                        Some(v) => ct = v,
                        None => return,
                    },
                    "C1-off-curve(random)/invalid-curve-completed" => {
                        let mut gg = SplitMix::new(ctx.seed, "c10off");
                        match complete(&Some((gg.below(&pr.p), gg.below(&pr.p))), &idb) {
                            Some(v) => ct = v,
                            None => return,
                        }
                    }
                    "C1=(0,0)" => {
                        for b in &mut ct[1..65] {
                            *b = 0;
                        }
                    }
                    "C1=(0,0)/body-for-w=1" | "C1=(0,0)/body-for-w=0" => {
                        // forged ciphertext for a decoder that takes the all-zero encoding for the point at infinity:
                        // the pairing value is then a public constant and K can be computed by anyone
                        let w = if t.ends_with("=1") { sm9::f12_bytes(&sm9::f12_one()) } else { vec![0u8; 384] };
                        let mut z = vec![0u8; 64];
                        z.extend_from_slice(&w);
                        z.extend_from_slice(&idb);
                        let k = sm3::kdf(&z, msg.len() + 32);
                        let (k1, k2) = k.split_at(msg.len());
                        let c2: Vec<u8> = msg.iter().zip(k1).map(|(a, b)| a ^ b).collect();
                        let c3 = sm9::mac(k2, &c2);
                        ct = vec![0x04];
                        ct.extend_from_slice(&[0u8; 64]);
                        ct.extend_from_slice(&c3);
                        ct.extend_from_slice(&c2);
                    }
                    f if f.starts_with("forged-without-key/") => {
                        // forged/<C1 shape>/w=<value>[/kdf-over-canonical-C1]: a C1 that is not a curve point, with the body
                        // computed for a pairing value anybody knows (the unit of GT, what a decoder that maps bad input to the
                        // point at infinity ends up with; the public g = e(Ppub, P2); all-zero bytes)
                        let parts: Vec<&str> = f.split('/').collect();
                        let ff = [0xffu8; 32];
                        let (xb, yb): ([u8; 32], [u8; 32]) = match parts[1] {
                            "x=y=2^256-1" => (ff, ff),
                            "x-genuine,y=2^256-1" => (cand(&x), ff),
                            "x=2^256-1,y-genuine" => (ff, cand(&y)),
                            "(0,0)" => ([0u8; 32], [0u8; 32]),
                            "(1,1)" => (cand(&BigUint::one()), cand(&BigUint::one())),
                            "x=p,y=p" => (cand(&pr.p), cand(&pr.p)),
                            "(x,y+1)" => (cand(&x), cand(&((&y + 1u32) % &pr.p))),
                            _ => panic!("unknown C1 shape"),
                        };
                        let w = match parts[2] {
                            "w=1" => sm9::f12_bytes(&sm9::f12_one()),
                            "w=g" => sm9::f12_bytes(&g),
                            _ => vec![0u8; 384],
                        };
                        // KDF input: the C1 bytes as sent, or the canonical bytes of what the decoder turned them into
                        let mut z: Vec<u8> = match parts.get(3).copied() {
                            Some("kdf-over-reduced-C1") => [cand(&(refmodels::util::from_be(&xb) % &pr.p)).to_vec(), cand(&(refmodels::util::from_be(&yb) % &pr.p)).to_vec()].concat(),
                            Some("kdf-over-(1,1)") => [cand(&BigUint::one()).to_vec(), cand(&BigUint::one()).to_vec()].concat(),
                            Some("kdf-over-zeros") => vec![0u8; 64],
                            _ => [xb.to_vec(), yb.to_vec()].concat(),
                        };
                        z.extend_from_slice(&w);
                        z.extend_from_slice(&idb);
                        let k = sm3::kdf(&z, msg.len() + 32);
                        let (k1, k2) = k.split_at(msg.len());
                        let c2: Vec<u8> = msg.iter().zip(k1).map(|(a, b)| a ^ b).collect();
                        let c3 = sm9::mac(k2, &c2);
                        ct = vec![0x04];
                        ct.extend_from_slice(&xb);
                        ct.extend_from_slice(&yb);
                        ct.extend_from_slice(&c3);
                        ct.extend_from_slice(&c2);
                        let c1v: G1 = Some((refmodels::util::from_be(&xb), refmodels::util::from_be(&yb)));
                        if refmodels::util::from_be(&xb) < pr.p && refmodels::util::from_be(&yb) < pr.p && pr.e1.on_curve(&c1v) {
                            ctx.machinery_error("forged C1 is a curve point");
                            return;
                        }
                    }
                    "C3-same-unpadded-hex-text" => {
                        // bytes 0X,YZ rewritten XY,0Z: a different C3 that prints the same without zero padding
                        let mut done = false;
                        for i in 65..96 {
                            let (a, b) = (ct[i], ct[i + 1]);
                            if a != 0 && a < 0x10 && b >= 0x10 {
                                ct[i] = (a << 4) | (b >> 4);
                                ct[i + 1] = b & 0x0f;
                                done = true;
                                break;
                            }
                        }
                        if !done {
                            ctx.outcome("skipped/no-such-byte-pair");
                            return;
                        }
                    }
                    f if f.starts_with("C3-bytes-changed/") => {
                        // several bytes of C3 changed so that the differences cancel under a sloppy accumulation: equal XOR
                        // differences (xor-fold), differences adding up to 0 mod 256 (sum-fold), neighbouring and distant positions
                        let spec = &f["C3-bytes-changed/".len()..];
                        let edits: Vec<(usize, u8)> = match spec {
                            "80@0,80@1" => vec![(0, 0x80), (1, 0x80)],
                            "80@0,80@31" => vec![(0, 0x80), (31, 0x80)],
                            "01@3,ff@17" => vec![(3, 0x01), (17, 0xff)],
                            "40@5,c0@6" => vec![(5, 0x40), (6, 0xc0)],
                            "40@0,40@8,40@16,40@24" => vec![(0, 0x40), (8, 0x40), (16, 0x40), (24, 0x40)],
                            "55@10,55@20" => vec![(10, 0x55), (20, 0x55)],
                            "ff@all" => (0..32).map(|i| (i, 0xffu8)).collect(),
                            "01@all" => (0..32).map(|i| (i, 0x01u8)).collect(),
                            _ => panic!("unknown C3 edit"),
                        };
                        for (i, x) in edits {
                            ct[65 + i] ^= x;
                        }
                    }
                    "C1-x>=p" => {
                        for b in &mut ct[1..33] {
                            *b = 0xff;
                        }
                    }
                    "C1-x+p-alias" | "C1-y+p-alias" => {
                        // an unreduced encoding of the same point (v + p still fits in 32 bytes for v < 2^256 - p)
                        let two256: BigUint = BigUint::one() << 256usize;
                        let (v, range) = if t == "C1-x+p-alias" { (&x, 1..33) } else { (&y, 33..65) };
                        if v + &pr.p >= two256 {
                            ctx.outcome("skipped/alias-does-not-fit");
                            return;
                        }
                        ct[range].copy_from_slice(&cand(&(v + &pr.p)));
                    }
                    "C1-other-valid-point" => ct[1..65].copy_from_slice(&sm9::g1_bytes(&sm9::g1_add(&base.c1, &pr.p1))),
                    "tag=02" => ct[0] = 0x02,
                    "tag=00" => ct[0] = 0x00,
                    _ => panic!("unknown tamper {}", t),
                }
            }
            ctx.call();
            let res = guard(|| key.decrypt(&id2, &ct));
            let site = "Sm9EncKey::decrypt";
            match (res, expect) {
                (Guard::Done(Ok(m)), Some(e)) if m == e => ctx.outcome("ok/dec/untouched"),
                (other, Some(_)) => ctx.violation(site, "reference-ciphertext-not-decrypted", gdbg(&other), cj()),
                (Guard::Done(Err(_)), None) => ctx.outcome(&format!("rejected/{}", tclass)),
                (Guard::Done(Ok(m)), None) => ctx.violation(site, &format!("accepted-tampered/{}", tclass), format!("returned {} bytes", m.len()), cj()),
                (Guard::Panic(p), None) => ctx.violation(site, &format!("panic/{}/{}", panic_site(&p), tclass), format!("ctlen={} {}", ct.len(), p), cj()),
            }
        }
    }
}

fn sm9_c1(ct: &[u8]) -> G1 {
    Some((refmodels::util::from_be(&ct[1..33]), refmodels::util::from_be(&ct[33..65])))
}

pub fn replay(ctx: &Arc<Ctx>, v: &Value) {
    if crate::cold::replay(ctx, v) {
        return;
    }
    let c: Case = serde_json::from_value(v.clone()).expect("C10 case");
    eval(ctx, &c);
}

pub const ANNEX_KE: &str = "0001EDEE3778F441F8DEA3D9FA0ACC4E07EE36C93F9A08618AF4AD85CEDE1C22";
pub const ANNEX_R: &str = "0000AAC0541779C8FC45E3E2CB25C12B5D2576B2129AE8BB5EE2CBE5EC9E785C";

pub fn run(ctx: &Arc<Ctx>) {
    refmodels::selftest::run(&["sm3", "sm9"]).unwrap_or_else(|e| ctx.machinery_error(format!("reference self-test failed: {}", e)));
    let n = sm9::params().n.clone();
    ctx.set_rule("encryption: every message length 1..=255 with one (master, identity, r); masters {Annex ke, N-2, seeded} x identities {Bob,'',seeded, 12 normalisation-sensitive variants of one name} x nonces {1,2,N-2,Annex r,2^255+1,seeded} at length 20; the GM/T 0044.5 example, key objects holding Ppub-e / de in Jacobian representations with structured Z (Z in Fp, purely imaginary, generic), all-zero and all-ones messages, a sender object holding only the master public key, nonces searched so that K1 starts or ends with a zero byte (must still decrypt), nonces crafted so that K1 is all zero (step A6 retry): ciphertext = reference C1||C3||C2 byte for byte for the accepted r (MAC = SM3(C2||K2)), library and reference decryptors recover M. Conforming ciphertexts whose C1 has a boundary coordinate (x = p-1, smallest x, y = R^-1) must decrypt. Decryption of reference-made ciphertexts (lengths {1,20}, thorough +{32,255}): untouched must decrypt; every single-bit flip, every truncation, extension, over-long bodies, other identity, the fields in another order (C1||C2||C3, C3||C1||C2), the MAC with its inputs swapped, foreign tags, C1 off-curve with the original body and with the body recomputed for the foreign point (invalid-curve attack, using the library's own pairing), (0,0) with the original body and with bodies forged for a constant pairing value, unreduced coordinates (all-ones and the v+p aliases of the same point over 12 further nonces), another valid point: all must be refused with an error, never a plaintext, never a panic. Tampering also covers C3 with several bytes changed so that the differences cancel (equal XOR differences, differences summing to 0 mod 256, every byte) and 7 shapes of non-point C1 with the body forged for a publicly known pairing value.");
    let mut g = SplitMix::new(ctx.seed, "c10");
    let mut cases: Vec<Case> = Vec::new();
    cases.push(Case::Enc { ke: ANNEX_KE.into(), id: "Bob".into(), msg_len: 20, r: ANNEX_R.into(), tag: "annex-example".into() });
    for id in crate::alpha::NORM_IDS {
        cases.push(Case::Enc { ke: ANNEX_KE.into(), id: id.into(), msg_len: 20, r: ANNEX_R.into(), tag: "id=normalisation-sensitive".into() });
    }
    // identity lengths 0..=300 (step 3 in the quick tier): the identity is part of the KDF input
    for il in (0..=300usize).step_by(ctx.tier.pick(3usize, 1)) {
        cases.push(Case::Enc { ke: ANNEX_KE.into(), id: format!("len:{}", il), msg_len: 20, r: ANNEX_R.into(), tag: "idlen-sweep".into() });
    }
    for il in [8191usize, 8192, 9000, 65535, 65536, 70000] {
        cases.push(Case::Enc { ke: ANNEX_KE.into(), id: format!("len:{}", il), msg_len: 20, r: ANNEX_R.into(), tag: "id-of-8191-bytes-and-more".into() });
    }
    // all-zero and all-ones messages; a sender object that holds the master PUBLIC key only (secret field 0 / 1)
    for l in [1usize, 2, 16, 32, 33, 255] {
        for t in ["content=zero", "content=ff"] {
            cases.push(Case::Enc { ke: ANNEX_KE.into(), id: "Bob".into(), msg_len: l, r: ANNEX_R.into(), tag: t.into() });
        }
    }
    for t in ["public-only", "public-only/"] {
        cases.push(Case::Enc { ke: ANNEX_KE.into(), id: "Bob".into(), msg_len: 20, r: ANNEX_R.into(), tag: t.into() });
    }
    // nonces searched so that K1 has a zero FIRST or LAST byte without being all zero (messages of 2..9 bytes): genuine
    // ciphertexts that must be produced and must decrypt (a zero test on part of K1 refuses them)
    {
        let (ppube, gg) = master(&hb(ANNEX_KE));
        let mut found = 0;
        for (mlen, first) in [(2usize, true), (5, true), (8, false), (9, true)] {
            let msg = content("seed", mlen, ctx.seed);
            let hit: Option<BigUint> = (0..4000u32).into_par_iter().find_map_first(|i| {
                let r = SplitMix::new(ctx.seed ^ (i as u64) << 8, "c10k1zero").nonzero_below(&(&n - 2u32));
                let ct = sm9::encrypt_with_r(&gg, &ppube, b"Bob", &msg, &r)?;
                let k1: Vec<u8> = ct.c2.iter().zip(msg.iter()).map(|(a, b)| a ^ b).collect();
                let z = if first { k1[0] == 0 } else { k1[mlen - 1] == 0 };
                if z && k1.iter().any(|b| *b != 0) { Some(r) } else { None }
            });
            if let Some(r) = hit {
                found += 1;
                cases.push(Case::Enc { ke: ANNEX_KE.into(), id: "Bob".into(), msg_len: mlen, r: hexbig(&r), tag: if first { "K1-first-byte-zero".into() } else { "K1-last-byte-zero".into() } });
            }
        }
        ctx.cov("nonces_with_a_zero_byte_at_an_end_of_K1", serde_json::json!(found));
        if found == 0 {
            ctx.machinery_error("no nonce with a zero first / last byte of K1 found");
        }
    }
    // conforming ciphertexts whose C1 has a boundary coordinate: x = p - 1 (both roots: (-1)^3 + 5 = 4), the smallest x on
    // the curve, coordinates whose Montgomery form is a small integer
    {
        let p = &sm9::params().p;
        let mut pts: Vec<(BigUint, BigUint, &str)> = vec![(p - 1u32, BigUint::from(2u32), "x=p-1"), (p - 1u32, p - 2u32, "x=p-1")];
        let mut x = BigUint::zero();
        let mut n_small = 0;
        while n_small < 2 {
            let rhs = (&x * &x * &x + 5u32) % p;
            if let Some(y) = sm9::sqrt_fp(&rhs) {
                pts.push((x.clone(), y.clone(), "x-small"));
                pts.push((x.clone(), (p - &y) % p, "x-small"));
                n_small += 1;
            }
            x += 1u32;
        }
        let rinv = (BigUint::one() << 256usize).modpow(&(p - 2u32), p);
        if let Some(xx) = sm9::cbrt_fp(&((&rinv * &rinv + p - 5u32) % p)) {
            pts.push((xx, rinv.clone(), "y=R^-1"));
        }
        for (x, y, tag) in pts {
            cases.push(Case::DecChosenC1 { ke: ANNEX_KE.into(), id: "Bob".into(), msg_len: 20, x: hexbig(&x), y: hexbig(&y), tag: tag.into() });
        }
    }
    for (i, zq) in Z2_NAMES.iter().enumerate() {
        cases.push(Case::Enc { ke: ANNEX_KE.into(), id: "Bob".into(), msg_len: 20, r: ANNEX_R.into(), tag: format!("key-objects/Zq={}/Zp={}", zq, Z1_NAMES[i % Z1_NAMES.len()]) });
    }
    // ke = H1(Bob||03): Q_B = [H1]P1 + Ppub-e is then a doubling
    let masters: Vec<(String, BigUint)> = vec![("annex".into(), hb(ANNEX_KE)), ("N-2".into(), &n - 2u32), ("seed".into(), g.nonzero_below(&n)), ("H1(ID)".into(), sm9::h1(b"Bob", sm9::HID_ENC))];
    let rs: Vec<(String, BigUint)> = vec![("1".into(), BigUint::one()), ("2".into(), BigUint::from(2u32)), ("N-2".into(), &n - 2u32), ("annex".into(), hb(ANNEX_R)), ("2^255+1".into(), (BigUint::one() << 255usize) + 1u32), ("seed".into(), g.nonzero_below(&(&n - 2u32)))];
    let nm = ctx.tier.pick(1usize, 3);
    for (mn, ke) in masters.iter().take(nm) {
        for l in 1..=255usize {
            let (rn, r) = &rs[l % rs.len()];
            cases.push(Case::Enc { ke: hexbig(ke), id: "Bob".into(), msg_len: l, r: hexbig(r), tag: format!("ke={}/r={}", mn, rn) });
        }
    }
    for (mn, ke) in &masters {
        for id in ["Bob", "", "len:40"] {
            for (rn, r) in &rs {
                cases.push(Case::Enc { ke: hexbig(ke), id: id.into(), msg_len: 20, r: hexbig(r), tag: format!("ke={}/r={}/id", mn, rn) });
            }
        }
    }
    // nonces whose K1 is all zero for a 1-byte message: step A6 must go back and draw another r
    {
        let ke = hb(ANNEX_KE);
        let (ppube, gg) = master(&ke);
        let q = sm9::enc_q(&ppube, b"Bob", sm9::HID_ENC);
        let mut r = g.nonzero_below(&(&n - (BigUint::one() << 40usize))) | BigUint::one();
        let mut c1 = sm9::g1_mul(&r, &q);
        let mut w = sm9::f12_pow(&gg, &r);
        let mut found = 0;
        for _ in 0..4096 {
            let mut z = sm9::g1_bytes(&c1).to_vec();
            z.extend_from_slice(&sm9::f12_bytes(&w));
            z.extend_from_slice(b"Bob");
            if sm3::kdf(&z, 1)[0] == 0 {
                cases.push(Case::Enc { ke: ANNEX_KE.into(), id: "Bob".into(), msg_len: 1, r: hexbig(&r), tag: "nonce-with-all-zero-K1".into() });
                found += 1;
                if found == 2 {
                    break;
                }
            }
            // r += 2 keeps the low limb non-zero (the library's sampler refuses candidates whose low limb is 0)
            r += 2u32;
            c1 = sm9::g1_add(&sm9::g1_add(&c1, &q), &q);
            w = sm9::f12_mul(&sm9::f12_mul(&w, &gg), &gg);
        }
        if found == 0 {
            ctx.machinery_error("no nonce with all-zero K1 found");
        }
    }
    let dlens: Vec<usize> = ctx.tier.pick(vec![1, 20], vec![1, 20, 32, 255]);
    for (bi, l) in dlens.iter().enumerate() {
        let (_, ke) = &masters[bi % masters.len()];
        let id = ["Bob", "len:40"][bi % 2];
        let r = hexbig(&rs[(bi + 3) % rs.len()].1);
        let total = 97 + l;
        let mut tampers: Vec<String> = vec!["none", "extended", "mlen-256", "mlen-300", "other-identity", "layout-C1C2C3", "layout-C3C1C2", "C3=SM3(K2||C2)", "C1-off-curve(y+1)/orig-body", "C1-off-curve(y+1)/invalid-curve-completed", "C1-off-curve(random)/invalid-curve-completed", "C1=(0,0)", "C1=(0,0)/body-for-w=1", "C1=(0,0)/body-for-w=0", "C1-x>=p", "C1-x+p-alias", "C1-y+p-alias", "C1-other-valid-point", "tag=02", "tag=00"].iter().map(|s| s.to_string()).collect();
        tampers.push("C3-same-unpadded-hex-text".into());
        for spec in ["80@0,80@1", "80@0,80@31", "01@3,ff@17", "40@5,c0@6", "40@0,40@8,40@16,40@24", "55@10,55@20", "ff@all", "01@all"] {
            tampers.push(format!("C3-bytes-changed/{}", spec));
        }
        for shape in ["x=y=2^256-1", "x-genuine,y=2^256-1", "x=2^256-1,y-genuine", "(0,0)", "(1,1)", "x=p,y=p", "(x,y+1)"] {
            for w in ["w=1", "w=g", "w=0"] {
                for kd in ["", "/kdf-over-reduced-C1", "/kdf-over-(1,1)", "/kdf-over-zeros"] {
                    tampers.push(format!("forged-without-key/{}/{}{}", shape, w, kd));
                }
            }
        }
        for b in 0..total * 8 {
            tampers.push(format!("bit:{}", b));
        }
        for t in 0..total {
            tampers.push(format!("trunc:{}", t));
        }
        for t in tampers {
            cases.push(Case::Dec { ke: hexbig(ke), id: id.into(), msg_len: *l, r: r.clone(), tamper: t });
        }
    }
    for i in 0..12u32 {
        let r = hexbig(&g.nonzero_below(&(&n - 2u32)));
        for t in ["none", "C1-x+p-alias", "C1-y+p-alias"] {
            cases.push(Case::Dec { ke: ANNEX_KE.into(), id: "Bob".into(), msg_len: 5 + i as usize, r: r.clone(), tamper: t.into() });
        }
    }
    ctx.note_bound(format!("{} cases", cases.len()));
    ctx.sample(serde_json::to_value(&cases[0]).unwrap());
    ctx.sample(serde_json::to_value(&cases[cases.len() - 1]).unwrap());
    run_cases(ctx, &cases, 4, eval);
    {
        let mut items = Vec::new();
        for (ke, id) in [(&masters[0].1, "Bob"), (&masters[2].1, "Bob"), (&masters[0].1, "len:40"), (&masters[2].1, "")] {
            items.push(Case::Enc { ke: hexbig(ke), id: id.into(), msg_len: 24, r: hexbig(&rs[5].1), tag: "sequence".into() });
        }
        let mut seqs = permutations(&items);
        let d: Vec<Case> = [(&masters[0].1, "Bob"), (&masters[2].1, "Bob"), (&masters[0].1, "len:40"), (&masters[2].1, "len:40")].iter().map(|(ke, id)| Case::Dec { ke: hexbig(ke), id: id.to_string(), msg_len: 24, r: hexbig(&rs[5].1), tamper: "none".into() }).collect();
        seqs.extend(permutations(&d));
        ctx.cov("related_input_sequences", serde_json::json!(seqs.len()));
        run_sequences(ctx, &seqs, eval);
    }
    let _ = (BigUint::zero(), hook::rng_queue_len);
    crate::cold::check(ctx, "C10");
}
