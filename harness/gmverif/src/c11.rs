//! C11 — SM2 curve and field arithmetic implement the group law exactly
use crate::engine::*;
use crate::sm2api::*;
use gm_sm2::p256_ecc::{g_mul, Point};
use gm_sm2::verif::{fn64, fp64, FieldModOperation, SM2P256_PRECOMPUTED};
use num_bigint::BigUint;
use num_traits::{One, Zero};
use refmodels::sm2::{self, Pt};
use refmodels::util::{from_limbs, hexbig as hb, to_limbs, SplitMix};
use serde::{Deserialize, Serialize};
use serde_json::{json, Value};
use std::sync::Arc;

#[derive(Serialize, Deserialize, Clone, Debug)]
pub enum Case {
    /// field operation on canonical operands; modulus "p" (Montgomery domain ops get plain integers, converted here) or "n"
    Field { m: String, op: String, a: String, b: String },
    /// raw 256/512-bit helpers
    Raw { op: String, a: String, b: String },
    /// P = [k1]G in representation Z = l1 (l1 = 0: infinity (k1^2, k1^3, 0)), same for Q
    Add { k1: String, l1: String, k2: String, l2: String },
    /// explicit affine points (x1, y1), (x2, y2) in representations Z = l1, l2 (used for different points sharing y)
    AddXY { x1: String, y1: String, l1: String, x2: String, y2: String, l2: String, tag: String },
    /// unary point operations and predicates on [k]G with Z = l
    Unary { k: String, l: String },
    /// the unary battery on a point given by its coordinates (points no multiple-of-G alphabet reaches: x = 0)
    UnaryXY { x: String, y: String, l: String, tag: String },
    /// the point at infinity written as (ix : iy : 0), any ix, iy, met with the finite point [k]G held with Z = l
    InfOps { ix: String, iy: String, k: String, l: String },
    /// off-curve triple: [k]G with Z = l, one coordinate bumped (which = 0 x, 1 y, 2 z)
    OffCurve { k: String, l: String, which: u8 },
    ScalarMul { base: String, l: String, scalar: String, tag: String },
    GMul { scalar: String, tag: String },
    Table { row: usize, digit: usize },
    /// consecutive scalar multiplications on one thread; each step = (base k, Z, negate with Point::neg first, scalar).
    /// Every result is judged: related bases (same x and z, opposite y; same point, other Z) must not influence each other.
    MulSeq { steps: Vec<(String, String, bool, String)> },
}

fn modulus(m: &str) -> BigUint {
    if m == "p" {
        sm2::params().p.clone()
    } else {
        sm2::params().n.clone()
    }
}

fn rep_point(k: &BigUint, l: &BigUint) -> (Point, Pt) {
    if l.is_zero() {
        // infinity in Jacobian coordinates is (t^2, t^3, 0) with t != 0; here t = k
        let p = &sm2::params().p;
        let t = if (k % p).is_zero() { BigUint::one() } else { k % p };
        (Point { x: to_mont(&((&t * &t) % p)), y: to_mont(&((&t * &t * &t) % p)), z: [0; 4] }, None)
    } else {
        let pt = sm2::g_mul(k);
        (lib_point(&pt, l), pt)
    }
}

fn pt_str(p: &Pt) -> String {
    match p {
        None => "infinity".into(),
        Some((x, y)) => format!("({}, {})", hexbig(x), hexbig(y)),
    }
}

fn rep_class(l: &BigUint) -> &'static str {
    if l.is_zero() {
        "inf"
    } else if l.is_one() {
        "Z=1"
    } else {
        "Z!=1"
    }
}

pub fn eval(ctx: &Ctx, case: &Case) {
    ctx.state();
    let cj = || serde_json::to_value(case).unwrap();
    let pr = sm2::params();
    match case {
        Case::Field { m, op, a, b } => {
            let md = modulus(m);
            let (a, b) = (hb(a), hb(b));
            let site = format!("gm_sm2 field mod {}::{}", m, op);
            ctx.call();
            ctx.trace();
            let (la, lb) = (to_limbs(&a), to_limbs(&b));
            let r256: BigUint = BigUint::one() << 256usize;
            let rinv = r256.modpow(&(&md - 2u32), &md);
            let got: Guard<Option<BigUint>> = guard(|| {
                Some(from_limbs(&match (m.as_str(), op.as_str()) {
                    ("p", "add") => la.fp_add(&lb),
                    ("p", "sub") => la.fp_sub(&lb),
                    ("p", "montmul") => la.fp_mul(&lb),
                    ("p", "sqr") => la.fp_sqr(),
                    ("p", "double") => la.fp_double(),
                    ("p", "triple") => la.fp_triple(),
                    ("p", "inv") => la.fp_inv(),
                    ("p", "pow") => fp64::fp_pow(&la, &lb),
                    ("p", "sqrt") => match fp64::fp_sqrt(&la) {
                        Ok(v) => v,
                        Err(_) => return None,
                    },
                    ("n", "add") => fn64::fn_add(&la, &lb),
                    ("n", "sub") => fn64::fn_sub(&la, &lb),
                    ("n", "mul") => fn64::fn_mul(&la, &lb),
                    ("n", "pow") => fn64::fn_pow(&la, &lb),
                    ("n", "to_mont") => fn64::fn_to_mont(&la),
                    ("n", "from_mont") => fn64::fn_from_mont(&la),
                    _ => panic!("unknown field op"),
                }))
            });
            // Montgomery-domain semantics: x~ = x R. montmul(a,b) = a b R^-1; inv(a~) = (a^-1)~ ; pow(a~, e) = (a^e)~ ; sqrt(a~) = (sqrt a)~
            let want: Option<BigUint> = match (m.as_str(), op.as_str()) {
                (_, "add") => Some((&a + &b) % &md),
                (_, "sub") => Some((&a + &md - &b) % &md),
                ("p", "montmul") => Some((&a * &b * &rinv) % &md),
                ("p", "sqr") => Some((&a * &a * &rinv) % &md),
                ("p", "double") => Some((&a * 2u32) % &md),
                ("p", "triple") => Some((&a * 3u32) % &md),
                ("p", "inv") => {
                    // a = x R  ->  x^-1 R = R^2 / a
                    Some((&r256 * &r256 % &md) * a.modpow(&(&md - 2u32), &md) % &md)
                }
                ("p", "pow") => {
                    let x = (&a * &rinv) % &md;
                    Some(x.modpow(&b, &md) * &r256 % &md)
                }
                ("p", "sqrt") => {
                    let x = (&a * &rinv) % &md;
                    sm2::sqrt_mod_p(&x).map(|r| r * &r256 % &md)
                }
                ("n", "mul") => Some((&a * &b) % &md),
                ("n", "pow") => Some(a.modpow(&b, &md)),
                ("n", "to_mont") => Some((&a * &r256) % &md),
                ("n", "from_mont") => Some((&a * &rinv) % &md),
                _ => unreachable!(),
            };
            match got {
                Guard::Panic(p) => ctx.violation(&site, &format!("panic/{}", panic_site(&p)), format!("a={} b={} {}", hexbig(&a), hexbig(&b), p), cj()),
                Guard::Done(g) => {
                    let ok = if op == "sqrt" {
                        // either root is acceptable
                        match (&g, &want) {
                            (None, None) => true,
                            (Some(g), Some(w)) => g == w || *g == (&md - w) % &md,
                            _ => false,
                        }
                    } else {
                        g == want
                    };
                    if ok {
                        ctx.outcome(&format!("ok/{}/{}", m, op));
                    } else {
                        ctx.violation(&site, "wrong-value", format!("a={} b={} got={:?} want={:?}", hexbig(&a), hexbig(&b), g.map(|v| format!("{:x}", v)), want.map(|v| format!("{:x}", v))), cj());
                    }
                }
            }
        }
        Case::Raw { op, a, b } => {
            let (a, b) = (hb(a), hb(b));
            let (la, lb) = (to_limbs(&a), to_limbs(&b));
            let site = format!("gm_sm2::u256::{}", op);
            ctx.call();
            ctx.trace();
            let r256: BigUint = BigUint::one() << 256usize;
            let ok = guard(|| match op.as_str() {
                "u256_add" => {
                    let (s, c) = gm_sm2::u256::u256_add(&la, &lb);
                    from_limbs(&s) + if c { r256.clone() } else { BigUint::zero() } == &a + &b
                }
                "u256_sub" => {
                    let (s, c) = gm_sm2::u256::u256_sub(&la, &lb);
                    let want = if a >= b { &a - &b } else { &a + &r256 - &b };
                    from_limbs(&s) == want && c == (a < b)
                }
                "u256_mul" => {
                    let m = gm_sm2::u256::u256_mul(&la, &lb);
                    let lo = from_limbs(&[m[0], m[1], m[2], m[3]]);
                    let hi = from_limbs(&[m[4], m[5], m[6], m[7]]);
                    lo + (hi << 256) == &a * &b
                }
                "u256_cmp" => gm_sm2::u256::u256_cmp(&la, &lb) == match a.cmp(&b) { std::cmp::Ordering::Less => -1, std::cmp::Ordering::Equal => 0, std::cmp::Ordering::Greater => 1 },
                "u512_add" => {
                    // (a*b) + (b*b) as 512-bit values
                    let x = &a * &b;
                    let y = &b * &b;
                    let tl = |v: &BigUint| -> [u64; 8] {
                        let lo = to_limbs(&(v % &r256));
                        let hi = to_limbs(&(v >> 256));
                        [lo[0], lo[1], lo[2], lo[3], hi[0], hi[1], hi[2], hi[3]]
                    };
                    let (s, c) = gm_sm2::u256::u512_add(&tl(&x), &tl(&y));
                    let sv = from_limbs(&[s[0], s[1], s[2], s[3]]) + (from_limbs(&[s[4], s[5], s[6], s[7]]) << 256);
                    sv + if c { BigUint::one() << 512 } else { BigUint::zero() } == x + y
                }
                _ => panic!("unknown raw op"),
            });
            match ok {
                Guard::Done(true) => ctx.outcome(&format!("ok/raw/{}", op)),
                Guard::Done(false) => ctx.violation(&site, "wrong-value", format!("a={} b={}", hexbig(&a), hexbig(&b)), cj()),
                Guard::Panic(p) => ctx.violation(&site, &format!("panic/{}", panic_site(&p)), format!("a={} b={} {}", hexbig(&a), hexbig(&b), p), cj()),
            }
        }
        Case::Add { k1, l1, k2, l2 } => {
            let (k1, l1, k2, l2) = (hb(k1), hb(l1), hb(k2), hb(l2));
            let (p1, r1) = rep_point(&k1, &l1);
            let (p2, r2) = rep_point(&k2, &l2);
            let want = sm2::add(&r1, &r2);
            ctx.call();
            ctx.trace();
            let rel = if r1.is_none() || r2.is_none() {
                "with-infinity"
            } else if r1 == r2 {
                "P=Q"
            } else if sm2::add(&r1, &r2).is_none() {
                "P=-Q"
            } else {
                "generic"
            };
            let cls = format!("{}/{}+{}", rel, rep_class(&l1), rep_class(&l2));
            match guard(|| p1.point_add(&p2)) {
                Guard::Done(r) if ref_point(&r) == want => ctx.outcome(&format!("ok/add/{}", cls)),
                Guard::Done(r) => ctx.violation("Point::point_add", &format!("wrong-sum/{}", cls), format!("P=[{}]G Z={} Q=[{}]G Z={} got={} want={}", hexbig(&k1), hexbig(&l1), hexbig(&k2), hexbig(&l2), pt_str(&ref_point(&r)), pt_str(&want)), cj()),
                Guard::Panic(p) => ctx.violation("Point::point_add", &format!("panic/{}/{}", panic_site(&p), cls), p, cj()),
            }
        }
        Case::AddXY { x1, y1, l1, x2, y2, l2, tag } => {
            let (r1, r2): (Pt, Pt) = (Some((hb(x1), hb(y1))), Some((hb(x2), hb(y2))));
            let (l1, l2) = (hb(l1), hb(l2));
            if !sm2::params().curve.on_curve(&r1) || !sm2::params().curve.on_curve(&r2) {
                ctx.machinery_error("AddXY operand is not on the curve");
                return;
            }
            let (p1, p2) = (lib_point(&r1, &l1), lib_point(&r2, &l2));
            let want = sm2::add(&r1, &r2);
            ctx.call();
            ctx.trace();
            let cls = format!("{}/{}+{}", tag, rep_class(&l1), rep_class(&l2));
            match guard(|| p1.point_add(&p2)) {
                Guard::Done(r) if ref_point(&r) == want => ctx.outcome(&format!("ok/add/{}", cls)),
                Guard::Done(r) => ctx.violation("Point::point_add", &format!("wrong-sum/{}", cls), format!("P=({}, {}) Z={} Q=({}, {}) Z={} got={} want={}", x1, y1, hexbig(&l1), x2, y2, hexbig(&l2), pt_str(&ref_point(&r)), pt_str(&want)), cj()),
                Guard::Panic(p) => ctx.violation("Point::point_add", &format!("panic/{}/{}", panic_site(&p), cls), p, cj()),
            }
        }
        Case::Unary { k, l } => {
            let (k, l) = (hb(k), hb(l));
            let (p, r) = rep_point(&k, &l);
            unary_checks(ctx, &p, &r, rep_class(&l), format!("[{}]G Z={}", hexbig(&k), hexbig(&l)), &cj);
        }
        Case::UnaryXY { x, y, l, tag } => {
            let r: Pt = Some((hb(x), hb(y)));
            let l = hb(l);
            if !pr.curve.on_curve(&r) {
                ctx.machinery_error("UnaryXY operand is not on the curve");
                return;
            }
            let p = lib_point(&r, &l);
            let cls = format!("{}/{}", tag, rep_class(&l));
            unary_checks(ctx, &p, &r, &cls, format!("({}, {}) Z={}", x, y, hexbig(&l)), &cj);
            // small multiples and the inverse, variable-base
            ctx.calls(4);
            for kk in [BigUint::from(2u32), BigUint::from(3u32), &pr.n - 1u32, &pr.n + 1u32] {
                match guard(|| p.scalar_mul(&scalar(&kk))) {
                    Guard::Done(q) if ref_point(&q) == sm2::mul(&(&kk % &pr.n), &r) => {}
                    other => ctx.violation("Point::scalar_mul", &format!("wrong-product/{}", cls), format!("[{}]({}, {}) Z={} -> {}", hexbig(&kk), x, y, hexbig(&l), gp(&other)), cj()),
                }
            }
            // reached as a sum: 2P + (-P) = P, through the library's own doubling, negation and addition
            match guard(|| p.point_dbl().point_add(&p.neg())) {
                Guard::Done(q) if ref_point(&q) == r => {
                    let desc = format!("2P + (-P) for P = ({}, {}) Z={}", x, y, hexbig(&l));
                    unary_checks(ctx, &q, &r, &format!("{}/reached-as-a-sum", tag), desc, &cj);
                }
                other => ctx.violation("Point::point_add", &format!("wrong-sum/{}/2P+(-P)", cls), gp(&other), cj()),
            }
        }
        Case::InfOps { ix, iy, k, l } => {
            let (k, l) = (hb(k), hb(l));
            let o = Point { x: to_mont(&hb(ix)), y: to_mont(&hb(iy)), z: [0; 4] };
            let (q, rq) = rep_point(&k, &l);
            let cls = "infinity-as-(t^2:t^3:0)".to_string();
            ctx.calls(7);
            ctx.trace();
            let desc = format!("O=({}:{}:0) Q=[{}]G Z={}", ix, iy, hexbig(&k), hexbig(&l));
            let checks: Vec<(&str, Guard<Point>, Pt)> = vec![
                ("O+Q", guard(|| o.point_add(&q)), rq.clone()),
                ("Q+O", guard(|| q.point_add(&o)), rq.clone()),
                ("O+O", guard(|| o.point_add(&o)), None),
                ("dbl(O)", guard(|| o.point_dbl()), None),
                ("neg(O)", guard(|| o.neg()), None),
                ("[3]O", guard(|| o.scalar_mul(&scalar(&BigUint::from(3u32)))), None),
                ("(O+Q)+Q", guard(|| o.point_add(&q).point_add(&q)), sm2::add(&rq, &rq)),
            ];
            let mut ok = true;
            for (name, got, want) in checks {
                match got {
                    Guard::Done(r) if ref_point(&r) == want => {}
                    other => {
                        ok = false;
                        ctx.violation("Point::point_add", &format!("wrong-result-with-infinity/{}/{}", name, cls), format!("{} -> {} want={}", desc, gp(&other), pt_str(&want)), cj());
                    }
                }
            }
            match guard(|| o.is_zero()) {
                Guard::Done(true) => {}
                other => {
                    ok = false;
                    ctx.violation("Point::is_zero", &format!("infinity-not-recognised/{}", cls), format!("{} -> {:?}", desc, other), cj());
                }
            }
            if ok {
                ctx.outcome(&format!("ok/{}", cls));
            }
        }
        Case::OffCurve { k, l, which } => {
            let (k, l) = (hb(k), hb(l));
            let (mut p, _) = rep_point(&k, &l);
            let bump = |v: &[u64; 4]| to_mont(&((from_mont(v) + 1u32) % &pr.p));
            match which {
                0 => p.x = bump(&p.x),
                1 => p.y = bump(&p.y),
                _ => p.z = bump(&p.z),
            }
            // bumped Z could be 0 (infinity) only if Z = p-1: then it is "valid"; compute the truth with big integers
            let (x, y, z) = (from_mont(&p.x), from_mont(&p.y), from_mont(&p.z));
            let z2 = (&z * &z) % &pr.p;
            let z4 = (&z2 * &z2) % &pr.p;
            let z6 = (&z4 * &z2) % &pr.p;
            let truth = z.is_zero() || (&y * &y) % &pr.p == (&x * &x * &x + &pr.a * &x * &z4 + &pr.b * &z6) % &pr.p;
            ctx.call();
            ctx.trace();
            match guard(|| p.is_valid()) {
                Guard::Done(v) if v == truth => ctx.outcome("ok/is_valid/off-curve"),
                other => ctx.violation("Point::is_valid", "off-curve-triple-misjudged", format!("[{}]G Z={} bumped {} truth={} -> {:?}", hexbig(&k), hexbig(&l), which, truth, other), cj()),
            }
            if z.is_one() {
                let t2 = (&y * &y) % &pr.p == (&x * &x * &x + &pr.a * &x + &pr.b) % &pr.p;
                match guard(|| p.is_valid_affine_point()) {
                    Guard::Done(v) if v == t2 => {}
                    other => ctx.violation("Point::is_valid_affine_point", "off-curve-point-misjudged", format!("truth={} -> {:?}", t2, other), cj()),
                }
            }
        }
        Case::ScalarMul { base, l, scalar, tag } => {
            let (bk, l, s) = (hb(base), hb(l), hb(scalar));
            let (p, r) = rep_point(&bk, &l);
            let want = sm2::mul(&s, &r);
            ctx.call();
            ctx.trace();
            let sl = to_limbs(&s);
            match guard(|| p.scalar_mul(&sl)) {
                Guard::Done(q) if ref_point(&q) == want => ctx.outcome(&format!("ok/scalar_mul/{}", tag)),
                Guard::Done(q) => ctx.violation("Point::scalar_mul", &format!("wrong-multiple/{}", tag), format!("base=[{}]G Z={} k={} got={} want={}", hexbig(&bk), hexbig(&l), hexbig(&s), pt_str(&ref_point(&q)), pt_str(&want)), cj()),
                Guard::Panic(pn) => ctx.violation("Point::scalar_mul", &format!("panic/{}/{}", panic_site(&pn), tag), pn, cj()),
            }
        }
        Case::GMul { scalar, tag } => {
            let s = hb(scalar);
            let want = sm2::g_mul(&s);
            ctx.call();
            ctx.trace();
            let sl = to_limbs(&s);
            match guard(|| g_mul(&sl)) {
                Guard::Done(q) if ref_point(&q) == want => ctx.outcome(&format!("ok/g_mul/{}", tag)),
                Guard::Done(q) => ctx.violation("g_mul", &format!("wrong-multiple/{}", tag), format!("k={} got={} want={}", hexbig(&s), pt_str(&ref_point(&q)), pt_str(&want)), cj()),
                Guard::Panic(pn) => ctx.violation("g_mul", &format!("panic/{}/{}", panic_site(&pn), tag), pn, cj()),
            }
        }
        Case::MulSeq { steps } => {
            for (i, (bk, l, negate, sc)) in steps.iter().enumerate() {
                let (bk, l, s) = (hb(bk), hb(l), hb(sc));
                let (mut p, mut r) = rep_point(&bk, &l);
                if *negate {
                    p = p.neg();
                    r = pr.curve.neg(&r);
                }
                let want = sm2::mul(&s, &r);
                ctx.call();
                let sl = to_limbs(&s);
                match guard(|| p.scalar_mul(&sl)) {
                    Guard::Done(q) if ref_point(&q) == want => {}
                    Guard::Done(q) => {
                        ctx.violation("Point::scalar_mul", &format!("wrong-multiple/in-sequence/step{}of{}", i + 1, steps.len()), format!("steps={:?} got={} want={}", steps, pt_str(&ref_point(&q)), pt_str(&want)), cj());
                        return;
                    }
                    Guard::Panic(pn) => {
                        ctx.violation("Point::scalar_mul", &format!("panic/{}/in-sequence", panic_site(&pn)), pn, cj());
                        return;
                    }
                }
            }
            ctx.trace();
            ctx.outcome("ok/scalar_mul-sequence");
        }
        Case::Table { row, digit } => {
            // row r holds [d * 256^r]G for d = 1..=255 as (x, y) in Montgomery form
            let k = BigUint::from(*digit as u32) << (8 * *row);
            let want = sm2::g_mul(&k);
            ctx.call();
            ctx.trace();
            let x = SM2P256_PRECOMPUTED[*row][*digit * 2 - 2];
            let y = SM2P256_PRECOMPUTED[*row][*digit * 2 - 1];
            let got: Pt = Some((from_mont(&x), from_mont(&y)));
            if got == want {
                ctx.outcome("ok/table-entry");
            } else {
                ctx.violation("SM2P256_PRECOMPUTED", "wrong-table-entry", format!("row={} digit={}", row, digit), cj());
            }
        }
    }
}

/// doubling, negation, validity, affine conversion and both SEC1 encodings of one library point whose affine value is r
fn unary_checks(ctx: &Ctx, p: &Point, r: &Pt, cls: &str, desc: String, cj: &dyn Fn() -> Value) {
    let pr = sm2::params();
    let r = r.clone();
    ctx.calls(5);
    ctx.trace();
    // doubling
    match guard(|| p.point_dbl()) {
        Guard::Done(d) if ref_point(&d) == sm2::add(&r, &r) => ctx.outcome(&format!("ok/dbl/{}", cls)),
        other => ctx.violation("Point::point_dbl", &format!("wrong-double/{}", cls), format!("{} -> {}", desc, gp(&other)), cj()),
    }
    // negation
    match guard(|| p.neg()) {
        Guard::Done(d) if ref_point(&d) == pr.curve.neg(&r) => {}
        other => ctx.violation("Point::neg", &format!("wrong-negation/{}", cls), format!("{} -> {}", desc, gp(&other)), cj()),
    }
    // predicates (whether the point at infinity counts as "valid" is a convention, not judged)
    if r.is_some() {
        match guard(|| p.is_valid()) {
            Guard::Done(true) => {}
            other => ctx.violation("Point::is_valid", &format!("valid-point-rejected/{}", cls), format!("{} -> {:?}", desc, other), cj()),
        }
    }
    if r.is_some() {
        // affine conversion (finite points only)
        match guard(|| p.to_affine_point()) {
            Guard::Done(a) if ref_point(&a) == r && from_mont(&a.z).is_one() => {
                match guard(|| a.is_valid_affine_point()) {
                    Guard::Done(true) => {}
                    other => ctx.violation("Point::is_valid_affine_point", &format!("valid-point-rejected/{}", cls), format!("{:?}", other), cj()),
                }
                // SEC1 encodings of the point, both forms
                for comp in [false, true] {
                    match guard(|| p.to_byte_be(comp)) {
                        Guard::Done(b) if b == sm2::encode_point(&r, comp) => {}
                        other => ctx.violation("Point::to_byte_be", &format!("wrong-encoding/{}", cls), format!("compressed={} -> {:?}", comp, other), cj()),
                    }
                }
            }
            other => ctx.violation("Point::to_affine_point", &format!("wrong-affine/{}", cls), format!("{} -> {}", desc, gp(&other)), cj()),
        }
    }
}

fn gp(g: &Guard<Point>) -> String {
    match g {
        Guard::Done(p) => pt_str(&ref_point(p)),
        Guard::Panic(p) => format!("panic {}", p),
    }
}

pub fn replay(ctx: &Arc<Ctx>, v: &Value) {
    if crate::cold::replay(ctx, v) {
        return;
    }
    let c: Case = serde_json::from_value(v.clone()).expect("C11 case");
    eval(ctx, &c);
}

/// 4-limb values with limbs from {0, 1, 2^32, 2^63, 2^64-1}
fn limb_patterns() -> Vec<BigUint> {
    let l = [0u64, 1, 1 << 32, 1 << 63, u64::MAX];
    let mut v = Vec::new();
    for a in l {
        for b in l {
            for c in l {
                for d in l {
                    v.push(from_limbs(&[a, b, c, d]));
                }
            }
        }
    }
    v
}

fn field_alphabet(m: &BigUint, seed: u64, tag: &str) -> (Vec<BigUint>, Vec<BigUint>) {
    let r256: BigUint = BigUint::one() << 256usize;
    let mut extreme: Vec<BigUint> = vec![BigUint::zero(), BigUint::one(), BigUint::from(2u32)];
    for d in 1..=4u32 {
        extreme.push(m - d);
    }
    extreme.push(&r256 - m);
    extreme.push(&r256 - m - 1u32);
    extreme.push(&r256 - m + 1u32);
    extreme.push(m >> 1);
    extreme.push((m >> 1) + 1u32);
    extreme.push(&r256 % m);
    extreme.push((&r256 * &r256) % m);
    // values whose Montgomery form is the plain integer 1, 2 or m-1 (R^-1, 2 R^-1, -R^-1): a comparison with a plain
    // constant instead of the Montgomery constant fires exactly on these
    let rinv = r256.modpow(&(m - 2u32), m);
    extreme.push(rinv.clone());
    extreme.push((&rinv * 2u32) % m);
    extreme.push(m - &rinv);
    extreme.push((BigUint::one() << 255) % m);
    extreme.push((BigUint::one() << 128) - 1u32);
    // values a with k*a on and next to a reduction threshold (m, 2m, 3m, 2^256, 2^256+m, 2^256+2m, 2^257) for k = 2, 3:
    // doubling / tripling / adding equal operands with a single conditional subtraction or a dropped wrap goes wrong just there
    for t in [m.clone(), m * 2u32, m * 3u32, r256.clone(), &r256 + m, &r256 + m * 2u32, &r256 * 2u32] {
        for k in [2u32, 3] {
            let q = &t / k;
            for v in [&q - 1u32, q.clone(), &q + 1u32] {
                if &v < m {
                    extreme.push(v);
                }
            }
        }
    }
    let mut g = SplitMix::new(seed, tag);
    for _ in 0..4 {
        extreme.push(g.below(m));
    }
    let pats: Vec<BigUint> = limb_patterns().into_iter().filter(|x| x < m).collect();
    // extreme also gets the sparse/dense single-limb patterns
    for x in pats.iter().step_by(17) {
        extreme.push(x.clone());
    }
    extreme.sort();
    extreme.dedup();
    let mut all = pats;
    all.extend(extreme.iter().cloned());
    all.sort();
    all.dedup();
    (all, extreme)
}

pub fn run(ctx: &Arc<Ctx>) {
    refmodels::selftest::run(&["sm2"]).unwrap_or_else(|e| ctx.machinery_error(format!("reference self-test failed: {}", e)));
    let pr = sm2::params();
    let (p, n) = (pr.p.clone(), pr.n.clone());
    ctx.set_rule("fields: operands = all 4-limb values with limbs in {0,1,2^32,2^63,2^64-1} below the modulus, values within 4 of it, 2^256-m, m/2, R, R^2, T/k + {-1,0,1} for k in {2,3} and T in {m,2m,3m,2^256,2^256+m,2^256+2m,2^257}, seeded; unary ops on all, binary ops on all x extreme (thorough: all x all); crafted Montgomery products landing on 0, 1, m-1. Raw u256/u512 helpers on all limb patterns. Group: [j]G for j in {1,2,3,5,n-1,n-2,seeded} x Z in {1,2,p-1,seeded,R^-1 (stored as plain 1),R} plus 3 encodings of infinity, all ordered pairs through point_add, triples of different points sharing y (and their negatives) in 3 representations through point_add, all through dbl/neg/affine/validity/SEC1; points with x = 0, with the smallest positive and the largest x (both roots, 6 representations, also reached as 2P + (-P)) through the same battery and small multiples, likewise points with y in {1, 2, R^-1, 2R^-1} (x by cubic root search) and their negatives; the point at infinity in 5 Jacobian encodings (t^2 : t^3 : 0) met with finite points and itself; representations of G whose stored Y^4 / Y^2 sits next to a reduction threshold of 8x / 4x / 2x; off-curve triples; scalars {0,1,2,15,16,17,n-1, w, n-w, n+w for w<=300, 2^256-1, every v*16^i, every b*256^i, adjacent-byte sums, long runs of one bits, seeded} through g_mul / scalar_mul of 3 bases and of the point at infinity in 3 encodings; all 32x255 table entries; all sequences of <= 2 (thorough 3) scalar multiplications over related bases {B, -B, B re-represented, other point} x 2 scalars on one thread. Oracle: affine big-integer arithmetic.");
    let mut cases: Vec<Case> = Vec::new();
    let h = |x: &BigUint| hexbig(x);
    // ---- fields
    for (mname, md) in [("p", &p), ("n", &n)] {
        let (all, extreme) = field_alphabet(md, ctx.seed, &format!("c11{}", mname));
        ctx.cov(&format!("field_{}_alphabet", mname), json!({"all": all.len(), "extreme": extreme.len()}));
        let unary: &[&str] = if mname == "p" { &["sqr", "double", "triple", "inv", "sqrt"] } else { &["to_mont", "from_mont"] };
        for a in &all {
            for op in unary {
                if *op == "inv" && a.is_zero() {
                    continue;
                }
                cases.push(Case::Field { m: mname.into(), op: op.to_string(), a: h(a), b: h(&BigUint::zero()) });
            }
        }
        let binary: &[&str] = if mname == "p" { &["add", "sub", "montmul"] } else { &["add", "sub", "mul"] };
        let rhs: &Vec<BigUint> = if ctx.tier == Tier::Thorough { &all } else { &extreme };
        for a in &all {
            for b in rhs {
                for op in binary {
                    cases.push(Case::Field { m: mname.into(), op: op.to_string(), a: h(a), b: h(b) });
                }
            }
        }
        // exponentiation
        let exps = [BigUint::zero(), BigUint::one(), BigUint::from(2u32), md - 2u32, md - 1u32, (BigUint::one() << 255), SplitMix::new(ctx.seed, "c11exp").below(md)];
        for a in &extreme {
            for e in &exps {
                cases.push(Case::Field { m: mname.into(), op: "pow".into(), a: h(a), b: h(e) });
            }
        }
        // crafted products: b = t * R / a (p: Montgomery product a b R^-1 = t); n: a b = t
        let r256: BigUint = BigUint::one() << 256usize;
        for a in extreme.iter().filter(|a| !a.is_zero()) {
            for t in [BigUint::zero(), BigUint::one(), md - 1u32] {
                let ainv = a.modpow(&(md - 2u32), md);
                let b = if mname == "p" { (&t * &r256 % md) * &ainv % md } else { &t * &ainv % md };
                cases.push(Case::Field { m: mname.into(), op: if mname == "p" { "montmul".into() } else { "mul".into() }, a: h(a), b: h(&b) });
            }
        }
    }
    // ---- raw helpers
    let pats = limb_patterns();
    let rawx: Vec<&BigUint> = pats.iter().step_by(ctx.tier.pick(7, 1)).collect();
    for a in &pats {
        for b in &rawx {
            for op in ["u256_add", "u256_sub", "u256_mul", "u256_cmp"] {
                cases.push(Case::Raw { op: op.into(), a: h(a), b: h(b) });
            }
        }
    }
    for a in pats.iter().step_by(5) {
        for b in pats.iter().step_by(11) {
            cases.push(Case::Raw { op: "u512_add".into(), a: h(a), b: h(b) });
        }
    }
    // ---- group
    let mut g = SplitMix::new(ctx.seed, "c11grp");
    let js: Vec<BigUint> = vec![BigUint::one(), BigUint::from(2u32), BigUint::from(3u32), BigUint::from(5u32), &n - 1u32, &n - 2u32, g.nonzero_below(&n)];
    // Z = R^-1 mod p is stored as the plain limbs [1,0,0,0]; Z = R mod p as R^2 mod p
    let rinv_p = (BigUint::one() << 256usize).modpow(&(&p - 2u32), &p);
    let lambdas: Vec<BigUint> = vec![BigUint::one(), BigUint::from(2u32), &p - 1u32, g.nonzero_below(&p), rinv_p.clone(), (BigUint::one() << 256usize) % &p];
    let mut reps: Vec<(BigUint, BigUint)> = Vec::new();
    for j in &js {
        for l in &lambdas {
            reps.push((j.clone(), l.clone()));
        }
    }
    for x in [BigUint::one(), BigUint::from(2u32), g.nonzero_below(&p)] {
        reps.push((x, BigUint::zero()));
    }
    for (k1, l1) in &reps {
        for (k2, l2) in &reps {
            cases.push(Case::Add { k1: h(k1), l1: h(l1), k2: h(k2), l2: h(l2) });
        }
        cases.push(Case::Unary { k: h(k1), l: h(l1) });
        if !l1.is_zero() {
            for which in 0..3u8 {
                cases.push(Case::OffCurve { k: h(k1), l: h(l1), which });
            }
        }
    }
    // representations (l^2 x_G, l^3 y_G, l) of G chosen so that a power of the stored Y sits on a reduction threshold of a small
    // multiple: m * stored(Y^e) next to T for (e, m) in {(4, 8), (2, 4), (2, 2)} and T in {k p, k 2^256, 2^256 + p}: a doubling
    // that multiplies by 8 / 4 / 2 with a single conditional subtraction or a dropped carry goes wrong exactly there.
    // Y = (v R^-1)^(1/e), l = (Y / y_G)^(1/3) (p = 2 mod 3: every element has one cube root)
    {
        let r256: BigUint = BigUint::one() << 256usize;
        let rinv = r256.modpow(&(&p - 2u32), &p);
        let (_, gy) = pr.g.clone().unwrap();
        let gy_inv = gy.modpow(&(&p - 2u32), &p);
        let cbrt = |a: &BigUint| a.modpow(&((&p * 2u32 - 1u32) / 3u32), &p);
        let mut ts: Vec<BigUint> = Vec::new();
        for k in 1u32..=8 {
            ts.push(&p * k);
            ts.push(&r256 * k);
        }
        ts.push(&r256 + &p);
        let mut count = 0;
        for (e, m) in [(4u32, 8u32), (2, 4), (2, 2)] {
            for t in &ts {
                let q = t / m;
                let mut found = 0;
                // nearest stored values on both sides of the threshold that have an e-th root
                for delta in 0..40u32 {
                    for v in [&q + delta, if q > BigUint::from(delta + 1) { &q - (delta + 1) } else { BigUint::zero() }] {
                        if v >= p || v.is_zero() {
                            continue;
                        }
                        let val = (&v * &rinv) % &p;
                        let root = if e == 2 { sm2::sqrt_mod_p(&val) } else { sm2::sqrt_mod_p(&val).and_then(|r| sm2::sqrt_mod_p(&r).or_else(|| sm2::sqrt_mod_p(&(&p - &r)))) };
                        let Some(yv) = root else { continue };
                        if yv.modpow(&BigUint::from(e), &p) != val {
                            continue;
                        }
                        let l = cbrt(&((&yv * &gy_inv) % &p));
                        if l.is_zero() || (&l * &l * &l * &gy) % &p != yv {
                            continue;
                        }
                        cases.push(Case::Unary { k: h(&BigUint::one()), l: h(&l) });
                        cases.push(Case::Add { k1: h(&BigUint::one()), l1: h(&l), k2: h(&BigUint::one()), l2: h(&l) });
                        cases.push(Case::Add { k1: h(&BigUint::one()), l1: h(&l), k2: h(&BigUint::from(2u32)), l2: h(&BigUint::one()) });
                        count += 1;
                        found += 1;
                    }
                    if found >= 2 {
                        break;
                    }
                }
            }
        }
        ctx.cov("representations_with_a_power_of_Y_on_a_reduction_threshold", json!(count));
    }
    // different points sharing y: for P = (x1, y) the other roots of x^3 + a x + (b - y^2) are those of
    // x^2 + x1 x + (x1^2 + a); with Q, T the two further points, P + Q + T = O. Every ordered pair of {+-P, +-Q, +-T} in
    // three representations goes through point_add ("equal y" is not "equal point", "equal x" is not "equal point").
    {
        let a = sm2::params().a.clone();
        let mut triples = 0;
        let mut j = BigUint::from(2u32);
        while triples < 2 && j < BigUint::from(400u32) {
            let (x1, y1) = sm2::g_mul(&j).unwrap();
            // discriminant -3 x1^2 - 4 a
            let dsc = (&p * 8u32 - (BigUint::from(3u32) * &x1 * &x1) % &p - (BigUint::from(4u32) * &a) % &p) % &p;
            let s = dsc.modpow(&((&p + 1u32) / 4u32), &p);
            if (&s * &s) % &p == dsc && !dsc.is_zero() {
                let inv2 = (&p + 1u32) / 2u32;
                let x2 = ((&p - &x1 + &s) % &p * &inv2) % &p;
                let x3 = ((&p * 2u32 - &x1 - &s) % &p * &inv2) % &p;
                let pts: Vec<(BigUint, BigUint)> = vec![(x1.clone(), y1.clone()), (x2.clone(), y1.clone()), (x3.clone(), y1.clone()), (x1.clone(), &p - &y1), (x2.clone(), &p - &y1), (x3.clone(), &p - &y1)];
                let zs = [BigUint::one(), BigUint::from(2u32), g.nonzero_below(&p)];
                for (a1, (xa, ya)) in pts.iter().enumerate() {
                    for (a2, (xb, yb)) in pts.iter().enumerate() {
                        let tag = if a1 == a2 { "same-point" } else if a1 % 3 == a2 % 3 { "opposite-points" } else if (a1 < 3) == (a2 < 3) { "same-y-different-x" } else { "opposite-y-different-x" };
                        for l1 in &zs {
                            for l2 in &zs {
                                cases.push(Case::AddXY { x1: h(xa), y1: h(ya), l1: h(l1), x2: h(xb), y2: h(yb), l2: h(l2), tag: tag.into() });
                            }
                        }
                    }
                }
                triples += 1;
            }
            j += 1u32;
        }
        ctx.cov("same_y_point_triples", json!(triples));
        if triples == 0 {
            ctx.machinery_error("no triple of points sharing y found");
        }
    }
    // points with a zero coordinate and their neighbours: b is a square, so (0, +-sqrt(b)) are finite curve points that no
    // small multiple of G reaches; also the points with the smallest positive x and the largest x below p
    {
        let mut xs: Vec<(BigUint, &str)> = vec![(BigUint::zero(), "x=0")];
        let mut x = BigUint::one();
        while sm2::sqrt_mod_p(&((&x * &x * &x + &pr.a * &x + &pr.b) % &p)).is_none() {
            x += 1u32;
        }
        xs.push((x, "smallest-positive-x"));
        let mut x = &p - 1u32;
        while sm2::sqrt_mod_p(&((&x * &x * &x + &pr.a * &x + &pr.b) % &p)).is_none() {
            x -= 1u32;
        }
        xs.push((x, "largest-x"));
        let mut count = 0;
        for (x, tag) in &xs {
            let Some(y) = sm2::sqrt_mod_p(&((x * x * x + &pr.a * x + &pr.b) % &p)) else {
                ctx.machinery_error(format!("no curve point with {}", tag));
                continue;
            };
            for yy in [y.clone(), &p - &y] {
                for l in &lambdas {
                    cases.push(Case::UnaryXY { x: h(x), y: h(&yy), l: h(l), tag: (*tag).into() });
                    count += 1;
                }
                // and as operands of point_add with G and with themselves / their negatives
                let (gx, gy) = pr.g.clone().unwrap();
                for l1 in [BigUint::one(), BigUint::from(2u32)] {
                    for l2 in [BigUint::one(), BigUint::from(2u32)] {
                        cases.push(Case::AddXY { x1: h(x), y1: h(&yy), l1: h(&l1), x2: h(&gx), y2: h(&gy), l2: h(&l2), tag: format!("{}+G", tag) });
                        cases.push(Case::AddXY { x1: h(&gx), y1: h(&gy), l1: h(&l1), x2: h(x), y2: h(&yy), l2: h(&l2), tag: format!("G+{}", tag) });
                        cases.push(Case::AddXY { x1: h(x), y1: h(&yy), l1: h(&l1), x2: h(x), y2: h(&yy), l2: h(&l2), tag: format!("{}/same-point", tag) });
                        cases.push(Case::AddXY { x1: h(x), y1: h(&yy), l1: h(&l1), x2: h(x), y2: h(&(&p - &yy)), l2: h(&l2), tag: format!("{}/opposite-points", tag) });
                    }
                }
            }
        }
        // points with a chosen ordinate (x from the reference's cubic root search): y in {1, 2, R^-1, 2 R^-1} and their negatives
        let mut ycount = 0;
        for (yl, yv) in [("y=1", BigUint::one()), ("y=2", BigUint::from(2u32)), ("y=R^-1", rinv_p.clone()), ("y=2R^-1", (&rinv_p * 2u32) % &p)] {
            for x in sm2::xs_for_y(&yv).iter().take(2) {
                for yy in [yv.clone(), &p - &yv] {
                    for l in [BigUint::one(), BigUint::from(2u32), rinv_p.clone()] {
                        cases.push(Case::UnaryXY { x: h(x), y: h(&yy), l: h(&l), tag: yl.into() });
                        ycount += 1;
                    }
                }
            }
        }
        ctx.cov("points_with_chosen_y", json!(ycount));
        ctx.cov("points_with_extreme_x", json!(count));
    }
    // the Jacobian encodings of the point at infinity, (t^2 : t^3 : 0) for t != 0 — not only the library's own (1 : 1 : 0) —
    // met with finite points and with each other: O + Q, Q + O, O + O, 2O, -O, [3]O, (O + Q) + Q, is_zero.
    // (Triples with Z = 0 that are not of this form, such as (0 : 1 : 0) or (0 : 0 : 0), denote no point and are not judged.)
    {
        let ts = [BigUint::one(), BigUint::from(2u32), &p - 1u32, rinv_p.clone(), g.nonzero_below(&p)];
        let mut count = 0;
        for t in &ts {
            let (ix, iy) = ((t * t) % &p, (t * t * t) % &p);
            for (k, l) in [(BigUint::one(), BigUint::one()), (BigUint::from(5u32), BigUint::from(2u32)), (&n - 1u32, &p - 1u32), (BigUint::one(), BigUint::zero())] {
                cases.push(Case::InfOps { ix: h(&ix), iy: h(&iy), k: h(&k), l: h(&l) });
                count += 1;
            }
        }
        ctx.cov("infinity_encodings_x_partners", json!(count));
    }
    // the point at infinity as the base of a scalar multiplication, in the canonical (1,1,0) and in other encodings
    for t in [BigUint::one(), BigUint::from(2u32), g.nonzero_below(&p)] {
        for k in [BigUint::zero(), BigUint::one(), BigUint::from(2u32), BigUint::from(3u32), BigUint::from(16u32), &n - 1u32, n.clone(), g.below(&n)] {
            cases.push(Case::ScalarMul { base: h(&t), l: h(&BigUint::zero()), scalar: h(&k), tag: "infinity-base".into() });
        }
    }
    // scalars
    let mut scalars: Vec<(String, BigUint)> = Vec::new();
    for v in [0u32, 1, 2, 15, 16, 17] {
        scalars.push(("small".into(), BigUint::from(v)));
    }
    scalars.push(("n-1".into(), &n - 1u32));
    {
        let ones_runs: Vec<BigUint> = {
        // runs of one bits: 2^k - 1 and 64 / 56 consecutive ones at several offsets (a "+1" that must ripple across
        // limbs in a signed-digit recoding, a bit length taken through floating point, a window that is all ones)
        let one = BigUint::one();
        let mut v: Vec<BigUint> = Vec::new();
        for k in [49u32, 56, 63, 64, 65, 112, 127, 128, 129, 191, 192, 193, 255] {
            v.push((&one << k) - &one);
        }
        for s in [1u32, 13, 48, 64, 100, 128, 150, 190] {
            v.push(((&one << 64u32) - &one) << s);
            v.push(((&one << 56u32) - &one) << s);
        }
        v
    };
        for v in ones_runs {
            scalars.push(("runs-of-ones".into(), v));
        }
    }
    for w in 0..=300u32 {
        scalars.push(("n-w".into(), &n - w));
        scalars.push(("w".into(), BigUint::from(w)));
        scalars.push(("n+w".into(), &n + w));
    }
    scalars.push(("2^256-1".into(), (BigUint::one() << 256) - 1u32));
    scalars.push(("p".into(), p.clone()));
    for i in 0..64u32 {
        for v in 1..16u32 {
            scalars.push(("v*16^i".into(), BigUint::from(v) << (4 * i)));
        }
    }
    for _ in 0..4 {
        scalars.push(("seeded".into(), g.below(&(BigUint::one() << 256))));
    }
    let bases = [(BigUint::one(), BigUint::one()), (js[6].clone(), lambdas[3].clone()), (&n - 1u32, BigUint::from(2u32))];
    for (bk, bl) in &bases {
        for (tag, s) in &scalars {
            cases.push(Case::ScalarMul { base: h(bk), l: h(bl), scalar: h(s), tag: tag.clone() });
        }
    }
    for (tag, s) in &scalars {
        cases.push(Case::GMul { scalar: h(s), tag: tag.clone() });
    }
    for i in 0..32u32 {
        for b in 1..=255u32 {
            cases.push(Case::GMul { scalar: h(&(BigUint::from(b) << (8 * i))), tag: "b*256^i".into() });
        }
    }
    for i in 0..31u32 {
        for (b1, b2) in [(1u32, 1u32), (255, 255), (1, 255), (128, 127), (0x5a, 0xa5)] {
            cases.push(Case::GMul { scalar: h(&((BigUint::from(b1) << (8 * i)) + (BigUint::from(b2) << (8 * (i + 1))))), tag: "adjacent-bytes".into() });
        }
    }
    // multiplication sequences over related bases: B, -B (same x and z), B in another representation, another point
    {
        let b0 = (js[6].clone(), lambdas[3].clone());
        let step_alpha: Vec<(String, String, bool, String)> = {
            let mut v = Vec::new();
            for (bk, bl, negate) in [(b0.0.clone(), b0.1.clone(), false), (b0.0.clone(), b0.1.clone(), true), (b0.0.clone(), lambdas[1].clone(), false), (js[2].clone(), b0.1.clone(), false)] {
                for sc in [BigUint::from(3u32), &n - 2u32] {
                    v.push((h(&bk), h(&bl), negate, h(&sc)));
                }
            }
            v
        };
        let depth = ctx.tier.pick(2usize, 3);
        let mut seqs: Vec<Vec<usize>> = vec![vec![]];
        for _ in 0..depth {
            let mut next = Vec::new();
            for sq in &seqs {
                for i in 0..step_alpha.len() {
                    let mut t = sq.clone();
                    t.push(i);
                    next.push(t);
                }
            }
            for sq in &next {
                cases.push(Case::MulSeq { steps: sq.iter().map(|i| step_alpha[*i].clone()).collect() });
            }
            seqs = next;
        }
    }
    let mut ntab = 0;
    for row in 0..32usize {
        for digit in 1..=255usize {
            cases.push(Case::Table { row, digit });
            ntab += 1;
        }
    }
    ctx.cov("table_entries_compared", json!(ntab));
    ctx.note_bound(format!("{} cases", cases.len()));
    ctx.sample(serde_json::to_value(&cases[1000]).unwrap());
    ctx.sample(serde_json::to_value(cases.iter().find(|c| matches!(c, Case::Add { .. })).unwrap()).unwrap());
    ctx.sample(serde_json::to_value(cases.iter().find(|c| matches!(c, Case::ScalarMul { .. })).unwrap()).unwrap());
    run_cases(ctx, &cases, 256, eval);
    ctx.assume("crate-private dead code (fp_div2, fp_neg of the trait, fn_inv) is not judged: no public operation reaches it");
    crate::cold::check(ctx, "C11");
}
