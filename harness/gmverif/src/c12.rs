//! C12 — SM9 pairing is the bilinear, non-degenerate R-ate pairing of GM/T 0044.1
use crate::engine::*;
use crate::sm9api::*;
use gm_sm9::fields::FieldElement;
use gm_sm9::verif as hook;
use num_bigint::BigUint;
use num_traits::{One, Zero};
use refmodels::ec::E2;
use refmodels::sm9::{self, F12};
use refmodels::util::{hexbig as hb, SplitMix};
use serde::{Deserialize, Serialize};
use serde_json::{json, Value};
use std::sync::{Arc, OnceLock};

#[derive(Serialize, Deserialize, Clone, Debug)]
pub enum Case {
    /// e([b]P1 in representation Z = lb, [a]P2 in representation Z = (la0, la1)); `full` = compare with a full
    /// reference Miller loop + final exponentiation on these very points, otherwise with e(P1,P2)^(ab)
    Pair { a: String, b: String, la: [String; 2], lb: String, full: bool, tag: String },
    /// order / non-degeneracy identities on the library's e(P1, P2)
    Identities,
    /// bilinearity evaluated inside the library: e([b]P1, [a]P2) = e(P1, P2)^(ab mod N) with the library's own GT exponentiation
    Bilinear { a: String, b: String },
    /// P given by explicit affine coordinates (no known discrete logarithm), Q = [a]P2: full reference evaluation
    PairXY { px: String, py: String, a: String, lb: String, tag: String },
}

fn g0() -> &'static F12 {
    static G: OnceLock<F12> = OnceLock::new();
    G.get_or_init(|| sm9::pairing(&sm9::params().p1, &sm9::params().p2))
}

pub fn eval(ctx: &Ctx, case: &Case) {
    ctx.state();
    let cj = || serde_json::to_value(case).unwrap();
    let pr = sm9::params();
    let site = "sm9_u256_pairing";
    match case {
        Case::Pair { a, b, la, lb, full, tag } => {
            let (a, b, lb) = (hb(a), hb(b), hb(lb));
            let la: E2 = (hb(&la[0]), hb(&la[1]));
            let (pp, qq) = (sm9::g1_mul(&b, &pr.p1), sm9::g2_mul(&a, &pr.p2));
            let (lp, lq) = (lib_g1(&pp, &lb), lib_g2(&qq, &la));
            ctx.call();
            let got = guard(|| hook::pairing(&lq, &lp).to_bytes_be());
            // a or b = 0 mod N: one argument is the identity and the pairing value is 1
            let want = if pp.is_none() || qq.is_none() { sm9::f12_one() } else if *full { sm9::pairing(&pp, &qq) } else { sm9::f12_pow(g0(), &((&a * &b) % &pr.n)) };
            ctx.trace();
            let rep = format!("{}/{}", if lb.is_one() { "P:Z=1" } else { "P:Z!=1" }, if la == (BigUint::one(), BigUint::zero()) { "Q:Z=1" } else { "Q:Z!=1" });
            match got {
                Guard::Done(bytes) if bytes == sm9::f12_bytes(&want) => ctx.outcome(&format!("ok/{}/{}", if *full { "full-reference" } else { "bilinear-reference" }, rep)),
                Guard::Done(bytes) => ctx.violation(site, &format!("wrong-pairing-value/{}/{}", rep, tag), format!("a={} b={} got={}.. want={}..", hexbig(&a), hexbig(&b), hex::encode(&bytes[..32.min(bytes.len())]), f12_hex(&want)), cj()),
                Guard::Panic(p) => ctx.violation(site, &format!("panic/{}/{}", panic_site(&p), rep), p, cj()),
            }
        }
        Case::PairXY { px, py, a, lb, tag } => {
            let pp: refmodels::sm9::G1 = Some((hb(px), hb(py)));
            if !pr.e1.on_curve(&pp) {
                ctx.machinery_error("PairXY point is not on the curve");
                return;
            }
            let a = hb(a);
            let qq = sm9::g2_mul(&a, &pr.p2);
            let (lp, lq) = (lib_g1(&pp, &hb(lb)), lib_g2_affine(&qq));
            ctx.call();
            let got = guard(|| hook::pairing(&lq, &lp).to_bytes_be());
            let want = sm9::pairing(&pp, &qq);
            ctx.trace();
            match got {
                Guard::Done(bytes) if bytes == sm9::f12_bytes(&want) => ctx.outcome("ok/full-reference/explicit-point"),
                Guard::Done(bytes) => ctx.violation(site, &format!("wrong-pairing-value/explicit-point/{}", tag), format!("P=({}, {}) a={} got={}.. want={}..", px, py, hexbig(&a), hex::encode(&bytes[..32.min(bytes.len())]), f12_hex(&want)), cj()),
                Guard::Panic(p) => ctx.violation(site, &format!("panic/{}/explicit-point", panic_site(&p)), p, cj()),
            }
        }
        Case::Bilinear { a, b } => {
            let (a, b) = (hb(a), hb(b));
            let (pp, qq) = (sm9::g1_mul(&b, &pr.p1), sm9::g2_mul(&a, &pr.p2));
            if pp.is_none() || qq.is_none() {
                return;
            }
            let e = (&a * &b) % &pr.n;
            ctx.calls(3);
            ctx.trace();
            let r = guard(|| {
                let lhs = hook::pairing(&lib_g2_affine(&qq), &lib_g1_affine(&pp)).to_bytes_be();
                let g = hook::pairing(&lib_g2_affine(&pr.p2), &lib_g1_affine(&pr.p1));
                let rhs = hook::fp12_pow(&g, &refmodels::util::to_limbs(&e)).to_bytes_be();
                lhs == rhs
            });
            match r {
                Guard::Done(true) => ctx.outcome("ok/bilinear-inside-library"),
                Guard::Done(false) => ctx.violation(site, "not-bilinear-with-library-exponentiation", format!("a={} b={} ab mod N={}", hexbig(&a), hexbig(&b), hexbig(&e)), cj()),
                Guard::Panic(p) => ctx.violation(site, &format!("panic/{}/bilinear", panic_site(&p)), p, cj()),
            }
        }
        Case::Identities => {
            let (lp, lq) = (lib_g1_affine(&pr.p1), lib_g2_affine(&pr.p2));
            ctx.call();
            let g = match guard(|| hook::pairing(&lq, &lp).to_bytes_be()) {
                Guard::Done(b) => sm9::f12_from_bytes(&b),
                Guard::Panic(p) => {
                    ctx.violation(site, &format!("panic/{}", panic_site(&p)), p, cj());
                    return;
                }
            };
            ctx.trace();
            if sm9::f12_is_one(&g) {
                ctx.violation(site, "degenerate/e(P1,P2)=1", String::new(), cj());
            } else if !sm9::f12_is_one(&sm9::f12_pow(&g, &pr.n)) {
                ctx.violation(site, "e(P1,P2)-does-not-have-order-N", String::new(), cj());
            } else {
                ctx.outcome("ok/order-N-and-non-degenerate");
            }
            // GM/T 0044.5 Annex: g = e(P1, Ppub-s)
            let ks = hb("000130E78459D78545CB54C587E02CF480CE0B66340F319F348A1D5B1F2DC5F4");
            let ppubs = sm9::g2_mul(&ks, &pr.p2);
            ctx.call();
            match guard(|| hook::pairing(&lib_g2_affine(&ppubs), &lp).to_bytes_be()) {
                Guard::Done(b) if hex::encode(&b[..32]) == "4e378fb5561cd0668f906b731ac58fee25738edf09cadc7a29c0abc0177aea6d" && b == sm9::f12_bytes(&sm9::pairing(&pr.p1, &ppubs)) => ctx.outcome("ok/annex-g"),
                other => ctx.violation(site, "annex-e(P1,Ppub-s)", format!("{:?}", other.map(|b| hex::encode(&b[..32]))), cj()),
            }
        }
    }
}

pub fn replay(ctx: &Arc<Ctx>, v: &Value) {
    if crate::cold::replay(ctx, v) {
        return;
    }
    let c: Case = serde_json::from_value(v.clone()).expect("C12 case");
    eval(ctx, &c);
}

pub fn run(ctx: &Arc<Ctx>) {
    refmodels::selftest::run(&["sm9"]).unwrap_or_else(|e| ctx.machinery_error(format!("reference self-test failed: {}", e)));
    let pr = sm9::params();
    let n = pr.n.clone();
    let _ = g0();
    ctx.set_rule("P = [b]P1, Q = [a]P2 for a, b in {1,2,3,N-1,N-2,2^128,Annex ks,seeded}: full product a x b with both inputs affine, compared byte for byte (384 bytes) with e(P1,P2)^(ab) computed by the reference; the diagonal and a spread of pairs additionally against a full reference evaluation (generic Miller loop over 6t+2, two Frobenius steps, exponent (p^12-1)/N) on those very points; every pair again with Jacobian inputs Z != 1 (P, Q, both); structured Z (Q.z in Fp, purely imaginary, P.z in {2, p-1}); G1 points given by coordinates whose Montgomery form is a small plain integer (x = k R^-1, y = k R^-1) against a full reference evaluation; identity arguments (a or b = 0 mod N) give 1; bilinearity re-evaluated with the library's own GT exponentiation incl. exponents with all-zero 64-bit limbs the boundary exponents N-1, N-2 and exponents with long runs of one bits; e(P1,P2) != 1 and of order N; the GM/T 0044.5 value of e(P1,Ppub-s).");
    let mut g = SplitMix::new(ctx.seed, "c12");
    let nseed = ctx.tier.pick(4usize, 60);
    let mut sc: Vec<(String, BigUint)> = vec![
        ("1".into(), BigUint::one()),
        ("2".into(), BigUint::from(2u32)),
        ("3".into(), BigUint::from(3u32)),
        ("N-1".into(), &n - 1u32),
        ("N-2".into(), &n - 2u32),
        ("2^128".into(), BigUint::one() << 128usize),
        ("annex-ks".into(), hb("000130E78459D78545CB54C587E02CF480CE0B66340F319F348A1D5B1F2DC5F4")),
    ];
    for i in 0..nseed {
        sc.push((format!("seed{}", i), g.nonzero_below(&n)));
    }
    let one2 = [hexbig(&BigUint::one()), hexbig(&BigUint::zero())];
    let lam2 = [hexbig(&g.nonzero_below(&pr.p)), hexbig(&g.nonzero_below(&pr.p))];
    let lam1 = hexbig(&g.nonzero_below(&pr.p));
    let one1 = hexbig(&BigUint::one());
    let mut cases = vec![Case::Identities];
    for (i, (an, a)) in sc.iter().enumerate() {
        for (j, (bn, b)) in sc.iter().enumerate() {
            let tag = format!("a={}/b={}", if an.starts_with("seed") { "seed" } else { an }, if bn.starts_with("seed") { "seed" } else { bn });
            let full = i == j || (i + 2 * j) % 7 == 0;
            cases.push(Case::Pair { a: hexbig(a), b: hexbig(b), la: one2.clone(), lb: one1.clone(), full, tag: tag.clone() });
            // Jacobian representations: rotate through (P), (Q), (both)
            let (la, lb) = match (i + j) % 3 {
                0 => (one2.clone(), lam1.clone()),
                1 => (lam2.clone(), one1.clone()),
                _ => (lam2.clone(), lam1.clone()),
            };
            cases.push(Case::Pair { a: hexbig(a), b: hexbig(b), la, lb, full: false, tag });
        }
    }
    // scalars searched so that some coefficient of the pairing value starts with a zero byte (encoding corner of the 384 bytes)
    {
        let mut found = 0;
        let mut k = g.nonzero_below(&n);
        for _ in 0..200 {
            let v = sm9::f12_bytes(&sm9::f12_pow(g0(), &k));
            if v.chunks(32).any(|c| c[0] == 0) {
                cases.push(Case::Pair { a: hexbig(&k), b: hexbig(&BigUint::one()), la: one2.clone(), lb: one1.clone(), full: false, tag: "value-with-leading-zero-coefficient".into() });
                cases.push(Case::Pair { a: hexbig(&BigUint::one()), b: hexbig(&k), la: lam2.clone(), lb: lam1.clone(), full: false, tag: "value-with-leading-zero-coefficient".into() });
                found += 1;
                if found == 3 {
                    break;
                }
            }
            k = (&k + 0x9e3779b9u32) % &n;
        }
        ctx.cov("values_with_leading_zero_coefficient", json!(found));
        if found == 0 {
            ctx.machinery_error("no pairing value with a leading zero coefficient byte found");
        }
    }
    // structured Z for the Jacobian inputs: Q.z in the base field (c1 = 0, != 1), purely imaginary (c0 = 0), generic;
    // P.z in {2, p-1}. A shortcut taken for "affine-looking" Z must not change the value.
    {
        let z = hexbig(&BigUint::zero());
        let zq: Vec<[String; 2]> = vec![
            [hexbig(&BigUint::from(2u32)), z.clone()],
            [hexbig(&(&pr.p - 1u32)), z.clone()],
            [hexbig(&g.nonzero_below(&pr.p)), z.clone()],
            [z.clone(), hexbig(&BigUint::one())],
            [z.clone(), hexbig(&g.nonzero_below(&pr.p))],
            [hexbig(&BigUint::one()), hexbig(&BigUint::one())],
        ];
        let zp = [one1.clone(), hexbig(&BigUint::from(2u32)), hexbig(&(&pr.p - 1u32))];
        let pairs = [(BigUint::one(), BigUint::one()), (sc[7].1.clone(), sc[8].1.clone()), (&n - 1u32, BigUint::from(2u32))];
        for (a, b) in &pairs {
            for la in &zq {
                for lb in &zp {
                    cases.push(Case::Pair { a: hexbig(a), b: hexbig(b), la: la.clone(), lb: lb.clone(), full: false, tag: "structured-Z".into() });
                }
            }
        }
    }
    // G1 points with a coordinate whose Montgomery form is a small plain integer (x = k R^-1 mod p): a comparison with the
    // plain constant 1 instead of the Montgomery constant fires exactly there. Every curve point is in G1 (cofactor 1).
    {
        let rinv = (BigUint::one() << 256usize).modpow(&(&pr.p - 2u32), &pr.p);
        let sqrt_exp_ok = |rhs: &BigUint| -> Option<BigUint> {
            // Tonelli-Shanks is not needed: try y = rhs^((p+1)/4) only when p = 3 mod 4, else search by the curve's own sqrt
            refmodels::sm9::sqrt_fp(rhs)
        };
        let mut found = 0;
        for k in 1u32..40 {
            let x = (&rinv * k) % &pr.p;
            let rhs = (&x * &x * &x + 5u32) % &pr.p;
            if let Some(y) = sqrt_exp_ok(&rhs) {
                for (yy, lb) in [(y.clone(), one1.clone()), (&pr.p - &y, lam1.clone())] {
                    cases.push(Case::PairXY { px: hexbig(&x), py: hexbig(&yy), a: hexbig(&sc[7].1), lb, tag: "x=k*R^-1".into() });
                }
                found += 1;
                if found == 3 {
                    break;
                }
            }
        }
        // the same for y: y = k R^-1 needs a cube root of y^2 - 5 (exists for a third of the values)
        let mut found_y = 0;
        for k in 1u32..60 {
            let y = (&rinv * k) % &pr.p;
            let t = (&y * &y + &pr.p - 5u32) % &pr.p;
            if let Some(x) = refmodels::sm9::cbrt_fp(&t) {
                cases.push(Case::PairXY { px: hexbig(&x), py: hexbig(&y), a: hexbig(&sc[8].1), lb: one1.clone(), tag: "y=k*R^-1".into() });
                cases.push(Case::PairXY { px: hexbig(&x), py: hexbig(&y), a: hexbig(&BigUint::one()), lb: lam1.clone(), tag: "y=k*R^-1".into() });
                found_y += 1;
                if found_y == 3 {
                    break;
                }
            }
        }
        found += found_y;
        ctx.cov("explicit_points_with_montgomery_small_coordinate", json!(found));
        if found == 0 {
            ctx.machinery_error("no curve point with x = k R^-1 found");
        }
    }
    // G1 points with a small or "minus small" coordinate: x in {p-1, p-2, 1, 2, 0} (x = -1 gives the point (-1, +-2)) and
    // y in {1, 2, p-1, p-2}: a shortcut for the multipliers 0, +-1, +-2 in the line evaluations fires exactly there
    {
        let mut count = 0;
        for x in [&pr.p - 1u32, &pr.p - 2u32, BigUint::one(), BigUint::from(2u32), BigUint::zero()] {
            let rhs = (&x * &x * &x + 5u32) % &pr.p;
            if let Some(y) = refmodels::sm9::sqrt_fp(&rhs) {
                for (yy, lb) in [(y.clone(), one1.clone()), (&pr.p - &y, lam1.clone())] {
                    cases.push(Case::PairXY { px: hexbig(&x), py: hexbig(&yy), a: hexbig(&sc[7].1), lb, tag: "x-small-or-minus-small".into() });
                    count += 1;
                }
            }
        }
        for y in [BigUint::one(), BigUint::from(2u32), &pr.p - 1u32, &pr.p - 2u32] {
            let t = (&y * &y + &pr.p - 5u32) % &pr.p;
            if let Some(x) = refmodels::sm9::cbrt_fp(&t) {
                cases.push(Case::PairXY { px: hexbig(&x), py: hexbig(&y), a: hexbig(&sc[8].1), lb: one1.clone(), tag: "y-small-or-minus-small".into() });
                count += 1;
            }
        }
        ctx.cov("explicit_points_with_small_or_minus_small_coordinate", json!(count));
    }
    // identity arguments: a or b = 0 mod N
    for (an, a) in [("0", BigUint::zero()), ("N", n.clone()), ("3", BigUint::from(3u32))] {
        for (bn, b) in [("0", BigUint::zero()), ("N", n.clone()), ("5", BigUint::from(5u32))] {
            if an == "3" && bn == "5" {
                continue;
            }
            cases.push(Case::Pair { a: hexbig(&a), b: hexbig(&b), la: one2.clone(), lb: one1.clone(), full: false, tag: format!("identity/a={}/b={}", an, bn) });
        }
    }
    // bilinearity with the library's own exponentiation, incl. exponents with all-zero 64-bit limbs
    let zl: Vec<BigUint> = vec![BigUint::one() << 64usize, (BigUint::one() << 128usize) + 1u32, (BigUint::from(0x1234u32) << 192usize) + 15u32, BigUint::from(7u32), g.nonzero_below(&n), &n - 1u32, &n - 2u32];
    let mut zl = zl;
    {
        let ones_runs: Vec<BigUint> = {
        // runs of one bits: 2^k - 1 and 64 / 56 consecutive ones at several offsets (a "+1" that must ripple across
        // limbs in a signed-digit recoding, a bit length taken through floating point, a window that is all ones)
        let one = BigUint::one();
        let mut v: Vec<BigUint> = Vec::new();
        for k in [49u32, 56, 63, 64, 65, 112, 127, 128, 129, 191, 192, 193, 255] {
            v.push((&one << k) - &one);
        }
        for s in [1u32, 13, 48, 64, 100, 128, 150, 190] {
            v.push(((&one << 64u32) - &one) << s);
            v.push(((&one << 56u32) - &one) << s);
        }
        v
    };
        zl.extend(ones_runs.into_iter().filter(|e| *e < n).step_by(3));
    }
    for a in &zl {
        for b in [BigUint::one(), BigUint::from(2u32)] {
            cases.push(Case::Bilinear { a: hexbig(a), b: hexbig(&b) });
            cases.push(Case::Bilinear { a: hexbig(&b), b: hexbig(a) });
        }
    }
    ctx.note_bound(format!("{} scalars, {} pairings", sc.len(), cases.len()));
    ctx.sample(serde_json::to_value(&cases[1]).unwrap());
    ctx.sample(serde_json::to_value(&cases[cases.len() - 1]).unwrap());
    ctx.cov("full_reference_evaluations", json!(cases.iter().filter(|c| matches!(c, Case::Pair { full: true, .. })).count()));
    run_cases(ctx, &cases, 4, eval);

    crate::cold::check(ctx, "C12");
}
