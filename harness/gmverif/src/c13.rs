//! C13 — SM9 field tower, mod-N arithmetic and G1/G2 group operations are exact
use crate::engine::*;
use crate::sm9api::*;
use gm_sm9::fields::FieldElement;
use gm_sm9::points::{Point, TwistPoint};
use gm_sm9::verif as hook;
use num_bigint::BigUint;
use num_traits::{One, Zero};
use refmodels::ec::{Fld, E2};
use refmodels::sm9::{self, F12, G1, G2};
use refmodels::util::{from_limbs, hexbig as hb, to_limbs, SplitMix};
use serde::{Deserialize, Serialize};
use serde_json::{json, Value};
use std::sync::{Arc, OnceLock};

#[derive(Serialize, Deserialize, Clone, Debug)]
pub enum Case {
    Fp { op: String, a: String, b: String },
    ModN { op: String, a: String, b: String },
    Fp2 { op: String, a: [String; 2], b: [String; 2] },
    Fp4 { op: String, a: [String; 4], b: [String; 4] },
    /// 12 polynomial-basis coefficients each
    Fp12 { op: String, a: Vec<String>, b: Vec<String> },
    Booth { w: u64, k: String },
    /// G1: P = [k1]P1 with Z = l1 (l1 = 0: infinity), Q likewise; all binary ops and equality
    G1Pair { k1: String, l1: String, k2: String, l2: String },
    G1Unary { k: String, l: String },
    G1Mul { base: String, l: String, scalar: String, tag: String },
    G1GMul { scalar: String, tag: String },
    G1Table { row: usize, digit: usize },
    /// consecutive G1 / G2 multiplications on one thread over related bases: (group, base k, Z as Fp or Fp2 c0, negate, scalar)
    MulSeq { steps: Vec<(u8, String, String, bool, String)> },
    /// G2: Z given as Fp2 (c0, c1); (0,0) = infinity
    G2Pair { k1: String, l1: [String; 2], k2: String, l2: [String; 2] },
    G2Unary { k: String, l: [String; 2] },
    /// G1 point given by coordinates (x = 0 is a finite point: 5 is a square), held with Z = l
    G1UnaryXY { x: String, y: String, l: String, tag: String },
    /// the point at infinity written (ix : iy : 0) met with the finite point [k]P1 (Z = l)
    G1InfOps { ix: String, iy: String, k: String, l: String },
    /// the same in G2: (ix : iy : 0) over Fp2 met with [k]P2 (Z = l)
    G2InfOps { ix: [String; 2], iy: [String; 2], k: String, l: [String; 2] },
    G2Mul { base: String, l: [String; 2], scalar: String, gmul: bool, tag: String },
}

fn p() -> &'static BigUint {
    &sm9::params().p
}
fn f2() -> &'static refmodels::ec::Fp2Ctx {
    &sm9::params().e2.f
}
fn h2(a: &[String; 2]) -> E2 {
    (hb(&a[0]), hb(&a[1]))
}
fn s2(a: &E2) -> [String; 2] {
    [hexbig(&a.0), hexbig(&a.1)]
}
type E4 = (E2, E2);
fn h4(a: &[String; 4]) -> E4 {
    ((hb(&a[0]), hb(&a[1])), (hb(&a[2]), hb(&a[3])))
}
fn s4(a: &E4) -> [String; 4] {
    [hexbig(&a.0 .0), hexbig(&a.0 .1), hexbig(&a.1 .0), hexbig(&a.1 .1)]
}
fn e4_to_f12(a: &E4) -> F12 {
    let mut v = sm9::f12_zero();
    v[0] = a.0 .0.clone();
    v[6] = a.0 .1.clone();
    v[3] = a.1 .0.clone();
    v[9] = a.1 .1.clone();
    v
}
fn f12_to_e4(v: &F12) -> Option<E4> {
    for i in [1usize, 2, 4, 5, 7, 8, 10, 11] {
        if !v[i].is_zero() {
            return None;
        }
    }
    Some(((v[0].clone(), v[6].clone()), (v[3].clone(), v[9].clone())))
}
fn e2_to_f12(a: &E2) -> F12 {
    sm9::f12_from_f2(a, 0)
}
fn h12(a: &[String]) -> F12 {
    a.iter().map(|s| hb(s)).collect()
}
fn s12(a: &F12) -> Vec<String> {
    a.iter().map(hexbig).collect()
}
fn basis(i: usize) -> F12 {
    let mut v = sm9::f12_zero();
    v[i] = BigUint::one();
    v
}

/// images of the basis under x -> x^(p^k), k = 1, 2, 3, 6 (the Frobenius maps are Fp-linear)
fn frob_images() -> &'static Vec<Vec<F12>> {
    static F: OnceLock<Vec<Vec<F12>>> = OnceLock::new();
    F.get_or_init(|| {
        let mut out = Vec::new();
        for k in [1u32, 2, 3, 6] {
            let e = num_traits::pow(p().clone(), k as usize);
            out.push((0..12).map(|i| sm9::f12_pow(&basis(i), &e)).collect());
        }
        out
    })
}
fn ref_frob(a: &F12, which: usize) -> F12 {
    let img = &frob_images()[which];
    let mut r = sm9::f12_zero();
    for i in 0..12 {
        if a[i].is_zero() {
            continue;
        }
        for j in 0..12 {
            r[j] = (&r[j] + &a[i] * &img[i][j]) % p();
        }
    }
    r
}

fn half(x: &BigUint) -> BigUint {
    (x * &sm9::params().inv2) % p()
}

fn zero_class12(a: &F12) -> String {
    let nz = a.iter().filter(|c| !c.is_zero()).count();
    match nz {
        0 => "zero".into(),
        12 => "dense".into(),
        _ => "sparse".into(),
    }
}
fn zero_class2(a: &E2) -> &'static str {
    match (a.0.is_zero(), a.1.is_zero()) {
        (true, true) => "zero",
        (true, false) => "c0=0",
        (false, true) => "c1=0",
        _ => "dense",
    }
}

fn g1rep(k: &BigUint, l: &BigUint) -> (Point, G1) {
    if l.is_zero() {
        // infinity in Jacobian coordinates is (t^2, t^3, 0) with t != 0; here t = k
        let t = if (k % p()).is_zero() { BigUint::one() } else { k % p() };
        (Point { x: to_mont(&((&t * &t) % p())), y: to_mont(&((&t * &t * &t) % p())), z: [0; 4] }, None)
    } else {
        let pt = sm9::g1_mul(k, &sm9::params().p1);
        (lib_g1(&pt, l), pt)
    }
}
fn g2rep(k: &BigUint, l: &E2) -> (TwistPoint, G2) {
    if f2().is_zero(l) {
        // infinity (t^2, t^3, 0) with t = k + u
        let t: E2 = ((k % p()), BigUint::one());
        let t2 = f2().sqr(&t);
        let t3 = f2().mul(&t2, &t);
        (hook::twist_point(lib_f2(&t2), lib_f2(&t3), lib_f2(&f2().zero())), None)
    } else {
        let pt = sm9::g2_mul(k, &sm9::params().p2);
        (lib_g2(&pt, l), pt)
    }
}
fn repc(l: &BigUint) -> &'static str {
    if l.is_zero() {
        "inf"
    } else if l.is_one() {
        "Z=1"
    } else {
        "Z!=1"
    }
}
fn repc2(l: &E2) -> &'static str {
    if f2().is_zero(l) {
        "inf"
    } else if *l == f2().one() {
        "Z=1"
    } else {
        "Z!=1"
    }
}
fn rel<E: PartialEq>(a: &Option<(E, E)>, b: &Option<(E, E)>, neg_b: &Option<(E, E)>) -> &'static str {
    if a.is_none() || b.is_none() {
        "with-infinity"
    } else if a == b {
        "P=Q"
    } else if a == neg_b {
        "P=-Q"
    } else if a.as_ref().map(|p| &p.1) == b.as_ref().map(|p| &p.1) {
        // different points with the same y (x differs by a cube root of unity)
        "same-y-different-x"
    } else {
        "generic"
    }
}

macro_rules! check {
    ($ctx:expr, $site:expr, $cls:expr, $cj:expr, $got:expr, $want:expr, $fmt:expr) => {{
        $ctx.call();
        match guard(|| $got) {
            Guard::Done(g) => {
                let w = $want;
                if g == w {
                    $ctx.outcome(&format!("ok/{}", $site));
                } else {
                    $ctx.violation($site, &format!("wrong-value/{}", $cls), format!("got={} want={}", $fmt(&g), $fmt(&w)), $cj());
                }
            }
            Guard::Panic(p) => $ctx.violation($site, &format!("panic/{}/{}", panic_site(&p), $cls), p, $cj()),
        }
    }};
}

pub fn eval(ctx: &Ctx, case: &Case) {
    ctx.state();
    ctx.trace();
    let cj = || serde_json::to_value(case).unwrap();
    let pr = sm9::params();
    let fb = |x: &BigUint| format!("{:x}", x);
    match case {
        Case::Fp { op, a, b } => {
            let (a, b) = (hb(a), hb(b));
            let (la, lb) = (to_mont(&a), to_mont(&b));
            let site = format!("sm9 Fp::{}", op);
            let want = match op.as_str() {
                "add" => (&a + &b) % p(),
                "sub" => (&a + p() - &b) % p(),
                "mul" => (&a * &b) % p(),
                "sqr" => (&a * &a) % p(),
                "double" => (&a * 2u32) % p(),
                "triple" => (&a * 3u32) % p(),
                "neg" => (p() - &a) % p(),
                "div2" => half(&a),
                "inv" => a.modpow(&(p() - 2u32), p()),
                "to_bytes" => a.clone(),
                "mont_roundtrip" => a.clone(),
                _ => panic!("op"),
            };
            check!(ctx, &site, "fp", cj, {
                match op.as_str() {
                    "add" => from_mont(&la.fp_add(&lb)),
                    "sub" => from_mont(&la.fp_sub(&lb)),
                    "mul" => from_mont(&la.fp_mul(&lb)),
                    "sqr" => from_mont(&la.fp_sqr()),
                    "double" => from_mont(&la.fp_double()),
                    "triple" => from_mont(&la.fp_triple()),
                    "neg" => from_mont(&la.fp_neg()),
                    "div2" => from_mont(&la.fp_div2()),
                    "inv" => from_mont(&la.fp_inv()),
                    "to_bytes" => refmodels::util::from_be(&la.to_bytes_be()),
                    _ => from_limbs(&gm_sm9::fields::fp::fp_from_mont(&gm_sm9::fields::fp::fp_to_mont(&to_limbs(&a)))),
                }
            }, want, fb);
        }
        Case::ModN { op, a, b } => {
            let n = &pr.n;
            let (a, b) = (hb(a), hb(b));
            let (la, lb) = (to_limbs(&a), to_limbs(&b));
            let site = format!("gm_sm9::fields::mod_n_{}", op);
            let want = match op.as_str() {
                "add" => (&a + &b) % n,
                "sub" => (&a + n - &b) % n,
                "mul" => (&a * &b) % n,
                "inv" => a.modpow(&(n - 2u32), n),
                "pow" => a.modpow(&b, n),
                _ => panic!("op"),
            };
            check!(ctx, &site, "modn", cj, {
                from_limbs(&match op.as_str() {
                    "add" => gm_sm9::fields::mod_n_add(&la, &lb),
                    "sub" => gm_sm9::fields::mod_n_sub(&la, &lb),
                    "mul" => gm_sm9::fields::mod_n_mul(&la, &lb),
                    "inv" => gm_sm9::fields::mod_n_inv(&la),
                    _ => gm_sm9::fields::mod_n_pow(&la, &lb),
                })
            }, want, fb);
        }
        Case::Fp2 { op, a, b } => {
            let (a, b) = (h2(a), h2(b));
            let (la, lb) = (lib_f2(&a), lib_f2(&b));
            let f = f2();
            let u: E2 = (BigUint::zero(), BigUint::one());
            let site = format!("sm9 Fp2::{}", op);
            let cls = format!("a:{}", zero_class2(&a));
            let want: E2 = match op.as_str() {
                "add" => f.add(&a, &b),
                "sub" => f.sub(&a, &b),
                "mul" => f.mul(&a, &b),
                "sqr" => f.sqr(&a),
                "double" => f.add(&a, &a),
                "triple" => f.add(&f.add(&a, &a), &a),
                "neg" => f.neg(&a),
                "div2" => (half(&a.0), half(&a.1)),
                "inv" => f.inv(&a),
                "div" => f.mul(&a, &f.inv(&b)),
                "mul_fp" => f.mul(&a, &(b.0.clone(), BigUint::zero())),
                "conjugate" => (a.0.clone(), (p() - &a.1) % p()),
                "a_mul_u" => f.mul(&a, &u),
                "mul_u" => f.mul(&f.mul(&a, &b), &u),
                "sqr_u" => f.mul(&f.sqr(&a), &u),
                "to_bytes" => a.clone(),
                _ => panic!("op"),
            };
            check!(ctx, &site, cls, cj, {
                match op.as_str() {
                    "add" => ref_f2(&la.fp_add(&lb)),
                    "sub" => ref_f2(&la.fp_sub(&lb)),
                    "mul" => ref_f2(&la.fp_mul(&lb)),
                    "sqr" => ref_f2(&la.fp_sqr()),
                    "double" => ref_f2(&la.fp_double()),
                    "triple" => ref_f2(&la.fp_triple()),
                    "neg" => ref_f2(&la.fp_neg()),
                    "div2" => ref_f2(&la.fp_div2()),
                    "inv" => ref_f2(&la.fp_inv()),
                    "div" => ref_f2(&hook::fp2_div(&la, &lb)),
                    "mul_fp" => ref_f2(&hook::fp2_mul_fp(&la, &to_mont(&b.0))),
                    "conjugate" => ref_f2(&hook::fp2_conjugate(&la)),
                    "a_mul_u" => ref_f2(&hook::fp2_a_mul_u(&la)),
                    "mul_u" => ref_f2(&hook::fp2_mul_u(&la, &lb)),
                    "sqr_u" => ref_f2(&hook::fp2_sqr_u(&la)),
                    _ => {
                        let by = la.to_bytes_be();
                        (refmodels::util::from_be(&by[32..64]), refmodels::util::from_be(&by[0..32]))
                    }
                }
            }, want, |x: &E2| format!("({:x}, {:x})", x.0, x.1));
        }
        Case::Fp4 { op, a, b } => {
            let (a, b) = (h4(a), h4(b));
            let (la, lb) = (lib_f4(&a), lib_f4(&b));
            let (fa, fbb) = (e4_to_f12(&a), e4_to_f12(&b));
            let v = basis(3);
            let site = format!("sm9 Fp4::{}", op);
            let nz = [&a.0 .0, &a.0 .1, &a.1 .0, &a.1 .1].iter().filter(|c| !c.is_zero()).count();
            let cls = format!("a:{}nonzero", nz);
            let want12: F12 = match op.as_str() {
                "add" => sm9::f12_add(&fa, &fbb),
                "sub" => sm9::f12_sub(&fa, &fbb),
                "mul" => sm9::f12_mul(&fa, &fbb),
                "sqr" => sm9::f12_mul(&fa, &fa),
                "double" => sm9::f12_add(&fa, &fa),
                "triple" => sm9::f12_add(&sm9::f12_add(&fa, &fa), &fa),
                "neg" => sm9::f12_neg(&fa),
                "div2" => fa.iter().map(half).collect(),
                "mul_fp" => sm9::f12_mul(&fa, &e2_to_f12(&(b.0 .0.clone(), BigUint::zero()))),
                "mul_fp2" => sm9::f12_mul(&fa, &e2_to_f12(&b.0)),
                "mul_v" => sm9::f12_mul(&sm9::f12_mul(&fa, &fbb), &v),
                "a_mul_v" => sm9::f12_mul(&fa, &v),
                "conjugate" => e4_to_f12(&(a.0.clone(), f2().neg(&a.1))),
                "sqr_v" => sm9::f12_mul(&sm9::f12_mul(&fa, &fa), &v),
                "inv" => sm9::f12_one(),
                _ => panic!("op"),
            };
            let want = f12_to_e4(&want12).expect("stays in Fp4");
            check!(ctx, &site, cls, cj, {
                match op.as_str() {
                    "add" => ref_f4(&la.fp_add(&lb)),
                    "sub" => ref_f4(&la.fp_sub(&lb)),
                    "mul" => ref_f4(&la.fp_mul(&lb)),
                    "sqr" => ref_f4(&la.fp_sqr()),
                    "double" => ref_f4(&la.fp_double()),
                    "triple" => ref_f4(&la.fp_triple()),
                    "neg" => ref_f4(&la.fp_neg()),
                    "div2" => ref_f4(&la.fp_div2()),
                    "mul_fp" => ref_f4(&hook::fp4_mul_fp(&la, &to_mont(&b.0 .0))),
                    "mul_fp2" => ref_f4(&hook::fp4_mul_fp2(&la, &lib_f2(&b.0))),
                    "mul_v" => ref_f4(&hook::fp4_mul_v(&la, &lb)),
                    "a_mul_v" => ref_f4(&hook::fp4_a_mul_v(&la)),
                    "conjugate" => ref_f4(&hook::fp4_conjugate(&la)),
                    "sqr_v" => ref_f4(&hook::fp4_sqr_v(&la)),
                    _ => {
                        // inverse: a * inv(a) must be 1 (computed with the reference multiplication)
                        let i = ref_f4(&la.fp_inv());
                        f12_to_e4(&sm9::f12_mul(&fa, &e4_to_f12(&i))).unwrap_or(i)
                    }
                }
            }, want, |x: &E4| format!("{:?}", s4(x)));
        }
        Case::Fp12 { op, a, b } => {
            let (a, b) = (h12(a), h12(b));
            let la = lib_f12(&a);
            let site = format!("sm9 Fp12::{}", op);
            let cls = format!("a:{}", zero_class12(&a));
            let want: F12 = match op.as_str() {
                "add" => sm9::f12_add(&a, &b),
                "sub" => sm9::f12_sub(&a, &b),
                "mul" => sm9::f12_mul(&a, &b),
                "sqr" => sm9::f12_mul(&a, &a),
                "double" => sm9::f12_add(&a, &a),
                "triple" => sm9::f12_add(&sm9::f12_add(&a, &a), &a),
                "neg" => sm9::f12_neg(&a),
                "div2" => a.iter().map(half).collect(),
                "inv" => sm9::f12_one(),
                "frob1" => ref_frob(&a, 0),
                "frob2" => ref_frob(&a, 1),
                "frob3" => ref_frob(&a, 2),
                "frob6" => ref_frob(&a, 3),
                "pow" => sm9::f12_pow(&a, &b[0]),
                "to_bytes" => a.clone(),
                "line_mul" => {
                    // sparse line element lw0 + lw2 v + lw1 w^2 with lw_i in Fp2 taken from b[0..6]
                    let mut l = sm9::f12_zero();
                    l[0] = b[0].clone();
                    l[6] = b[1].clone();
                    l[2] = b[2].clone();
                    l[8] = b[3].clone();
                    l[3] = b[4].clone();
                    l[9] = b[5].clone();
                    sm9::f12_mul(&a, &l)
                }
                _ => panic!("op"),
            };
            check!(ctx, &site, cls, cj, {
                match op.as_str() {
                    "add" => ref_f12(&la.fp_add(&lib_f12(&b))),
                    "sub" => ref_f12(&la.fp_sub(&lib_f12(&b))),
                    "mul" => ref_f12(&la.fp_mul(&lib_f12(&b))),
                    "sqr" => ref_f12(&la.fp_sqr()),
                    "double" => ref_f12(&la.fp_double()),
                    "triple" => ref_f12(&la.fp_triple()),
                    "neg" => ref_f12(&la.fp_neg()),
                    "div2" => ref_f12(&la.fp_div2()),
                    "inv" => sm9::f12_mul(&a, &ref_f12(&la.fp_inv())),
                    "frob1" => ref_f12(&la.verif_frobenius()),
                    "frob2" => ref_f12(&hook::fp12_frobenius2(&la)),
                    "frob3" => ref_f12(&la.verif_frobenius3()),
                    "frob6" => ref_f12(&hook::fp12_frobenius6(&la)),
                    "pow" => ref_f12(&hook::fp12_pow(&la, &to_limbs(&b[0]))),
                    "to_bytes" => sm9::f12_from_bytes(&la.to_bytes_be()),
                    _ => {
                        let lw = [lib_f2(&(b[0].clone(), b[1].clone())), lib_f2(&(b[2].clone(), b[3].clone())), lib_f2(&(b[4].clone(), b[5].clone()))];
                        ref_f12(&hook::fp12_line_mul(&la, &lw))
                    }
                }
            }, want, |x: &F12| format!("{:?}", x.iter().map(|c| format!("{:x}", c)).collect::<Vec<_>>()));
        }
        Case::Booth { w, k } => {
            let k = hb(k);
            let kl = to_limbs(&k);
            let nwin = (256 + w - 1) / w;
            ctx.call();
            let r = guard(|| (0..nwin).map(|i| gm_sm9::u256::sm9_u256_get_booth(&kl, *w, i)).collect::<Vec<i32>>());
            match r {
                Guard::Done(d) => {
                    // sum of digit_i 2^(w i) must be k, digits within [-2^(w-1), 2^(w-1)]
                    let mut pos = BigUint::zero();
                    let mut neg = BigUint::zero();
                    let lim = 1i32 << (w - 1);
                    let mut ok = true;
                    for (i, di) in d.iter().enumerate() {
                        if *di > lim || *di < -lim {
                            ok = false;
                        }
                        if *di >= 0 {
                            pos += BigUint::from(*di as u32) << (*w as usize * i);
                        } else {
                            neg += BigUint::from((-*di) as u32) << (*w as usize * i);
                        }
                    }
                    if ok && pos >= neg && pos - neg == k {
                        ctx.outcome("ok/booth");
                    } else {
                        ctx.violation("sm9_u256_get_booth", &format!("digits-do-not-recode-k/w={}", w), format!("k={:x} digits={:?}", k, d), cj());
                    }
                }
                Guard::Panic(pn) => ctx.violation("sm9_u256_get_booth", &format!("panic/{}", panic_site(&pn)), pn, cj()),
            }
        }
        Case::G1Pair { k1, l1, k2, l2 } => {
            let (k1, l1, k2, l2) = (hb(k1), hb(l1), hb(k2), hb(l2));
            let (p1, r1) = g1rep(&k1, &l1);
            let (p2, r2) = g1rep(&k2, &l2);
            let nr2 = pr.e1.neg(&r2);
            let cls = format!("{}/{}+{}", rel(&r1, &r2, &nr2), repc(&l1), repc(&l2));
            check!(ctx, "G1 Point::point_add", cls, cj, ref_g1(&p1.point_add(&p2)), sm9::g1_add(&r1, &r2), g1_str);
            check!(ctx, "G1 Point::point_sub", cls, cj, ref_g1(&p1.point_sub(&p2)), sm9::g1_add(&r1, &nr2), g1_str);
            check!(ctx, "G1 Point::point_equals", cls, cj, p1.point_equals(&p2), r1 == r2, |b: &bool| b.to_string());
        }
        Case::G1Unary { k, l } => {
            let (k, l) = (hb(k), hb(l));
            let (pt, r) = g1rep(&k, &l);
            let cls = repc(&l);
            // equality against the infinities the library itself produces (zero(), P - P, [N]P, g_mul(0))
            {
                let infs: Vec<(&str, Point)> = match guard(|| vec![("zero()", Point::zero()), ("P-P", pt.point_sub(&pt)), ("[N]P", pt.point_mul(&to_limbs(&pr.n))), ("g_mul(0)", Point::g_mul(&[0, 0, 0, 0]))]) {
                    Guard::Done(v) => v,
                    Guard::Panic(p) => {
                        ctx.violation("G1 Point (zero / P-P / [N]P / g_mul(0))", &format!("panic/{}/library-infinity/{}", panic_site(&p), cls), p, cj());
                        vec![]
                    }
                };
                for (name, o) in &infs {
                    check!(ctx, "G1 Point::point_equals", format!("library-infinity:{}/{}", name, cls), cj, (pt.point_equals(o), o.point_equals(&pt), o.is_zero()), (r.is_none(), r.is_none(), true), |b: &(bool, bool, bool)| format!("{:?}", b));
                }
            }
            check!(ctx, "G1 Point::point_double", cls, cj, ref_g1(&pt.point_double()), sm9::g1_add(&r, &r), g1_str);
            check!(ctx, "G1 Point::point_neg", cls, cj, ref_g1(&pt.point_neg()), pr.e1.neg(&r), g1_str);
            check!(ctx, "G1 Point::is_zero", cls, cj, pt.is_zero(), r.is_none(), |b: &bool| b.to_string());
            if r.is_some() {
                check!(ctx, "G1 Point::is_on_curve", cls, cj, pt.is_on_curve(), true, |b: &bool| b.to_string());
                check!(ctx, "G1 Point::to_affine_point", cls, cj, { let a = pt.to_affine_point(); (ref_g1(&a), from_mont(&a.z).is_one()) }, (r.clone(), true), |x: &(G1, bool)| format!("{} z=1:{}", g1_str(&x.0), x.1));
                check!(ctx, "G1 Point::to_bytes_be", cls, cj, pt.to_bytes_be(), { let mut v = vec![4u8]; v.extend_from_slice(&sm9::g1_bytes(&r)); v }, |x: &Vec<u8>| hex::encode(x));
                // off-curve neighbours
                for which in 0..3 {
                    let mut q = pt;
                    let bump = |v: &[u64; 4]| to_mont(&((from_mont(v) + 1u32) % p()));
                    match which {
                        0 => q.x = bump(&q.x),
                        1 => q.y = bump(&q.y),
                        _ => q.z = bump(&q.z),
                    }
                    let (x, y, z) = (from_mont(&q.x), from_mont(&q.y), from_mont(&q.z));
                    let z6 = z.modpow(&BigUint::from(6u32), p());
                    let truth = (&y * &y) % p() == (&x * &x * &x + BigUint::from(5u32) * z6) % p();
                    check!(ctx, "G1 Point::is_on_curve", format!("off-curve-neighbour/{}", cls), cj, q.is_on_curve(), truth, |b: &bool| b.to_string());
                }
            }
        }
        Case::G1Mul { base, l, scalar, tag } => {
            let (bk, l, s) = (hb(base), hb(l), hb(scalar));
            let (pt, r) = g1rep(&bk, &l);
            check!(ctx, "G1 Point::point_mul", tag, cj, ref_g1(&pt.point_mul(&to_limbs(&s))), sm9::g1_mul(&s, &r), g1_str);
        }
        Case::G1GMul { scalar, tag } => {
            let s = hb(scalar);
            check!(ctx, "G1 Point::g_mul", tag, cj, ref_g1(&Point::g_mul(&to_limbs(&s))), sm9::g1_mul(&s, &pr.p1), g1_str);
        }
        Case::MulSeq { steps } => {
            for (i, (grp, bk, l, negate, sc)) in steps.iter().enumerate() {
                let (bk, l, s) = (hb(bk), hb(l), hb(sc));
                let ok = if *grp == 1 {
                    let (mut pt, mut r) = g1rep(&bk, &l);
                    if *negate {
                        pt = pt.point_neg();
                        r = pr.e1.neg(&r);
                    }
                    ctx.call();
                    matches!(guard(|| ref_g1(&pt.point_mul(&to_limbs(&s)))), Guard::Done(g) if g == sm9::g1_mul(&s, &r))
                } else {
                    let (mut pt, mut r) = g2rep(&bk, &(l.clone(), BigUint::zero()));
                    if *negate {
                        pt = pt.point_neg();
                        r = pr.e2.neg(&r);
                    }
                    ctx.call();
                    matches!(guard(|| ref_g2(&pt.point_mul(&to_limbs(&s)))), Guard::Done(g) if g == sm9::g2_mul(&s, &r))
                };
                if !ok {
                    ctx.violation(if *grp == 1 { "G1 Point::point_mul" } else { "G2 TwistPoint::point_mul" }, &format!("wrong-multiple/in-sequence/step{}of{}", i + 1, steps.len()), format!("steps={:?}", steps), cj());
                    return;
                }
            }
            ctx.outcome("ok/mul-sequence");
        }
        Case::G1Table { row, digit } => {
            let k = BigUint::from(*digit as u32) << (7 * *row);
            let want = sm9::g1_mul(&k, &pr.p1);
            ctx.call();
            let x = hook::SM9_P256_PRECOMPUTED[*row][*digit * 2 - 2];
            let y = hook::SM9_P256_PRECOMPUTED[*row][*digit * 2 - 1];
            let got: G1 = Some((from_mont(&x), from_mont(&y)));
            if got == want {
                ctx.outcome("ok/table-entry");
            } else {
                ctx.violation("SM9_P256_PRECOMPUTED", "wrong-table-entry", format!("row={} digit={}", row, digit), cj());
            }
        }
        Case::G2Pair { k1, l1, k2, l2 } => {
            let (k1, l1, k2, l2) = (hb(k1), h2(l1), hb(k2), h2(l2));
            let (p1, r1) = g2rep(&k1, &l1);
            let (p2, r2) = g2rep(&k2, &l2);
            let nr2 = pr.e2.neg(&r2);
            let cls = format!("{}/{}+{}", rel(&r1, &r2, &nr2), repc2(&l1), repc2(&l2));
            check!(ctx, "G2 TwistPoint::point_add", cls, cj, ref_g2(&p1.point_add(&p2)), sm9::g2_add(&r1, &r2), g2_str);
            check!(ctx, "G2 twist_point_add_full", cls, cj, ref_g2(&hook::twist_point_add_full(&p1, &p2)), sm9::g2_add(&r1, &r2), g2_str);
            check!(ctx, "G2 TwistPoint::point_sub", cls, cj, ref_g2(&p1.point_sub(&p2)), sm9::g2_add(&r1, &nr2), g2_str);
            check!(ctx, "G2 TwistPoint::point_equals", cls, cj, p1.point_equals(&p2), r1 == r2, |b: &bool| b.to_string());
        }
        Case::G2Unary { k, l } => {
            let (k, l) = (hb(k), h2(l));
            let (pt, r) = g2rep(&k, &l);
            let cls = repc2(&l);
            {
                let infs: Vec<(&str, TwistPoint)> = match guard(|| vec![("zero()", TwistPoint::zero()), ("P-P", pt.point_sub(&pt)), ("[N]P", pt.point_mul(&to_limbs(&pr.n))), ("g_mul(0)", TwistPoint::g_mul(&[0, 0, 0, 0]))]) {
                    Guard::Done(v) => v,
                    Guard::Panic(p) => {
                        ctx.violation("G2 TwistPoint (zero / P-P / [N]P / g_mul(0))", &format!("panic/{}/library-infinity/{}", panic_site(&p), cls), p, cj());
                        vec![]
                    }
                };
                for (name, o) in &infs {
                    check!(ctx, "G2 TwistPoint::point_equals", format!("library-infinity:{}/{}", name, cls), cj, (pt.point_equals(o), o.point_equals(&pt)), (r.is_none(), r.is_none()), |b: &(bool, bool)| format!("{:?}", b));
                }
            }
            check!(ctx, "G2 TwistPoint::point_double", cls, cj, ref_g2(&pt.point_double()), sm9::g2_add(&r, &r), g2_str);
            check!(ctx, "G2 TwistPoint::point_neg", cls, cj, ref_g2(&pt.point_neg()), pr.e2.neg(&r), g2_str);
        }
        Case::G1UnaryXY { x, y, l, tag } => {
            let r: G1 = Some((hb(x), hb(y)));
            let l = hb(l);
            if !pr.e1.on_curve(&r) {
                ctx.machinery_error("G1UnaryXY operand is not on the curve");
                return;
            }
            let pt = lib_g1(&r, &l);
            let cls = format!("{}/{}", tag, repc(&l));
            check!(ctx, "G1 Point::point_double", cls, cj, ref_g1(&pt.point_double()), sm9::g1_add(&r, &r), g1_str);
            check!(ctx, "G1 Point::point_neg", cls, cj, ref_g1(&pt.point_neg()), pr.e1.neg(&r), g1_str);
            check!(ctx, "G1 Point::is_zero", cls, cj, pt.is_zero(), false, |b: &bool| b.to_string());
            check!(ctx, "G1 Point::is_on_curve", cls, cj, pt.is_on_curve(), true, |b: &bool| b.to_string());
            check!(ctx, "G1 Point::to_affine_point", cls, cj, { let a = pt.to_affine_point(); (ref_g1(&a), from_mont(&a.z).is_one()) }, (r.clone(), true), |x: &(G1, bool)| format!("{} z=1:{}", g1_str(&x.0), x.1));
            check!(ctx, "G1 Point::to_bytes_be", cls, cj, pt.to_bytes_be(), { let mut v = vec![4u8]; v.extend_from_slice(&sm9::g1_bytes(&r)); v }, |x: &Vec<u8>| hex::encode(x));
            check!(ctx, "G1 Point::point_add", format!("{}/2P+(-P)", cls), cj, { let q = pt.point_double().point_add(&pt.point_neg()); (ref_g1(&q), ref_g1(&q.to_affine_point()), q.point_equals(&pt)) }, (r.clone(), r.clone(), true), |x: &(G1, G1, bool)| format!("{} affine {} equals:{}", g1_str(&x.0), g1_str(&x.1), x.2));
            check!(ctx, "G1 Point::point_sub", format!("{}/2P-P", cls), cj, ref_g1(&pt.point_double().point_sub(&pt)), r.clone(), g1_str);
            let (_, g1) = g1rep(&BigUint::one(), &BigUint::one());
            let gp = lib_g1(&g1, &BigUint::from(2u32));
            check!(ctx, "G1 Point::point_add", format!("{}/P+P1", cls), cj, (ref_g1(&pt.point_add(&gp)), ref_g1(&gp.point_add(&pt))), (sm9::g1_add(&r, &g1), sm9::g1_add(&r, &g1)), |x: &(G1, G1)| format!("{} / {}", g1_str(&x.0), g1_str(&x.1)));
            for kk in [BigUint::from(2u32), BigUint::from(3u32), &pr.n - 1u32, &pr.n + 1u32] {
                check!(ctx, "G1 Point::point_mul", format!("{}/small-multiples", cls), cj, ref_g1(&pt.point_mul(&to_limbs(&kk))), sm9::g1_mul(&(&kk % &pr.n), &r), g1_str);
            }
        }
        Case::G1InfOps { ix, iy, k, l } => {
            let (k, l) = (hb(k), hb(l));
            let o = Point { x: to_mont(&hb(ix)), y: to_mont(&hb(iy)), z: [0; 4] };
            let (q, rq) = g1rep(&k, &l);
            let cls = format!("infinity-as-(t^2:t^3:0)/{}", repc(&l));
            check!(ctx, "G1 Point::point_add", format!("O+Q/{}", cls), cj, ref_g1(&o.point_add(&q)), rq.clone(), g1_str);
            check!(ctx, "G1 Point::point_add", format!("Q+O/{}", cls), cj, ref_g1(&q.point_add(&o)), rq.clone(), g1_str);
            check!(ctx, "G1 Point::point_sub", format!("Q-O/{}", cls), cj, ref_g1(&q.point_sub(&o)), rq.clone(), g1_str);
            check!(ctx, "G1 Point::point_sub", format!("O-Q/{}", cls), cj, ref_g1(&o.point_sub(&q)), pr.e1.neg(&rq), g1_str);
            check!(ctx, "G1 Point::point_add", format!("O+O/{}", cls), cj, ref_g1(&o.point_add(&o)), None, g1_str);
            check!(ctx, "G1 Point::point_double", format!("2O/{}", cls), cj, ref_g1(&o.point_double()), None, g1_str);
            check!(ctx, "G1 Point::point_neg", format!("-O/{}", cls), cj, ref_g1(&o.point_neg()), None, g1_str);
            check!(ctx, "G1 Point::point_mul", format!("[3]O/{}", cls), cj, ref_g1(&o.point_mul(&[3, 0, 0, 0])), None, g1_str);
            check!(ctx, "G1 Point::point_add", format!("(O+Q)+Q/{}", cls), cj, ref_g1(&o.point_add(&q).point_add(&q)), sm9::g1_add(&rq, &rq), g1_str);
            check!(ctx, "G1 Point::is_zero", cls, cj, o.is_zero(), true, |b: &bool| b.to_string());
            check!(ctx, "G1 Point::point_equals", cls, cj, (o.point_equals(&q), q.point_equals(&o), o.point_equals(&Point::zero())), (rq.is_none(), rq.is_none(), true), |b: &(bool, bool, bool)| format!("{:?}", b));
        }
        Case::G2InfOps { ix, iy, k, l } => {
            let (k, l) = (hb(k), h2(l));
            let o = hook::twist_point(lib_f2(&h2(ix)), lib_f2(&h2(iy)), lib_f2(&f2().zero()));
            let (q, rq) = g2rep(&k, &l);
            let cls = format!("infinity-as-(t^2:t^3:0)/{}", repc2(&l));
            check!(ctx, "G2 TwistPoint::point_add", format!("O+Q/{}", cls), cj, ref_g2(&o.point_add(&q)), rq.clone(), g2_str);
            check!(ctx, "G2 TwistPoint::point_add", format!("Q+O/{}", cls), cj, ref_g2(&q.point_add(&o)), rq.clone(), g2_str);
            check!(ctx, "G2 twist_point_add_full", format!("O+Q/{}", cls), cj, ref_g2(&hook::twist_point_add_full(&o, &q)), rq.clone(), g2_str);
            check!(ctx, "G2 twist_point_add_full", format!("Q+O/{}", cls), cj, ref_g2(&hook::twist_point_add_full(&q, &o)), rq.clone(), g2_str);
            check!(ctx, "G2 TwistPoint::point_sub", format!("Q-O/{}", cls), cj, ref_g2(&q.point_sub(&o)), rq.clone(), g2_str);
            check!(ctx, "G2 TwistPoint::point_sub", format!("O-Q/{}", cls), cj, ref_g2(&o.point_sub(&q)), pr.e2.neg(&rq), g2_str);
            check!(ctx, "G2 TwistPoint::point_add", format!("O+O/{}", cls), cj, ref_g2(&o.point_add(&o)), None, g2_str);
            check!(ctx, "G2 TwistPoint::point_double", format!("2O/{}", cls), cj, ref_g2(&o.point_double()), None, g2_str);
            check!(ctx, "G2 TwistPoint::point_neg", format!("-O/{}", cls), cj, ref_g2(&o.point_neg()), None, g2_str);
            check!(ctx, "G2 TwistPoint::point_mul", format!("[3]O/{}", cls), cj, ref_g2(&o.point_mul(&[3, 0, 0, 0])), None, g2_str);
            check!(ctx, "G2 TwistPoint::point_add", format!("(O+Q)+Q/{}", cls), cj, ref_g2(&o.point_add(&q).point_add(&q)), sm9::g2_add(&rq, &rq), g2_str);
        }
        Case::G2Mul { base, l, scalar, gmul, tag } => {
            let (bk, l, s) = (hb(base), h2(l), hb(scalar));
            if *gmul {
                check!(ctx, "G2 TwistPoint::g_mul", tag, cj, ref_g2(&TwistPoint::g_mul(&to_limbs(&s))), sm9::g2_mul(&s, &pr.p2), g2_str);
            } else {
                let (pt, r) = g2rep(&bk, &l);
                check!(ctx, "G2 TwistPoint::point_mul", tag, cj, ref_g2(&pt.point_mul(&to_limbs(&s))), sm9::g2_mul(&s, &r), g2_str);
            }
        }
    }
}

pub fn replay(ctx: &Arc<Ctx>, v: &Value) {
    if crate::cold::replay(ctx, v) {
        return;
    }
    let c: Case = serde_json::from_value(v.clone()).expect("C13 case");
    eval(ctx, &c);
}

fn limb_patterns() -> Vec<BigUint> {
    let l = [0u64, 1, 1 << 32, 1 << 63, u64::MAX];
    let mut v = Vec::new();
    for a in l {
        for b in l {
            for c in l {
                for d in l {
                    v.push(from_limbs(&[a, b, c, d]));
                }
            }
        }
    }
    v
}
fn field_alphabet(m: &BigUint, seed: u64, tag: &str) -> (Vec<BigUint>, Vec<BigUint>) {
    let r256: BigUint = BigUint::one() << 256usize;
    let mut extreme: Vec<BigUint> = vec![BigUint::zero(), BigUint::one(), BigUint::from(2u32)];
    for d in 1..=4u32 {
        extreme.push(m - d);
    }
    let rinv = r256.modpow(&(m - 2u32), m);
    extreme.extend([rinv.clone(), (&rinv * 2u32) % m, m - &rinv]);
    extreme.extend([&r256 - m, &r256 - m - 1u32, &r256 - m + 1u32, m >> 1, (m >> 1) + 1u32, &r256 % m, (&r256 * &r256) % m, (BigUint::one() << 255usize) % m, (BigUint::one() << 128usize) - 1u32]);
    let mut g = SplitMix::new(seed, tag);
    for _ in 0..4 {
        extreme.push(g.below(m));
    }
    let pats: Vec<BigUint> = limb_patterns().into_iter().filter(|x| x < m).collect();
    for x in pats.iter().step_by(17) {
        extreme.push(x.clone());
    }
    extreme.sort();
    extreme.dedup();
    let mut all = pats;
    all.extend(extreme.iter().cloned());
    all.sort();
    all.dedup();
    (all, extreme)
}

pub fn run(ctx: &Arc<Ctx>) {
    refmodels::selftest::run(&["sm9"]).unwrap_or_else(|e| ctx.machinery_error(format!("reference self-test failed: {}", e)));
    let _ = frob_images();
    let pr = sm9::params();
    let (pp, n) = (pr.p.clone(), pr.n.clone());
    ctx.set_rule("Fp and mod N: limb-pattern + boundary alphabets, unary ops on all, binary ops on all x extreme (thorough all x all). Fp2: all 24x24 boundary elements, unary on all, binary on all pairs. Fp4: all 6^4 elements over {0,1,p-1,2,seeded x2}, unary on all, binary on all x 64 (thorough all pairs). Fp12: one element per subset of zero components (4096) + basis + +-1: unary ops (sqr, inv, neg, double, triple, div2, Frobenius 1/2/3/6, to_bytes) on all, pow with boundary exponents, exponents with long runs of one bits and all exponents below N whose limbs are in {0, 1, 5, 2^64-1}, mul/add/sub against 64 partners, sparse line multiplication with every zero pattern of its 3 coefficients. Booth recoding for w in {5,7}: every k < 2^16, every d*2^(wi) and 2^(w(i+1)) - d*2^(wi). G1/G2: [j]P x 4 Jacobian representations + infinity (j incl. lambda, lambda^2 with lambda^2+lambda+1 = 0 mod N: different points with the same y), all ordered pairs through add / sub / add_full / equality, equality against the infinities the library itself produces (zero(), P-P, [N]P, g_mul(0)), unary ops, scalar multiplication over every Booth (window, digit) combination, boundary scalars, the point at infinity as the base, the point at infinity in 5 (G1) / 15 (G2) Jacobian encodings (t^2 : t^3 : 0) met with finite points and itself, G1 points with x = 0 and with the smallest positive / largest x in 4 representations, and every scalar within 300 (thorough 1200) of 0 and of N, all 37x64 fixed-base table entries. Oracle: polynomial-basis Fp12 = Fp[w]/(w^12+2) and affine big-integer group law.");
    let mut cases: Vec<Case> = Vec::new();
    let hx = |x: &BigUint| hexbig(x);
    let mut g = SplitMix::new(ctx.seed, "c13");
    let zero = BigUint::zero();
    // ---- Fp, mod N
    {
        let (all, extreme) = field_alphabet(&pp, ctx.seed, "c13p");
        for a in &all {
            for op in ["sqr", "double", "triple", "neg", "div2", "inv", "to_bytes", "mont_roundtrip"] {
                if op == "inv" && a.is_zero() {
                    continue;
                }
                cases.push(Case::Fp { op: op.into(), a: hx(a), b: hx(&zero) });
            }
            let rhs = if ctx.tier == Tier::Thorough { &all } else { &extreme };
            for b in rhs {
                for op in ["add", "sub", "mul"] {
                    cases.push(Case::Fp { op: op.into(), a: hx(a), b: hx(b) });
                }
            }
        }
        let (alln, extn) = field_alphabet(&n, ctx.seed, "c13n");
        for a in &alln {
            if !a.is_zero() {
                cases.push(Case::ModN { op: "inv".into(), a: hx(a), b: hx(&zero) });
            }
            let rhs = if ctx.tier == Tier::Thorough { &alln } else { &extn };
            for b in rhs {
                for op in ["add", "sub", "mul"] {
                    cases.push(Case::ModN { op: op.into(), a: hx(a), b: hx(b) });
                }
            }
        }
        for a in &extn {
            for e in [BigUint::zero(), BigUint::one(), BigUint::from(2u32), &n - 2u32, &n - 1u32, (BigUint::one() << 255usize), g.below(&n)] {
                cases.push(Case::ModN { op: "pow".into(), a: hx(a), b: hx(&e) });
            }
        }
    }
    // ---- Fp2
    let f24: Vec<BigUint> = {
        let mut v = vec![BigUint::zero(), BigUint::one(), BigUint::from(2u32), BigUint::from(3u32), &pp - 1u32, &pp - 2u32, &pp - 3u32, &pp >> 1, (&pp >> 1) + 1u32, (BigUint::one() << 255usize) % &pp, (BigUint::one() << 256usize) % &pp, (BigUint::one() << 64usize) - 1u32, BigUint::one() << 64usize, BigUint::one() << 128usize, BigUint::one() << 192usize, ((BigUint::one() << 64usize) - 1u32) << 128usize, BigUint::from(5u32)];
        // R^-1 mod p: its Montgomery form is the plain integer 1
        v.push((BigUint::one() << 256usize).modpow(&(&pp - 2u32), &pp));
        while v.len() < 24 {
            v.push(g.below(&pp));
        }
        v
    };
    let el2: Vec<E2> = f24.iter().flat_map(|a| f24.iter().map(move |b| (a.clone(), b.clone()))).collect();
    for a in &el2 {
        for op in ["sqr", "double", "triple", "neg", "div2", "inv", "conjugate", "a_mul_u", "sqr_u", "to_bytes"] {
            if op == "inv" && f2().is_zero(a) {
                continue;
            }
            cases.push(Case::Fp2 { op: op.into(), a: s2(a), b: s2(&f2().zero()) });
        }
    }
    let step2 = ctx.tier.pick(5usize, 1);
    for a in &el2 {
        for b in el2.iter().step_by(step2) {
            for op in ["add", "sub", "mul", "mul_u", "mul_fp", "div"] {
                if op == "div" && f2().is_zero(b) {
                    continue;
                }
                cases.push(Case::Fp2 { op: op.into(), a: s2(a), b: s2(b) });
            }
        }
    }
    // ---- Fp4
    let f6: Vec<BigUint> = vec![BigUint::zero(), BigUint::one(), &pp - 1u32, BigUint::from(2u32), g.below(&pp), g.below(&pp)];
    let mut el4: Vec<E4> = Vec::new();
    for a in &f6 {
        for b in &f6 {
            for c in &f6 {
                for d in &f6 {
                    el4.push(((a.clone(), b.clone()), (c.clone(), d.clone())));
                }
            }
        }
    }
    let z4: E4 = (f2().zero(), f2().zero());
    for a in &el4 {
        for op in ["sqr", "double", "triple", "neg", "div2", "a_mul_v", "conjugate", "sqr_v", "inv"] {
            if op == "inv" && *a == z4 {
                continue;
            }
            cases.push(Case::Fp4 { op: op.into(), a: s4(a), b: s4(&z4) });
        }
    }
    let part4: Vec<&E4> = if ctx.tier == Tier::Thorough { el4.iter().collect() } else { el4.iter().step_by(el4.len() / 64 + 1).collect() };
    for a in &el4 {
        for b in &part4 {
            for op in ["add", "sub", "mul", "mul_v", "mul_fp", "mul_fp2"] {
                cases.push(Case::Fp4 { op: op.into(), a: s4(a), b: s4(b) });
            }
        }
    }
    // ---- Fp12
    let mut el12: Vec<F12> = Vec::new();
    for mask in 0..4096u32 {
        let mut gg = SplitMix::new(ctx.seed ^ (mask as u64) << 8, "c13f12");
        let v: F12 = (0..12).map(|i| if mask & (1 << i) != 0 { BigUint::zero() } else { gg.nonzero_below(&pp) }).collect();
        el12.push(v);
    }
    for i in 0..12 {
        el12.push(basis(i));
    }
    el12.push(sm9::f12_one());
    el12.push(sm9::f12_neg(&sm9::f12_one()));
    let z12 = sm9::f12_zero();
    for a in &el12 {
        for op in ["sqr", "inv", "neg", "double", "triple", "div2", "frob1", "frob2", "frob3", "frob6", "to_bytes"] {
            if op == "inv" && *a == z12 {
                continue;
            }
            cases.push(Case::Fp12 { op: op.into(), a: s12(a), b: s12(&z12) });
        }
    }
    let part12: Vec<&F12> = el12.iter().step_by(el12.len() / 64 + 1).collect();
    for a in el12.iter().step_by(ctx.tier.pick(4, 1)) {
        for b in &part12 {
            for op in ["mul", "add", "sub"] {
                cases.push(Case::Fp12 { op: op.into(), a: s12(a), b: s12(b) });
            }
        }
    }
    {
        let ones_runs: Vec<BigUint> = {
        // runs of one bits: 2^k - 1 and 64 / 56 consecutive ones at several offsets (a "+1" that must ripple across
        // limbs in a signed-digit recoding, a bit length taken through floating point, a window that is all ones)
        let one = BigUint::one();
        let mut v: Vec<BigUint> = Vec::new();
        for k in [49u32, 56, 63, 64, 65, 112, 127, 128, 129, 191, 192, 193, 255] {
            v.push((&one << k) - &one);
        }
        for s in [1u32, 13, 48, 64, 100, 128, 150, 190] {
            v.push(((&one << 64u32) - &one) << s);
            v.push(((&one << 56u32) - &one) << s);
        }
        v
    };
        for a in el12.iter().step_by(512) {
            for e in ones_runs.iter().filter(|e| **e < n) {
                let mut b = z12.clone();
                b[0] = e.clone();
                cases.push(Case::Fp12 { op: "pow".into(), a: s12(a), b: s12(&b) });
            }
        }
    }
    for a in el12.iter().step_by(64) {
        // exponents incl. zero 64-bit limbs below non-zero ones (a skipped limb loses 64 squarings)
        for e in [BigUint::zero(), BigUint::one(), BigUint::from(2u32), &n - 1u32, &n - 2u32, g.below(&(&n - 2u32)), BigUint::one() << 64usize, (BigUint::one() << 128usize) + 1u32, (BigUint::one() << 192usize) + (BigUint::from(7u32) << 64usize), (BigUint::from(0x1234u32) << 192usize) + 15u32] {
            let mut b = z12.clone();
            b[0] = e;
            cases.push(Case::Fp12 { op: "pow".into(), a: s12(a), b: s12(&b) });
        }
    }
    // exponents with every pattern of limbs over {0, 1, 5, 2^64-1}: 256 four-limb values (a shortcut that looks at some
    // limbs only, a leading-limb count that also counts inner zero limbs, a top limb that is forgotten)
    {
        let lv = [BigUint::zero(), BigUint::one(), BigUint::from(5u32), (BigUint::one() << 64usize) - 1u32];
        let mut count = 0;
        for a in el12.iter().step_by(2048) {
            for i in 0..256usize {
                let e = (0..4).fold(BigUint::zero(), |acc, j| acc + (&lv[(i >> (2 * j)) & 3] << (64 * j)));
                if e >= n {
                    // Fp12::pow asserts its exponent is at most N - 1
                    continue;
                }
                let mut b = z12.clone();
                b[0] = e;
                cases.push(Case::Fp12 { op: "pow".into(), a: s12(a), b: s12(&b) });
                count += 1;
            }
        }
        ctx.cov("fp12_pow_limb_pattern_exponents", json!(count));
    }
    for a in el12.iter().step_by(ctx.tier.pick(32, 4)) {
        for zmask in 0..64u32 {
            // each subset of the 6 Fp coefficients of the sparse line zero
            let mut b = z12.clone();
            for i in 0..6 {
                if zmask & (1 << i) == 0 {
                    b[i] = g.nonzero_below(&pp);
                }
            }
            cases.push(Case::Fp12 { op: "line_mul".into(), a: s12(a), b: s12(&b) });
        }
    }
    // ---- Booth
    for w in [5u64, 7] {
        for k in 0..(1u32 << 16) {
            if ctx.tier == Tier::Quick && k % 3 != 0 && k > 1024 {
                continue;
            }
            cases.push(Case::Booth { w, k: hx(&BigUint::from(k)) });
        }
        let nwin = (256 + w - 1) / w;
        for i in 0..nwin {
            for d in 1..=(1u32 << (w - 1)) {
                let lo = BigUint::from(d) << (w * i) as usize;
                if lo.bits() <= 256 {
                    cases.push(Case::Booth { w, k: hx(&lo) });
                }
                let hi = BigUint::one() << (w * (i + 1)) as usize;
                if hi.bits() <= 256 && hi > lo {
                    cases.push(Case::Booth { w, k: hx(&(&hi - &lo)) });
                }
            }
        }
        for k in [&n - 1u32, n.clone(), &n + 1u32, (BigUint::one() << 256usize) - 1u32, g.below(&n)] {
            cases.push(Case::Booth { w, k: hx(&k) });
        }
    }
    // ---- G1
    let mut js: Vec<BigUint> = vec![BigUint::one(), BigUint::from(2u32), BigUint::from(3u32), BigUint::from(5u32), &n - 1u32, &n - 2u32, g.nonzero_below(&n)];
    // the curve has j-invariant 0: (x, y) -> (w x, y) with w^3 = 1 is the multiplication by lambda, lambda^2 + lambda + 1 = 0
    // mod N. [j]P, [j lambda]P and [j lambda^2]P are three DIFFERENT points with the SAME y (they sum to infinity).
    let lambda = {
        let e = (&n - 1u32) / 3u32;
        let mut h = BigUint::from(2u32);
        loop {
            let l = h.modpow(&e, &n);
            if !l.is_one() {
                break l;
            }
            h += 1u32;
        }
    };
    if !((&lambda * &lambda + &lambda + 1u32) % &n).is_zero() {
        ctx.machinery_error("lambda is not a primitive cube root of unity mod N");
    }
    {
        let p1 = sm9::g1_mul(&lambda, &pr.p1);
        if p1.as_ref().map(|p| &p.1) != pr.p1.as_ref().map(|p| &p.1) || p1 == pr.p1 {
            ctx.machinery_error("[lambda]P1 does not share y with P1");
        }
    }
    let lambda2 = (&lambda * &lambda) % &n;
    js.push(lambda.clone());
    js.push(lambda2.clone());
    js.push((BigUint::from(3u32) * &lambda) % &n);
    let rinv_p = (BigUint::one() << 256usize).modpow(&(&pp - 2u32), &pp);
    let lambdas: Vec<BigUint> = vec![BigUint::one(), BigUint::from(2u32), &pp - 1u32, g.nonzero_below(&pp), rinv_p.clone()];
    let mut reps: Vec<(BigUint, BigUint)> = Vec::new();
    for j in &js {
        for l in &lambdas {
            reps.push((j.clone(), l.clone()));
        }
    }
    for x in [BigUint::one(), BigUint::from(2u32), g.nonzero_below(&pp)] {
        reps.push((x, BigUint::zero()));
    }
    for (k1, l1) in &reps {
        for (k2, l2) in &reps {
            cases.push(Case::G1Pair { k1: hx(k1), l1: hx(l1), k2: hx(k2), l2: hx(l2) });
        }
        cases.push(Case::G1Unary { k: hx(k1), l: hx(l1) });
    }
    let mut sc1: Vec<(String, BigUint)> = Vec::new();
    for v in [0u32, 1, 2, 15, 16, 17, 31, 32, 33] {
        sc1.push(("small".into(), BigUint::from(v)));
    }
    for (t, v) in [("N-1", &n - 1u32), ("N", n.clone()), ("N+1", &n + 1u32), ("2^256-1", (BigUint::one() << 256usize) - 1u32)] {
        sc1.push((t.into(), v));
    }
    let ones_runs: Vec<BigUint> = {
        // runs of one bits: 2^k - 1 and 64 / 56 consecutive ones at several offsets (a "+1" that must ripple across
        // limbs in a signed-digit recoding, a bit length taken through floating point, a window that is all ones)
        let one = BigUint::one();
        let mut v: Vec<BigUint> = Vec::new();
        for k in [49u32, 56, 63, 64, 65, 112, 127, 128, 129, 191, 192, 193, 255] {
            v.push((&one << k) - &one);
        }
        for s in [1u32, 13, 48, 64, 100, 128, 150, 190] {
            v.push(((&one << 64u32) - &one) << s);
            v.push(((&one << 56u32) - &one) << s);
        }
        v
    };
    for v in &ones_runs {
        sc1.push(("runs-of-ones".into(), v.clone()));
    }
    // multiples whose last ladder step adds two different points with the same y
    for (t, v) in [("lambda", lambda.clone()), ("lambda^2", lambda2.clone()), ("N-lambda", &n - &lambda), ("64*lambda^2", (BigUint::from(64u32) * &lambda2) % &n), ("64*lambda", (BigUint::from(64u32) * &lambda) % &n), ("32*lambda", (BigUint::from(32u32) * &lambda) % &n), ("lambda+1", &lambda + 1u32), ("lambda-1", &lambda - 1u32)] {
        sc1.push((t.into(), v));
    }
    for _ in 0..4 {
        sc1.push(("seeded".into(), g.below(&(BigUint::one() << 256usize))));
    }
    let mut booth5 = sc1.clone();
    for i in 0..52usize {
        for d in 1..=16u32 {
            let lo = BigUint::from(d) << (5 * i);
            if lo.bits() <= 256 {
                booth5.push(("d*2^(5i)".into(), lo.clone()));
            }
            let hi = BigUint::one() << (5 * (i + 1));
            if hi.bits() <= 256 {
                booth5.push(("2^(5(i+1))-d*2^(5i)".into(), &hi - &lo));
            }
        }
    }
    let g1bases = [(BigUint::one(), BigUint::one()), (js[6].clone(), lambdas[3].clone())];
    for (bi, (bk, bl)) in g1bases.iter().enumerate() {
        for (tag, s) in booth5.iter().step_by(if bi == 0 { 1 } else { ctx.tier.pick(7, 1) }) {
            cases.push(Case::G1Mul { base: hx(bk), l: hx(bl), scalar: hx(s), tag: tag.clone() });
        }
    }
    for (tag, s) in &sc1 {
        cases.push(Case::G1GMul { scalar: hx(s), tag: tag.clone() });
    }
    for i in 0..37usize {
        for d in 1..=64u32 {
            let lo = BigUint::from(d) << (7 * i);
            if lo.bits() <= 256 {
                cases.push(Case::G1GMul { scalar: hx(&lo), tag: "d*2^(7i)".into() });
            }
            let hi = BigUint::one() << (7 * (i + 1));
            if hi.bits() <= 256 {
                cases.push(Case::G1GMul { scalar: hx(&(&hi - &lo)), tag: "2^(7(i+1))-d*2^(7i)".into() });
            }
            cases.push(Case::G1Table { row: i, digit: d as usize });
        }
    }
    // ---- G2
    let l2s: Vec<E2> = vec![f2().one(), (BigUint::from(2u32), BigUint::zero()), (BigUint::zero(), BigUint::one()), (g.nonzero_below(&pp), g.nonzero_below(&pp)), (rinv_p.clone(), BigUint::zero())];
    let mut reps2: Vec<(BigUint, E2)> = Vec::new();
    for j in &js {
        for l in &l2s {
            reps2.push((j.clone(), l.clone()));
        }
    }
    for x in [BigUint::one(), g.below(&pp)] {
        reps2.push((x, f2().zero()));
    }
    for (k1, l1) in &reps2 {
        for (k2, l2) in &reps2 {
            cases.push(Case::G2Pair { k1: hx(k1), l1: s2(l1), k2: hx(k2), l2: s2(l2) });
        }
        cases.push(Case::G2Unary { k: hx(k1), l: s2(l1) });
    }
    let mut sc2 = sc1.clone();
    for i in (0..256usize).step_by(ctx.tier.pick(5, 1)) {
        sc2.push(("2^i".into(), BigUint::one() << i));
    }
    // G1 points with x = 0 (5 is a square mod p) and with the smallest positive / the largest x, in 4 representations
    {
        let five = BigUint::from(5u32);
        let mut xs: Vec<(BigUint, &str)> = vec![(BigUint::zero(), "x=0")];
        let mut x = BigUint::one();
        while sm9::sqrt_fp(&((&x * &x * &x + &five) % &pp)).is_none() {
            x += 1u32;
        }
        xs.push((x, "smallest-positive-x"));
        let mut x = &pp - 1u32;
        while sm9::sqrt_fp(&((&x * &x * &x + &five) % &pp)).is_none() {
            x -= 1u32;
        }
        xs.push((x, "largest-x"));
        let mut count = 0;
        for (x, tag) in &xs {
            match sm9::sqrt_fp(&((x * x * x + &five) % &pp)) {
                Some(y) => {
                    for yy in [y.clone(), &pp - &y] {
                        for l in [BigUint::one(), BigUint::from(2u32), &pp - 1u32, g.nonzero_below(&pp)] {
                            cases.push(Case::G1UnaryXY { x: hx(x), y: hx(&yy), l: hx(&l), tag: (*tag).into() });
                            count += 1;
                        }
                    }
                }
                None => ctx.note_bound(format!("G1 has no point with {}", tag)),
            }
        }
        ctx.cov("g1_points_with_extreme_x", json!(count));
    }
    // the Jacobian encodings of the point at infinity, (t^2 : t^3 : 0) for t != 0 — not only the library's own (1 : 1 : 0) —
    // met with finite points and with each other: O + Q, Q + O, Q - O, O - Q, O + O, 2O, -O, [3]O, (O + Q) + Q, equality.
    // (Triples with Z = 0 that are not of this form, such as (0 : 1 : 0) or (0 : 0 : 0), denote no point and are not judged.)
    {
        let rinv = (BigUint::one() << 256usize).modpow(&(&pp - 2u32), &pp);
        let ts = [BigUint::one(), BigUint::from(2u32), &pp - 1u32, rinv, g.nonzero_below(&pp)];
        let mut count = 0;
        for t in &ts {
            let (ix, iy) = ((t * t) % &pp, (t * t * t) % &pp);
            for (k, l) in [(BigUint::one(), BigUint::one()), (BigUint::from(5u32), BigUint::from(2u32)), (&n - 1u32, &pp - 1u32), (BigUint::one(), BigUint::zero())] {
                cases.push(Case::G1InfOps { ix: hx(&ix), iy: hx(&iy), k: hx(&k), l: hx(&l) });
                count += 1;
            }
            for t2 in [(t.clone(), BigUint::zero()), (BigUint::zero(), t.clone()), (t.clone(), BigUint::one())] {
                let x2 = f2().sqr(&t2);
                let y2 = f2().mul(&x2, &t2);
                for (k, l) in [(BigUint::one(), f2().one()), (BigUint::from(5u32), (BigUint::from(2u32), BigUint::from(3u32))), (BigUint::one(), f2().zero())] {
                    cases.push(Case::G2InfOps { ix: s2(&x2), iy: s2(&y2), k: hx(&k), l: s2(&l) });
                    count += 1;
                }
            }
        }
        ctx.cov("infinity_encodings_x_partners", json!(count));
    }
    // the point at infinity as the base, canonical and non-canonical encodings, G1 and G2
    for t in [BigUint::one(), BigUint::from(2u32), g.nonzero_below(&pp)] {
        for k in [BigUint::zero(), BigUint::one(), BigUint::from(2u32), BigUint::from(3u32), BigUint::from(33u32), &n - 1u32, n.clone(), g.below(&n)] {
            cases.push(Case::G1Mul { base: hx(&t), l: hx(&BigUint::zero()), scalar: hx(&k), tag: "infinity-base".into() });
            cases.push(Case::G2Mul { base: hx(&t), l: s2(&f2().zero()), scalar: hx(&k), gmul: false, tag: "infinity-base".into() });
        }
    }
    // every scalar within 300 of 0 and of N (a single (window, digit) coincidence with the accumulator - e.g. the last
    // signed digit meeting a table entry it already holds - sits at one such value), fixed- and variable-base, G1 and G2
    let sweep = ctx.tier.pick(300u32, 1200);
    for j in 0..=sweep {
        for (tag, k) in [("near-0", BigUint::from(j)), ("near-N", &n - j), ("N+j", &n + j)] {
            cases.push(Case::G1GMul { scalar: hx(&k), tag: tag.into() });
            if j % 3 == 0 {
                cases.push(Case::G1Mul { base: hx(&js[6]), l: hx(&lambdas[3]), scalar: hx(&k), tag: tag.into() });
                cases.push(Case::G2Mul { base: hx(&BigUint::one()), l: s2(&f2().one()), scalar: hx(&k), gmul: true, tag: tag.into() });
            }
            if j % 9 == 0 {
                cases.push(Case::G2Mul { base: hx(&js[6]), l: s2(&l2s[3]), scalar: hx(&k), gmul: false, tag: tag.into() });
            }
        }
    }
    for (tag, s) in &sc2 {
        cases.push(Case::G2Mul { base: hx(&BigUint::one()), l: s2(&f2().one()), scalar: hx(s), gmul: true, tag: tag.clone() });
        cases.push(Case::G2Mul { base: hx(&js[6]), l: s2(&l2s[3]), scalar: hx(s), gmul: false, tag: tag.clone() });
    }
    // multiplication sequences over related bases (B, -B with the same x and z, B re-represented, other point)
    for grp in [1u8, 2] {
        let alpha: Vec<(u8, String, String, bool, String)> = {
            let mut v = Vec::new();
            for (bk, bl, negate) in [(js[6].clone(), lambdas[3].clone(), false), (js[6].clone(), lambdas[3].clone(), true), (js[6].clone(), lambdas[1].clone(), false), (js[2].clone(), lambdas[3].clone(), false)] {
                for sc in [BigUint::from(3u32), &n - 2u32] {
                    v.push((grp, hx(&bk), hx(&bl), negate, hx(&sc)));
                }
            }
            v
        };
        for a in &alpha {
            for b in &alpha {
                cases.push(Case::MulSeq { steps: vec![a.clone(), b.clone()] });
            }
        }
    }
    ctx.note_bound(format!("{} cases", cases.len()));
    ctx.cov("fp12_zero_patterns", json!(4096));
    ctx.cov("g1_table_entries", json!(37 * 64));
    ctx.sample(serde_json::to_value(cases.iter().find(|c| matches!(c, Case::Fp2 { .. })).unwrap()).unwrap());
    ctx.sample(serde_json::to_value(cases.iter().find(|c| matches!(c, Case::G2Pair { .. })).unwrap()).unwrap());
    ctx.sample(serde_json::to_value(cases.iter().find(|c| matches!(c, Case::Booth { .. })).unwrap()).unwrap());
    run_cases(ctx, &cases, 128, eval);
    ctx.assume("gm-sm9 fn_random_u256 / fp_random_u256 are unreachable dead code and not judged");
    crate::cold::check(ctx, "C13");
}
