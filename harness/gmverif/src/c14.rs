//! C14 — secret scalars are fresh and in range on every use (E1 at the RNG seam).
//! The statistical clauses of the property (bit bias, OS seeding) are outside bounded model
//! checking; a separate *monitor* looks at them and is reported as such.
use crate::alpha::*;
use crate::c03::gdbg;
use crate::engine::*;
use crate::sm2api as a2;
use crate::sm9api as a9;
use gm_sm9::key::{Sm9EncMasterKey, Sm9SignMasterKey};
use gm_sm9::points::TwistPoint;
use num_bigint::BigUint;
use num_traits::{One, ToPrimitive, Zero};
use refmodels::util::{from_be, from_limbs, hexbig as hb, to_limbs};
use refmodels::{sm2, sm9};
use serde::{Deserialize, Serialize};
use serde_json::{json, Value};
use std::sync::{Arc, OnceLock};

pub const OPS: [&str; 13] = [
    "sm2.gen_keypair", "sm2.sign", "sm2.encrypt", "sm2.exchange_1", "sm2.exchange_2",
    "sm9.generate_sign_master_key", "sm9.generate_enc_master_key", "sm9.EncMaster::master_key_generate", "sm9.SignMaster::master_key_generate",
    "sm9.sign", "sm9.encrypt", "sm9.exch_step_1a", "sm9.exch_step_1b",
];

#[derive(Serialize, Deserialize, Clone, Debug)]
pub enum Case {
    /// candidates offered to the sampler inside `op`, in order (hex); the rest of the queue is in-range filler
    Range { op: String, offered: Vec<String>, names: Vec<String> },
    /// consecutive operations on one thread fed from one strictly increasing candidate stream
    Fresh { ops: Vec<String> },
    /// statistical monitor (not model checking)
    Monitor,
}

fn order(op: &str) -> BigUint {
    if op.starts_with("sm2") {
        sm2::params().n.clone()
    } else {
        sm9::params().n.clone()
    }
}

struct Sm9Fix {
    ks: BigUint,
    g_sign: sm9::F12,
    ds: sm9::G1,
    ke: BigUint,
    ppube: sm9::G1,
    g_enc: sm9::F12,
    de_b_exch: sm9::G2,
}
fn sm9fix() -> &'static Sm9Fix {
    static F: OnceLock<Sm9Fix> = OnceLock::new();
    F.get_or_init(|| {
        let pr = sm9::params();
        let ks = hb("000130E78459D78545CB54C587E02CF480CE0B66340F319F348A1D5B1F2DC5F4");
        let ppubs = sm9::g2_mul(&ks, &pr.p2);
        let ke = hb("0001EDEE3778F441F8DEA3D9FA0ACC4E07EE36C93F9A08618AF4AD85CEDE1C22");
        let ppube = sm9::g1_mul(&ke, &pr.p1);
        Sm9Fix {
            g_sign: sm9::sign_g(&ppubs),
            ds: sm9::extract_sign_key(&ks, b"Alice").unwrap(),
            ks,
            g_enc: sm9::enc_g(&ppube),
            de_b_exch: sm9::extract_enc_key(&ke, b"Bob", sm9::HID_EXCH).unwrap(),
            ppube,
            ke,
        }
    })
}

/// What one invocation did: scalar seen through the public output (checked by the reference), and
/// what the seam logged.
struct Observed {
    /// scalar implied by the operation's public output; None = could not be recovered (then `problem` says why)
    used: Option<BigUint>,
    problem: Option<String>,
}

/// objects that live across the operations of one sequence (hidden state inside them must not leak scalars)
pub struct World {
    sk: gm_sm2::key::Sm2PrivateKey,
    alice: gm_sm2::exchange::Exchange,
    bob: gm_sm2::exchange::Exchange,
    alice_started: bool,
}
impl World {
    pub fn new() -> World {
        let (da, db) = (hb(ANNEX_D), hb(ANNEX_K));
        let (ska, skb) = (a2::private_key(&da), a2::private_key(&db));
        let (pka, pkb) = (ska.public_key, skb.public_key);
        World {
            sk: a2::private_key(&da),
            alice: gm_sm2::exchange::Exchange::new(16, None, &pka, &ska, None, &pkb).expect("exchange"),
            bob: gm_sm2::exchange::Exchange::new(16, None, &pkb, &skb, None, &pka).expect("exchange"),
            alice_started: false,
        }
    }
}

/// run `op` once on this thread; the caller owns the seam
fn run_op(ctx: &Ctx, w: &mut World, op: &str, accepted_last: &dyn Fn() -> Option<BigUint>) -> Guard<Observed> {
    ctx.call();
    let d_fixed = hb(ANNEX_D);
    guard(|| match op {
        "sm2.abort_3" => {
            // abort a started run on the same object: a bad S_B makes exchange_3 fail (draws no scalar)
            if w.alice_started {
                let rb = a2::lib_point_affine(&sm2::g_mul(&BigUint::from(9u32)));
                let r = w.alice.exchange_3(&rb, [0u8; 32]);
                assert!(r.is_err(), "exchange_3 accepted an all-zero S_B");
            }
            Observed { used: None, problem: None }
        }
        "sm2.gen_keypair" => {
            let (pk, sk) = gm_sm2::key::gen_keypair().expect("gen_keypair");
            let d = from_limbs(&sk.d);
            let okp = a2::ref_point(&pk.point) == sm2::g_mul(&d) && a2::ref_point(&sk.public_key.point) == sm2::g_mul(&d);
            Observed { used: Some(d), problem: if okp { None } else { Some("public key is not [d]G".into()) } }
        }
        "sm2.sign" => {
            let sig = w.sk.sign(None, b"c14 message").expect("sign");
            let n = &sm2::params().n;
            let (r, s) = (from_be(&sig[..32]), from_be(&sig[32..]));
            // k = s (1 + d) + r d
            let k = (&s * (BigUint::one() + &d_fixed) + &r * &d_fixed) % n;
            Observed { used: Some(k), problem: None }
        }
        "sm2.encrypt" => {
            let pk = a2::public_key(&sm2::g_mul(&d_fixed));
            let ct = pk.encrypt(b"c14", false, gm_sm2::key::Sm2Model::C1C3C2).expect("encrypt");
            let c1 = sm2::decode_point(&ct[..65]);
            let k = accepted_last();
            match (c1, k) {
                (Some(c1), Some(k)) if sm2::g_mul(&k) == c1 => Observed { used: Some(k), problem: None },
                (_, k) => Observed { used: k, problem: Some("C1 is not [k]G for the accepted scalar".into()) },
            }
        }
        "sm2.exchange_1" | "sm2.exchange_2" => {
            let r_pt = if op == "sm2.exchange_1" {
                w.alice_started = true;
                w.alice.exchange_1().expect("exchange_1")
            } else {
                let ra = a2::lib_point_affine(&sm2::g_mul(&BigUint::from(7u32)));
                w.bob.exchange_2(&ra).expect("exchange_2").0
            };
            let k = accepted_last();
            match k {
                Some(k) if sm2::g_mul(&k) == a2::ref_point(&r_pt) => Observed { used: Some(k), problem: None },
                k => Observed { used: k, problem: Some("R is not [r]G for the accepted scalar".into()) },
            }
        }
        "sm9.generate_sign_master_key" | "sm9.SignMaster::master_key_generate" => {
            let m = if op == "sm9.generate_sign_master_key" { gm_sm9::key::generate_sign_master_key() } else { Sm9SignMasterKey::master_key_generate() };
            let ks = from_limbs(&m.ks);
            let ok = a9::ref_g2(&m.ppubs) == sm9::g2_mul(&ks, &sm9::params().p2);
            Observed { used: Some(ks), problem: if ok { None } else { Some("Ppub-s is not [ks]P2".into()) } }
        }
        "sm9.generate_enc_master_key" | "sm9.EncMaster::master_key_generate" => {
            let m = if op == "sm9.generate_enc_master_key" { gm_sm9::key::generate_enc_master_key() } else { Sm9EncMasterKey::master_key_generate() };
            let ke = from_limbs(&m.ke);
            let ok = a9::ref_g1(&m.ppube) == sm9::g1_mul(&ke, &sm9::params().p1);
            Observed { used: Some(ke), problem: if ok { None } else { Some("Ppub-e is not [ke]P1".into()) } }
        }
        "sm9.sign" => {
            let fx = sm9fix();
            let ks = to_limbs(&fx.ks);
            let msk = Sm9SignMasterKey { ks, ppubs: TwistPoint::g_mul(&ks) };
            let key = msk.extract_key(b"Alice").expect("extract");
            let (h, s) = key.sign(b"c14 message").expect("sign");
            let r = accepted_last();
            match r {
                Some(r) => match sm9::sign_with_r(&fx.g_sign, &fx.ds, b"c14 message", &r) {
                    Some((h0, s0)) if h0 == from_limbs(&h) && s0 == a9::ref_g1(&s) => Observed { used: Some(r), problem: None },
                    _ => Observed { used: Some(r), problem: Some("(h, S) is not the signature for the accepted r".into()) },
                },
                None => Observed { used: None, problem: Some("no scalar drawn".into()) },
            }
        }
        "sm9.encrypt" => {
            let fx = sm9fix();
            let ke = to_limbs(&fx.ke);
            let msk = Sm9EncMasterKey { ke, ppube: gm_sm9::points::Point::g_mul(&ke) };
            let ct = msk.encrypt(b"Bob", b"c14");
            let r = accepted_last();
            let c1 = (from_be(&ct[1..33]), from_be(&ct[33..65]));
            match r {
                Some(r) if sm9::g1_mul(&r, &sm9::enc_q(&fx.ppube, b"Bob", sm9::HID_ENC)) == Some(c1) => Observed { used: Some(r), problem: None },
                r => Observed { used: r, problem: Some("C1 is not [r]Q_B for the accepted scalar".into()) },
            }
        }
        "sm9.exch_step_1a" => {
            let fx = sm9fix();
            let ke = to_limbs(&fx.ke);
            let msk = Sm9EncMasterKey { ke, ppube: gm_sm9::points::Point::g_mul(&ke) };
            let (ra, r) = gm_sm9::key::exch_step_1a(&msk, b"Bob");
            let r = from_limbs(&r);
            let ok = a9::ref_g1(&ra) == sm9::g1_mul(&r, &sm9::enc_q(&fx.ppube, b"Bob", sm9::HID_EXCH));
            Observed { used: Some(r), problem: if ok { None } else { Some("R_A is not [r_A]Q_B".into()) } }
        }
        "sm9.exch_step_1b" => {
            let fx = sm9fix();
            let ke = to_limbs(&fx.ke);
            let msk = Sm9EncMasterKey { ke, ppube: gm_sm9::points::Point::g_mul(&ke) };
            let key_b = gm_sm9::key::Sm9EncKey { ppube: msk.ppube, de: a9::lib_g2_affine(&fx.de_b_exch) };
            let ra = a9::lib_g1_affine(&sm9::g1_mul(&BigUint::from(5u32), &sm9::enc_q(&fx.ppube, b"Bob", sm9::HID_EXCH)));
            let (rb, _sk) = gm_sm9::key::exch_step_1b(&msk, b"Alice", b"Bob", &key_b, &ra, 16).expect("exch_step_1b");
            let r = accepted_last();
            match r {
                Some(r) if sm9::g1_mul(&r, &sm9::enc_q(&fx.ppube, b"Alice", sm9::HID_EXCH)) == a9::ref_g1(&rb) => Observed { used: Some(r), problem: None },
                r => Observed { used: r, problem: Some("R_B is not [r_B]Q_A for the accepted scalar".into()) },
            }
        }
        _ => panic!("unknown op {}", op),
    })
}

fn set_queue(op_group: &str, q: Vec<[u8; 32]>) {
    if op_group == "sm2" {
        gm_sm2::verif::rng_set(gm_sm2::verif::RngMode::Scripted, q);
    } else {
        gm_sm9::verif::rng_set(gm_sm9::verif::RngMode::Scripted, q);
    }
}
fn take_log(op_group: &str) -> (Vec<[u8; 32]>, Vec<[u64; 4]>) {
    if op_group == "sm2" {
        let l = gm_sm2::verif::rng_take_log();
        (l.offered, l.accepted)
    } else {
        let l = gm_sm9::verif::rng_take_log();
        (l.offered, l.accepted)
    }
}
fn peek_accepted_last(op_group: &str) -> Option<BigUint> {
    // the log is only taken after the op; a peek needs take + restore, so ops call this exactly once, at their end
    let (off, acc) = take_log(op_group);
    let r = acc.last().map(from_limbs);
    STASH.with(|s| {
        let mut s = s.borrow_mut();
        s.0.extend(off);
        s.1.extend(acc);
    });
    r
}
thread_local! {
    static STASH: std::cell::RefCell<(Vec<[u8; 32]>, Vec<[u64; 4]>)> = std::cell::RefCell::new((Vec::new(), Vec::new()));
}
fn off_all() {
    gm_sm2::verif::rng_set(gm_sm2::verif::RngMode::Off, vec![]);
    gm_sm9::verif::rng_set(gm_sm9::verif::RngMode::Off, vec![]);
}

/// judge one invocation: offered/accepted from the seam, `obs` from the public output.
/// `name_of` maps a candidate value to its alphabet name (class of the violation).
/// is `k`, drawn and accepted by the sampler, one the operation must discard and replace (the standards' retry steps)?
fn degenerate(op: &str, k: &BigUint) -> bool {
    let d = hb(ANNEX_D);
    match op {
        "sm2.sign" => {
            let pk = sm2::g_mul(&d);
            let e = sm2::digest_e(sm2::DEFAULT_ID, &pk, b"c14 message");
            sm2::sign_with_k(&d, &e, k).is_none()
        }
        "sm2.encrypt" => sm2::encrypt_with_k(&sm2::g_mul(&d), b"c14", k).is_none(),
        "sm9.sign" => {
            let fx = sm9fix();
            sm9::sign_with_r(&fx.g_sign, &fx.ds, b"c14 message", k).is_none()
        }
        "sm9.encrypt" => {
            let fx = sm9fix();
            sm9::encrypt_with_r(&sm9::enc_g(&fx.ppube), &fx.ppube, b"Bob", b"c14", k).is_none()
        }
        // a private / master key must lie in [1, order-2]: discarding order-1 after the sampler returned it is justified
        "sm2.gen_keypair" | "sm9.generate_sign_master_key" | "sm9.SignMaster::master_key_generate" | "sm9.generate_enc_master_key" | "sm9.EncMaster::master_key_generate" => *k == order(op) - 1u32,
        _ => false,
    }
}

fn judge(ctx: &Ctx, op: &str, name_of: &dyn Fn(&BigUint) -> String, obs: Guard<Observed>, offered: &[[u8; 32]], accepted: &[[u64; 4]], cj: &dyn Fn() -> Value) -> Option<BigUint> {
    let ord = order(op);
    let site = op.to_string();
    match obs {
        Guard::Panic(p) => {
            let c = if a2::is_exhausted(&p) { "sampler-consumed-all-candidates".to_string() } else { format!("panic/{}", panic_site(&p)) };
            ctx.violation(&site, &c, p, cj());
            None
        }
        Guard::Done(o) => {
            let Some(drawn) = accepted.last().map(from_limbs) else {
                ctx.violation(&site, "no-scalar-drawn-from-the-generator", o.problem.unwrap_or_default(), cj());
                return None;
            };
            if !offered.iter().any(|c| from_be(c) == drawn) {
                ctx.violation(&site, "scalar-is-not-a-generator-candidate", format!("drawn={}", a2::hexbig(&drawn)), cj());
                return None;
            }
            if drawn.is_zero() || drawn >= ord {
                ctx.violation(&site, &format!("out-of-range-candidate-used/{}", name_of(&drawn)), format!("used={} order={}", a2::hexbig(&drawn), a2::hexbig(&ord)), cj());
                return None;
            }
            // the sampler itself may refuse an in-range candidate only for the documented reasons: the top value order-1
            // (keys live in [1, order-2]) and, for SM9, a candidate whose low 64-bit limb is zero. Anything pickier
            // (no zero byte, no small value, ...) removes part of the range and biases every scalar.
            if let Some(first_in) = offered.iter().map(|c| from_be(c)).find(|v| !v.is_zero() && *v < ord) {
                let sm9 = op.starts_with("sm9");
                let excusable = first_in == &ord - 1u32 || (sm9 && (&first_in & BigUint::from(u64::MAX)).is_zero());
                let first_acc = accepted.first().map(from_limbs);
                if !excusable && first_acc.as_ref() != Some(&first_in) {
                    ctx.violation(&site, "sampler-refused-an-in-range-candidate", format!("candidate={} first accepted={:?}", a2::hexbig(&first_in), first_acc.map(|x| a2::hexbig(&x))), cj());
                    return None;
                }
            }
            // a scalar the sampler accepted may be discarded by the operation only where the standard says so (r = 0,
            // r + k = n, s = 0, all-zero key stream, l = 0); any other discard skews the distribution of the scalars used
            for a in &accepted[..accepted.len() - 1] {
                let a = from_limbs(a);
                if !degenerate(op, &a) {
                    ctx.violation(&site, "accepted-scalar-discarded-without-cause", format!("discarded={} used={}", a2::hexbig(&a), a2::hexbig(&drawn)), cj());
                    return None;
                }
            }
            if let Some(pb) = o.problem {
                ctx.violation(&site, "output-inconsistent-with-drawn-scalar", format!("{} (drawn={})", pb, a2::hexbig(&drawn)), cj());
                return None;
            }
            match o.used {
                Some(u) if u == drawn => Some(u),
                other => {
                    ctx.violation(&site, "scalar-used-differs-from-scalar-drawn", format!("used={:?} drawn={}", other.map(|x| a2::hexbig(&x)), a2::hexbig(&drawn)), cj());
                    None
                }
            }
        }
    }
}

pub fn eval(ctx: &Ctx, case: &Case) {
    ctx.state();
    let cj = || serde_json::to_value(case).unwrap();
    match case {
        Case::Range { op, offered, names } => {
            let group = &op[..3];
            let ord = order(op);
            let mut q: Vec<[u8; 32]> = offered.iter().map(|h| a2::cand(&hb(h))).collect();
            // in-range filler so that a legitimately rejected in-range candidate does not exhaust the queue
            let mut g = refmodels::util::SplitMix::new(ctx.seed, "c14filler");
            for _ in 0..6 {
                q.push(a2::cand(&g.nonzero_below(&(&ord - 2u32))));
            }
            STASH.with(|s| *s.borrow_mut() = (Vec::new(), Vec::new()));
            set_queue(group, q);
            let grp = group.to_string();
            let mut world = World::new();
            let obs = run_op(ctx, &mut world, op, &|| peek_accepted_last(&grp));
            let (mut off, mut acc) = STASH.with(|s| std::mem::take(&mut *s.borrow_mut()));
            let (o2, a2_) = take_log(group);
            off.extend(o2);
            acc.extend(a2_);
            off_all();
            ctx.trace();
            ctx.depth(offered.len() as u64);
            let name_of = |v: &BigUint| -> String { offered.iter().position(|h| hb(h) == *v).map(|i| names[i].clone()).unwrap_or_else(|| "filler".into()) };
            if judge(ctx, op, &name_of, obs, &off, &acc, &cj).is_some() {
                ctx.outcome(&format!("ok/{}/deviations={}", op, offered.len() - 1));
            }
        }
        Case::Fresh { ops } => {
            // strictly increasing in-range candidates with four non-trivial limbs, separate streams per seam
            let base2 = hb("1111111122222222333333334444444455555555666666667777777788888888");
            let base9 = hb("0123456701234567012345670123456701234567012345670123456701234567");
            let step = hb("0000000100000001000000010000000100000001000000010000000100000001");
            let mk = |b: &BigUint| -> Vec<[u8; 32]> { (0..64u32).map(|i| a2::cand(&(b + &step * i))).collect() };
            set_queue("sm2", mk(&base2));
            set_queue("sm9", mk(&base9));
            let mut seen: Vec<BigUint> = Vec::new();
            let mut world = World::new();
            for (i, op) in ops.iter().enumerate() {
                let group = &op[..3];
                STASH.with(|s| *s.borrow_mut() = (Vec::new(), Vec::new()));
                let grp = group.to_string();
                let obs = run_op(ctx, &mut world, op, &|| peek_accepted_last(&grp));
                if op == "sm2.abort_3" {
                    if let Guard::Panic(p) = obs {
                        ctx.violation(op, "abort-step-panicked", p, cj());
                        break;
                    }
                    let _ = take_log(group);
                    continue;
                }
                let (mut off, mut acc) = STASH.with(|s| std::mem::take(&mut *s.borrow_mut()));
                let (o2, a2_) = take_log(group);
                off.extend(o2);
                acc.extend(a2_);
                let cls = format!("op{}of{}", i + 1, ops.len());
                if off.is_empty() {
                    ctx.violation(op, &format!("no-fresh-candidate-consumed/{}", cls), format!("sequence {:?}", ops), cj());
                    break;
                }
                let name_of = |_: &BigUint| -> String { "stream".into() };
                match judge(ctx, op, &name_of, obs, &off, &acc, &cj) {
                    Some(u) => {
                        if seen.contains(&u) {
                            ctx.violation(op, &format!("scalar-repeated-across-invocations/{}", cls), format!("sequence {:?} scalar {}", ops, a2::hexbig(&u)), cj());
                            break;
                        }
                        seen.push(u);
                    }
                    None => break,
                }
            }
            off_all();
            ctx.trace();
            ctx.depth(ops.len() as u64);
            ctx.outcome(&format!("fresh/len{}", ops.len()));
        }
        Case::Monitor => monitor(ctx, &cj),
    }
}

/// statistical monitor — NOT model checking; reported separately in the evidence
fn monitor(ctx: &Ctx, cj: &dyn Fn() -> Value) {
    let draws = 4096usize;
    for (name, ord) in [("sm2.random_u256", sm2::params().n.clone()), ("sm9.sm9_random_u256", sm9::params().n.clone())] {
        let vals: Vec<BigUint> = if name.starts_with("sm2") {
            (0..draws).map(|_| from_limbs(&gm_sm2::verif::random_u256())).collect()
        } else {
            let range = to_limbs(&(&ord - 1u32));
            (0..draws).map(|_| from_limbs(&gm_sm9::u256::sm9_random_u256(&range))).collect()
        };
        ctx.calls(draws as u64);
        let mut sorted = vals.clone();
        sorted.sort();
        sorted.dedup();
        if sorted.len() != vals.len() {
            ctx.violation(name, "monitor/duplicate-scalars", format!("{} duplicates in {} draws", vals.len() - sorted.len(), vals.len()), cj());
        }
        if vals.iter().any(|v| v.is_zero() || v >= &ord) {
            ctx.violation(name, "monitor/out-of-range", String::new(), cj());
        }
        // bits 0..=250 should be unbiased (the top bits are shaped by the range); 8 sigma = 8 * sqrt(N)/2
        let tol = 4.0 * (draws as f64).sqrt();
        for bit in 0..=250u64 {
            let ones = vals.iter().filter(|v| v.bit(bit)).count() as f64;
            if (ones - draws as f64 / 2.0).abs() > tol {
                ctx.violation(name, "monitor/biased-bit", format!("bit {} set in {} of {} draws", bit, ones, draws), cj());
                break;
            }
        }
        // leading byte: 65536 further draws; the count of every value v must be within 8 sigma of its share of [1, order-1]
        // (a sampler that settles the leading byte first and redraws only the tail over-represents the bound's own leading byte)
        {
            let n_hist = 65536usize;
            let mut hist = [0u32; 256];
            for _ in 0..n_hist {
                let v = if name.starts_with("sm2") {
                    from_limbs(&gm_sm2::verif::random_u256())
                } else {
                    from_limbs(&gm_sm9::u256::sm9_random_u256(&to_limbs(&(&ord - 1u32))))
                };
                hist[(v >> 248usize).to_u32_digits().first().copied().unwrap_or(0) as usize] += 1;
            }
            ctx.calls(n_hist as u64);
            let total = (&ord - 1u32).to_f64().unwrap_or(1.0);
            for v in 0..256usize {
                let lo = BigUint::from(v as u32) << 248usize;
                let hi = (BigUint::from(v as u32 + 1) << 248usize).min(ord.clone());
                let share = if hi > lo { (&hi - &lo).to_f64().unwrap_or(0.0) / total } else { 0.0 };
                let expect = n_hist as f64 * share;
                let sigma = (n_hist as f64 * share * (1.0 - share)).sqrt();
                if (hist[v] as f64 - expect).abs() > 8.0 * sigma + 2.0 {
                    ctx.violation(name, "monitor/leading-byte-over-or-under-represented", format!("leading byte {:02x}: {} of {} draws, expected {:.1}", v, hist[v], n_hist, expect), cj());
                    break;
                }
            }
        }
        // two fresh threads must not produce the same stream (fixed seeding)
        let f = |n: &str| -> Vec<BigUint> {
            if n.starts_with("sm2") {
                (0..4).map(|_| from_limbs(&gm_sm2::verif::random_u256())).collect()
            } else {
                let range = to_limbs(&(sm9::params().n.clone() - 1u32));
                (0..4).map(|_| from_limbs(&gm_sm9::u256::sm9_random_u256(&range))).collect()
            }
        };
        let a = std::thread::scope(|s| s.spawn(|| f(name)).join().unwrap());
        let b = std::thread::scope(|s| s.spawn(|| f(name)).join().unwrap());
        if a == b {
            ctx.violation(name, "monitor/identical-streams-in-fresh-threads", String::new(), cj());
        }
    }
    // scalars drawn by several threads at the same time must all be different (a shared generator updated without
    // holding its lock across the draw hands the same state to two threads)
    {
        let per = 400usize;
        let all: Vec<Vec<(BigUint, BigUint)>> = std::thread::scope(|s| {
            let hs: Vec<_> = (0..8)
                .map(|_| {
                    s.spawn(move || {
                        let range = to_limbs(&(sm9::params().n.clone() - 1u32));
                        (0..per).map(|_| (from_limbs(&gm_sm2::verif::random_u256()), from_limbs(&gm_sm9::u256::sm9_random_u256(&range)))).collect::<Vec<_>>()
                    })
                })
                .collect();
            hs.into_iter().map(|h| h.join().unwrap_or_default()).collect()
        });
        ctx.calls((16 * per) as u64);
        for (idx, name) in ["sm2.random_u256", "sm9.sm9_random_u256"].iter().enumerate() {
            let mut v: Vec<BigUint> = all.iter().flatten().map(|p| if idx == 0 { p.0.clone() } else { p.1.clone() }).collect();
            let total = v.len();
            v.sort();
            v.dedup();
            if v.len() != total {
                ctx.violation(name, "monitor/duplicate-scalars-across-concurrent-threads", format!("{} duplicates among {} scalars drawn by 8 threads at once", total - v.len(), total), cj());
            }
        }
    }
    // the first scalar of each of 4096 fresh threads: a per-thread generator keyed with fewer than 12 bits of seed
    // material must repeat one by pigeonhole (and one keyed with up to about 20 bits almost surely does)
    {
        let fresh = 4096usize;
        let mut firsts: Vec<(BigUint, BigUint)> = Vec::with_capacity(fresh);
        for _ in 0..fresh / 64 {
            let batch: Vec<(BigUint, BigUint)> = std::thread::scope(|s| {
                let hs: Vec<_> = (0..64)
                    .map(|_| {
                        s.spawn(move || {
                            let range = to_limbs(&(sm9::params().n.clone() - 1u32));
                            (from_limbs(&gm_sm2::verif::random_u256()), from_limbs(&gm_sm9::u256::sm9_random_u256(&range)))
                        })
                    })
                    .collect();
                hs.into_iter().filter_map(|h| h.join().ok()).collect()
            });
            firsts.extend(batch);
        }
        ctx.calls(2 * fresh as u64);
        for (idx, name) in ["sm2.random_u256", "sm9.sm9_random_u256"].iter().enumerate() {
            let mut v: Vec<BigUint> = firsts.iter().map(|p| if idx == 0 { p.0.clone() } else { p.1.clone() }).collect();
            let total = v.len();
            v.sort();
            v.dedup();
            if v.len() != total || total != fresh {
                ctx.violation(name, "monitor/first-scalars-of-fresh-threads-repeat", format!("{} distinct first scalars among {} fresh threads", v.len(), total), cj());
            }
        }
    }
    // a key object and its clone must not share nonces: 4 signatures each on distinct messages, the nonce recovered from
    // every signature as k = s (1 + d) + r d mod n, all 8 different (a generator stored inside the key object is copied by Clone)
    {
        let n = sm2::params().n.clone();
        let d = from_limbs(&gm_sm2::verif::random_u256()) % (&n - 2u32) + 1u32;
        let sk = a2::private_key(&d);
        let sk2 = sk.clone();
        let mut ks: Vec<BigUint> = Vec::new();
        for i in 0..8u32 {
            let who = if i % 2 == 0 { &sk } else { &sk2 };
            let msg = format!("clone nonce probe {}", i);
            ctx.call();
            if let Guard::Done(Ok(sig)) = guard(|| who.sign(None, msg.as_bytes())) {
                if sig.len() == 64 {
                    let (r, sv) = (from_be(&sig[..32]), from_be(&sig[32..]));
                    ks.push((&sv * (&d + 1u32) + &r * &d) % &n);
                }
            }
        }
        let total = ks.len();
        ks.sort();
        ks.dedup();
        if ks.len() != total || total != 8 {
            ctx.violation("sm2.sign", "monitor/nonce-shared-between-a-key-object-and-its-clone", format!("{} distinct nonces in {} signatures", ks.len(), total), cj());
        }
    }
    // two fresh processes must not produce the same stream either (a process-wide generator with a fixed seed
    // passes the thread comparison above)
    let run = || -> Option<String> {
        let exe = std::env::current_exe().ok()?;
        let out = std::process::Command::new(exe).args(["tool", "draw"]).output().ok()?;
        if !out.status.success() {
            return None;
        }
        Some(String::from_utf8_lossy(&out.stdout).to_string())
    };
    match (run(), run()) {
        (Some(a), Some(b)) => {
            let (la, lb): (Vec<&str>, Vec<&str>) = (a.lines().collect(), b.lines().collect());
            if la.len() != 2 || lb.len() != 2 {
                ctx.machinery_error(format!("C14 monitor: child printed {} / {} lines", la.len(), lb.len()));
            } else {
                for (i, name) in ["sm2.random_u256", "sm9.sm9_random_u256"].iter().enumerate() {
                    if la[i] == lb[i] {
                        ctx.violation(name, "monitor/identical-streams-in-fresh-processes", la[i].to_string(), cj());
                    }
                }
            }
        }
        _ => ctx.machinery_error("C14 monitor: could not run the child process"),
    }
    ctx.outcome("monitor-done");
}

/// `gmverif tool draw`: the first four scalars of each sampler with the seam off, one sampler per line
pub fn print_draws() {
    let a: Vec<String> = (0..4).map(|_| hex::encode(refmodels::util::to32(&from_limbs(&gm_sm2::verif::random_u256())))).collect();
    println!("{}", a.join(" "));
    let range = to_limbs(&(sm9::params().n.clone() - 1u32));
    let b: Vec<String> = (0..4).map(|_| hex::encode(refmodels::util::to32(&from_limbs(&gm_sm9::u256::sm9_random_u256(&range))))).collect();
    println!("{}", b.join(" "));
}

pub fn replay(ctx: &Arc<Ctx>, v: &Value) {
    let c: Case = serde_json::from_value(v.clone()).expect("C14 case");
    eval(ctx, &c);
}

fn alphabets(op: &str, seed: u64) -> (Vec<(String, BigUint)>, Vec<(String, BigUint)>) {
    let ord = order(op);
    let p = if op.starts_with("sm2") { sm2::params().p.clone() } else { sm9::params().p.clone() };
    let one = BigUint::one();
    let inr = vec![
        ("1".to_string(), one.clone()),
        ("2".to_string(), BigUint::from(2u32)),
        ("order-2".to_string(), &ord - 2u32),
        ("order-1".to_string(), &ord - 1u32),
        ("2^255".to_string(), &one << 255usize),
        ("mid".to_string(), refmodels::util::SplitMix::new(seed, "c14mid").nonzero_below(&(&ord - 2u32))),
        // in-range values with zero bytes / a repeated byte / all-ones low limbs (a sampler may not be pickier than its range)
        ("zero-bytes".to_string(), refmodels::util::hexbig("0100000000000000000000000000000000ff00000000000000000000000000a1")),
        ("repeated-byte".to_string(), refmodels::util::hexbig("5a5a5a5a5a5a5a5a5a5a5a5a5a5a5a5a5a5a5a5a5a5a5a5a5a5a5a5a5a5a5a5a")),
        ("low-limbs-ones".to_string(), refmodels::util::hexbig("00000000000000010000000000000000ffffffffffffffffffffffffffffffff")),
    ];
    let out = vec![
        ("0".to_string(), BigUint::zero()),
        ("order".to_string(), ord.clone()),
        ("order+1".to_string(), &ord + 1u32),
        ("p-2".to_string(), &p - 2u32),
        ("p-1".to_string(), &p - 1u32),
        ("p".to_string(), p.clone()),
        ("2^256-1".to_string(), (&one << 256usize) - &one),
    ];
    (inr.into_iter().filter(|(_, v)| !v.is_zero() && *v < ord).collect(), out.into_iter().filter(|(_, v)| v.is_zero() || *v >= ord).collect())
}

pub fn run(ctx: &Arc<Ctx>) {
    refmodels::selftest::run(&["sm2", "sm9"]).unwrap_or_else(|e| ctx.machinery_error(format!("reference self-test failed: {}", e)));
    let _ = sm9fix();
    let dmax = ctx.tier.pick(2usize, 3);
    let fresh_len = ctx.tier.pick(2usize, 3);
    ctx.set_rule("stateright BFS per call site (13 operations): the byte source behind the sampler answers with every sequence of <= D out-of-range candidates from {0, order, order+1, p-2, p-1, p, 2^256-1} followed by one in-range candidate from {1, 2, order-2, order-1, 2^255, mid, a value with zero bytes, a repeated byte, all-ones low limbs}, plus runs of 7..64 out-of-range candidates; the sampler may refuse an in-range candidate only if it is order-1 (or, SM9, has a zero low limb), and an operation may discard an accepted scalar only on the standard's retry conditions; in every terminal state the scalar the operation used — read from its public output with the reference (d; k = s(1+d)+rd; C1 = [k]G; R = [r]G; ks/ke; SM9 (h,S), C1, R_A, R_B recomputed) and from the seam log — must be one of the offered candidates and lie in [1, order-1]. Freshness: every sequence of length <= L over the 13 operations plus 'abort a started key-agreement run', executed on one thread against persistent objects (one private key, the two Exchange parties) and fed from a strictly increasing candidate stream - and every sequence of length <= 4 over {exchange_1, exchange_2, abort} - consumes a new candidate per drawing invocation and never reuses a scalar. A separate statistical monitor (4096 draws per sampler) is NOT model checking.");
    ctx.note_bound(format!("D={} deviations, L={} operations", dmax, fresh_len));
    // ---- range model
    let mut range_cases: Vec<Case> = Vec::new();
    for op in OPS {
        let (inr, out) = alphabets(op, ctx.seed);
        let (ni, no) = (inr.len() as u16, out.len() as u16);
        let c2 = ctx.clone();
        let (inr2, out2) = (inr.clone(), out.clone());
        let ops = op.to_string();
        // history: out-of-range picks are coded 100+i, the final in-range pick i
        let (st, hists) = explore_collect(
            vec![vec![]],
            Box::new(move |h: &[u16]| {
                if h.last().map(|x| *x < 100).unwrap_or(false) {
                    return vec![];
                }
                let mut a: Vec<u16> = (0..ni).collect();
                if h.len() < dmax {
                    a.extend((0..no).map(|i| 100 + i));
                }
                a
            }),
        );
        let _ = (&c2, &inr2, &out2);
        for h in hists.iter().filter(|h| h.last().map(|x| *x < 100).unwrap_or(false)) {
            let mut offered = Vec::new();
            let mut names = Vec::new();
            for x in h {
                let (n, v) = if *x >= 100 { &out[(*x - 100) as usize] } else { &inr[*x as usize] };
                offered.push(a2::hexbig(v));
                names.push(n.clone());
            }
            range_cases.push(Case::Range { op: ops.clone(), offered, names });
        }
        // long runs of out-of-range candidates (a sampler that gives up after a fixed number of draws shows only then)
        for run in [7usize, 8, 9, 16, 17, 33, 64] {
            let mut offered = Vec::new();
            let mut names = Vec::new();
            for i in 0..run {
                let (n, v) = &out[(i * 3 + 1) % out.len()];
                offered.push(a2::hexbig(v));
                names.push(n.clone());
            }
            let (n, v) = &inr[(run + 2) % 3];
            offered.push(a2::hexbig(v));
            names.push(n.clone());
            range_cases.push(Case::Range { op: ops.clone(), offered, names });
        }
        ctx.depth(st.max_depth);
        ctx.cov(&format!("range_model/{}", op), json!({"unique_states": st.unique_states, "generated": st.generated, "max_depth": st.max_depth, "in_range": inr.len(), "out_of_range": out.len()}));
    }
    ctx.sample(serde_json::to_value(&range_cases[range_cases.len() / 3]).unwrap());
    run_cases(ctx, &range_cases, 2, eval);
    // ---- freshness model
    {
        // alphabet: the 13 drawing operations + "abort a started key-agreement run" (index 13, draws nothing).
        // All sequences up to fresh_len, plus all sequences of length 3 and 4 over the objects that carry state
        // between calls (the two Exchange parties): {exchange_1, exchange_2, abort_3}.
        let names: Vec<String> = OPS.iter().map(|s| s.to_string()).chain(["sm2.abort_3".to_string()]).collect();
        let nops = names.len() as u16;
        let stateful: Vec<u16> = vec![3, 4, 13];
        let (st, hists) = explore_collect(
            vec![vec![]],
            Box::new(move |h: &[u16]| {
                if h.len() < fresh_len {
                    (0..nops).collect()
                } else if h.len() < 4 && h.iter().all(|x| stateful.contains(x)) {
                    stateful.clone()
                } else {
                    vec![]
                }
            }),
        );
        let fresh: Vec<Case> = hists.iter().filter(|h| h.len() >= 2).map(|h| Case::Fresh { ops: h.iter().map(|i| names[*i as usize].clone()).collect() }).collect();
        ctx.cov("freshness_model", json!({"unique_states": st.unique_states, "generated": st.generated, "max_depth": st.max_depth, "sequences_judged": fresh.len()}));
        ctx.sample(serde_json::to_value(&fresh[fresh.len() / 2]).unwrap());
        run_cases(ctx, &fresh, 1, eval);
    }
    // ---- monitor
    let before = ctx.violations().len();
    eval(ctx, &Case::Monitor);
    ctx.cov("monitor", json!({"kind": "statistical monitor, not model checking", "draws_per_sampler": 4096, "checks": ["no duplicates", "in range", "leading-byte histogram of 65536 draws within 8 sigma", "bits 0..=250 within 8 sigma", "fresh threads give different streams", "8 concurrent threads draw pairwise different scalars", "the first scalars of 4096 fresh threads are pairwise different", "fresh processes give different streams", "a key object and its clone sign with different nonces"], "violations": ctx.violations().len() - before}));
    ctx.assume("'every bit position is unbiased' and 'seeded from the operating system' are statements about a distribution; bounded enumeration cannot decide them. They are only monitored (coverage.structural.monitor).");
    let _ = gdbg::<u8>;
}
