//! C15 — SM2 key agreement: both sides agree, conform to GB/T 32918.3, detect tampering
//! (E1: protocol model with a man in the middle stepping the real `Exchange` objects)
use crate::alpha::*;
use crate::c03::gdbg;
use crate::engine::*;
use crate::sm2api::*;
use gm_sm2::exchange::Exchange;
use gm_sm2::p256_ecc::Point;
use num_bigint::BigUint;
use num_traits::One;
use refmodels::sm2::{self, Pt};
use refmodels::util::{hexbig as hb, SplitMix};
use serde::{Deserialize, Serialize};
use serde_json::{json, Value};
use std::sync::Arc;

#[derive(Serialize, Deserialize, Clone, Debug)]
pub struct Config {
    pub da: String,
    pub db: String,
    pub ida: Option<String>,
    pub idb: Option<String>,
    pub klen: usize,
    pub ra: String,
    pub rb: String,
    /// scalar r' such that P_A + [x-bar(R')]R' = O for R' = [r']G (the key d_A was crafted for it); adversary point choice 6
    #[serde(default)]
    pub cancel_a: Option<String>,
    /// the same for P_B
    #[serde(default)]
    pub cancel_b: Option<String>,
}

#[derive(Serialize, Deserialize, Clone, Debug)]
pub struct Case {
    pub cfg: Config,
    /// adversary choices for the deliveries so far: [R_A->B, R_B->A, S_B->A, S_A->B, R_A->exchange_4]
    pub adv: Vec<u16>,
    pub tag: String,
}

pub const POINT_ADV: [&str; 11] = ["pass", "rerandomised-representation", "negated", "doubled", "G", "off-curve(y+1)", "point-cancelling-the-peer-key", "point-at-infinity", "affine-as-decoded-from-the-wire", "curve-coordinates-stored-with-Z=2", "off-curve-point-of-order-2-(2,0)"];

/// deliveries that are no curve point at all: the receiving step must refuse them
fn bad_point(code: u16) -> bool {
    matches!(code, 5 | 7 | 9 | 10)
}
pub const HASH_ADV: [&str; 9] = ["pass", "flip-first-bit", "flip-last-bit", "all-zero", "forged-for-zero-shared-point", "two-byte-tag-variant", "other-confirmation-value", "byte-xor-ff", "forged-by-the-responder-for-a-vanishing-R_B"];

fn adv_point(p: &Point, code: u16, seed: u64, cancel: Option<&String>) -> Point {
    let r = ref_point(p);
    let pr = sm2::params();
    match code {
        6 => lib_point_affine(&sm2::g_mul(&hb(cancel.expect("cancel scalar")))),
        7 => lib_point(&None, &BigUint::one()),
        // what a peer that received 04||x||y over the wire hands in: the same point with Z = 1
        8 => match gm_sm2::verif::point_from_byte(&sm2::encode_point(&r, false)) {
            Ok(q) => q,
            Err(_) => lib_point_affine(&r),
        },
        // the affine coordinates of the honest point left as they are, with Z set to 2: (X, Y) satisfies the affine equation,
        // the object stands for (x/4, y/8), which is not on the curve
        9 => {
            let mut q = lib_point_affine(&r);
            q.z = to_mont(&BigUint::from(2u32));
            q
        }
        // (2, 0): not on the curve; the doubling formula sends it to O, so [k](2, 0) vanishes for every even k
        10 => lib_point_raw(&BigUint::from(2u32), &BigUint::from(0u32)),
        0 => *p,
        1 => lib_point(&r, &SplitMix::new(seed, "c15lambda").nonzero_below(&pr.p)),
        2 => lib_point_affine(&pr.curve.neg(&r)),
        3 => lib_point_affine(&sm2::add(&r, &r)),
        4 => lib_point_affine(&pr.g),
        _ => {
            let (x, y) = r.unwrap();
            lib_point_raw(&x, &((y + 1u32) % &pr.p))
        }
    }
}
fn adv_hash(h: &[u8; 32], code: u16) -> [u8; 32] {
    let mut o = *h;
    match code {
        0 => {}
        1 => o[0] ^= 0x80,
        2 => o[31] ^= 0x01,
        3 => o = [0; 32],
        4 | 5 | 6 | 8 => {} // replaced by the caller (needs the transcript)
        7 => o[0] ^= 0xff,
        // 400 + j: several bytes changed so that the differences cancel under a sloppy comparison
        c if c >= 400 => {
            let edits: &[(usize, u8)] = match c - 400 {
                0 => &[(0, 0x80), (1, 0x80)],
                1 => &[(0, 0x80), (31, 0x80)],
                2 => &[(3, 0x01), (17, 0xff)],
                3 => &[(5, 0x40), (6, 0xc0)],
                4 => &[(0, 0x40), (8, 0x40), (16, 0x40), (24, 0x40)],
                _ => &[(10, 0x55), (20, 0x55)],
            };
            for (i, x) in edits {
                o[*i] ^= x;
            }
        }
        // 100 + i: flip bit i
        c => {
            let i = (c - 100) as usize;
            o[i / 8] ^= 0x80 >> (i % 8);
        }
    }
    o
}

fn hash_adv_name(c: u16) -> &'static str {
    if c >= 400 {
        "several-bytes-with-cancelling-differences"
    } else if c >= 100 {
        "single-bit-flip"
    } else {
        HASH_ADV[c as usize]
    }
}

fn id_bytes(id: &Option<String>) -> Vec<u8> {
    id.as_ref().map(|s| s.as_bytes().to_vec()).unwrap_or_else(|| sm2::DEFAULT_ID.to_vec())
}

pub fn eval(ctx: &Ctx, case: &Case) {
    ctx.state();
    let cj = || serde_json::to_value(case).unwrap();
    let cfg = &case.cfg;
    let (da, db, ra, rb) = (hb(&cfg.da), hb(&cfg.db), hb(&cfg.ra), hb(&cfg.rb));
    let (ska, skb) = (private_key(&da), private_key(&db));
    let (pka, pkb) = (ska.public_key, skb.public_key);
    let (pa_ref, pb_ref) = (sm2::g_mul(&da), sm2::g_mul(&db));
    let (za, zb) = (sm2::za(&id_bytes(&cfg.ida), &pa_ref), sm2::za(&id_bytes(&cfg.idb), &pb_ref));
    let adv = &case.adv;
    ctx.depth(adv.len() as u64);
    let tag = &case.tag;
    // --- construct both parties
    ctx.calls(2);
    let mk = guard(|| {
        let a = Exchange::new(cfg.klen, cfg.ida.as_deref(), &pka, &ska, cfg.idb.as_deref(), &pkb);
        let b = Exchange::new(cfg.klen, cfg.idb.as_deref(), &pkb, &skb, cfg.ida.as_deref(), &pka);
        (a, b)
    });
    let (mut alice, mut bob) = match mk {
        Guard::Done((Ok(a), Ok(b))) => (a, b),
        other => {
            ctx.violation("Exchange::new", &format!("not-ok/{}", tag), gdbg(&other.map(|(a, b)| (a.is_ok(), b.is_ok()))), cj());
            return;
        }
    };
    // --- A1-A3
    let mut g = SplitMix::new(ctx.seed, "c15filler");
    let n = &sm2::params().n;
    let fill = |g: &mut SplitMix| -> Vec<[u8; 32]> { (0..4).map(|_| cand(&g.nonzero_below(&(n - 2u32)))).collect() };
    let mut q = vec![cand(&ra)];
    q.extend(fill(&mut g));
    let (r1, log1) = with_rng(q, || alice.exchange_1());
    ctx.call();
    let ra_pt = match r1 {
        Guard::Done(Ok(p)) => p,
        other => {
            ctx.violation("Exchange::exchange_1", &format!("not-ok/{}", tag), gdbg(&other.map(|r| r.map(|_| ()))), cj());
            return;
        }
    };
    let ra_used = log1.accepted.last().map(refmodels::util::from_limbs).unwrap_or_else(|| ra.clone());
    if ref_point(&ra_pt) != sm2::g_mul(&ra_used) {
        ctx.violation("Exchange::exchange_1", &format!("R_A-is-not-[r_A]G/{}", tag), String::new(), cj());
        return;
    }
    if adv.is_empty() {
        ctx.outcome("prefix/exchange_1");
        return;
    }
    // --- deliver R_A to B
    let ra_del = adv_point(&ra_pt, adv[0], ctx.seed, cfg.cancel_a.as_ref());
    let bad0 = bad_point(adv[0]);
    let ra_del_ref: Pt = if bad0 { None } else { ref_point(&ra_del) };
    let ra_tampered = bad0 || ra_del_ref != ref_point(&ra_pt);
    let mut q = vec![cand(&rb)];
    q.extend(fill(&mut g));
    let (r2, log2) = with_rng(q, || bob.exchange_2(&ra_del));
    ctx.call();
    ctx.trace();
    if adv[0] == 6 {
        // P_A + [x-bar]R' = O: the shared point is the point at infinity, B must report failure (step B5)
        match r2 {
            Guard::Done(Err(_)) => ctx.outcome("refused/exchange_2/shared-point-infinity"),
            Guard::Done(Ok(_)) => ctx.violation("Exchange::exchange_2", &format!("shared-point-at-infinity-accepted/{}", tag), String::new(), cj()),
            Guard::Panic(p) => ctx.violation("Exchange::exchange_2", &format!("panic/{}/shared-point-infinity", panic_site(&p)), p, cj()),
        }
        return;
    }
    let (rb_pt, sb) = match r2 {
        Guard::Done(Ok(v)) => {
            if bad0 {
                ctx.violation("Exchange::exchange_2", &format!("R_A={}-accepted/{}", POINT_ADV[adv[0] as usize], tag), String::new(), cj());
                return;
            }
            v
        }
        Guard::Done(Err(_)) if bad0 => {
            ctx.outcome("refused/exchange_2/invalid-R_A");
            return;
        }
        other => {
            let c = match &other {
                Guard::Panic(p) => format!("panic/{}/R_A={}/{}", panic_site(p), POINT_ADV[adv[0] as usize], tag),
                _ => format!("valid-R_A-refused/R_A={}/{}", POINT_ADV[adv[0] as usize], tag),
            };
            ctx.violation("Exchange::exchange_2", &c, gdbg(&other.map(|r| r.map(|_| ()))), cj());
            return;
        }
    };
    let rb_used = log2.accepted.last().map(refmodels::util::from_limbs).unwrap_or_else(|| rb.clone());
    // reference view of B, computed for the R_A that B actually received
    let b_ref = sm2::kex_party(false, &db, &rb_used, &zb, &pa_ref, &ra_del_ref, &za, cfg.klen);
    let Some(b_ref) = b_ref else {
        ctx.outcome("skipped/shared-point-infinity");
        return;
    };
    if ref_point(&rb_pt) != sm2::g_mul(&rb_used) {
        ctx.violation("Exchange::exchange_2", &format!("R_B-is-not-[r_B]G/{}", tag), String::new(), cj());
        return;
    }
    if !ra_tampered {
        // honest so far: S_B and B's key must be the standard's values
        if sb != b_ref.s_b {
            ctx.violation("Exchange::exchange_2", &format!("S_B-not-GBT32918.3/{}", tag), format!("got={} want={}", hex::encode(sb), hex::encode(b_ref.s_b)), cj());
            return;
        }
        let kb = gm_sm2::verif::exchange_key(&bob);
        if kb.as_deref() != Some(&b_ref.k[..]) {
            ctx.violation("Exchange::exchange_2", &format!("K_B-not-GBT32918.3/{}", tag), format!("got={:?} want={}", kb.map(hex::encode), hex::encode(&b_ref.k)), cj());
            return;
        }
    }
    if adv.len() < 3 {
        ctx.outcome("prefix/exchange_2");
        return;
    }
    // --- deliver (R_B, S_B) to A
    let rb_del = adv_point(&rb_pt, adv[1], ctx.seed ^ 1, cfg.cancel_b.as_ref());
    let bad1 = bad_point(adv[1]);
    let rb_del_ref: Pt = if bad1 { None } else { ref_point(&rb_del) };
    let rb_tampered = bad1 || rb_del_ref != ref_point(&rb_pt);
    let mut sb_del = adv_hash(&sb, adv[2]);
    if adv[2] == 4 {
        // what anyone can compute if A takes the affine form of O to be (0, 0): Hash(02 || 0^32 || Hash(0^32 || Z_A || Z_B || R_A || R_B'))
        let (x1, y1) = sm2::xy_bytes(&ref_point(&ra_pt));
        let (x2, y2) = sm2::xy_bytes(&ref_point(&rb_del));
        let z32 = [0u8; 32];
        let inner = refmodels::sm3::sm3_cat(&[&z32, &za, &zb, &x1, &y1, &x2, &y2]);
        sb_del = refmodels::sm3::sm3_cat(&[&[0x02], &z32, &inner]);
    }
    if adv[2] == 5 || adv[2] == 6 {
        // values a lenient implementation might also accept: the pre-standard two-byte tag 00 02, and S_A in place of S_B
        let (xv, yv) = sm2::xy_bytes(&b_ref.v);
        let (x1, y1) = sm2::xy_bytes(&ra_del_ref);
        let (x2, y2) = sm2::xy_bytes(&ref_point(&rb_pt));
        let inner = refmodels::sm3::sm3_cat(&[&xv, &za, &zb, &x1, &y1, &x2, &y2]);
        sb_del = if adv[2] == 5 { refmodels::sm3::sm3_cat(&[&[0x00, 0x02], &yv, &inner]) } else { b_ref.s_a };
    }
    if adv[2] == 8 {
        // a responder that owns d_B and sent an R_B whose multiple [x-bar_2]R_B vanishes needs no ephemeral secret:
        // the initiator's U = [t_A](P_B + O) = [d_B](P_A + [x-bar_1]R_A); S_B for that U over the R_B actually delivered
        let ra_ref_pt = ref_point(&ra_pt);
        let x1bar = sm2::xbar(&ra_ref_pt.as_ref().unwrap().0);
        let u = sm2::mul(&db, &sm2::add(&pa_ref, &sm2::mul(&x1bar, &ra_ref_pt)));
        let (xu, yu) = sm2::xy_bytes(&u);
        let (x1, y1) = sm2::xy_bytes(&ra_ref_pt);
        let (x2, y2) = (cand(&from_mont(&rb_del.x)), cand(&from_mont(&rb_del.y)));
        let inner = refmodels::sm3::sm3_cat(&[&xu, &za, &zb, &x1, &y1, &x2, &y2]);
        sb_del = refmodels::sm3::sm3_cat(&[&[0x02], &yu, &inner]);
    }
    let sb_tampered = sb_del != sb;
    let r3 = guard(|| alice.exchange_3(&rb_del, sb_del));
    ctx.call();
    let must_fail = ra_tampered || rb_tampered || sb_tampered;
    let what = format!("R_A={}/R_B={}/S_B={}", POINT_ADV[adv[0] as usize], POINT_ADV[adv[1] as usize], hash_adv_name(adv[2]));
    let sa = match r3 {
        Guard::Panic(p) => {
            ctx.violation("Exchange::exchange_3", &format!("panic/{}/{}/{}", panic_site(&p), what, tag), p, cj());
            return;
        }
        Guard::Done(Err(_)) if must_fail => {
            ctx.outcome(&format!("refused/exchange_3/{}", what));
            return;
        }
        Guard::Done(Ok(_)) if must_fail => {
            ctx.violation("Exchange::exchange_3", &format!("tampering-accepted/{}/{}", what, tag), String::new(), cj());
            return;
        }
        Guard::Done(Err(e)) => {
            ctx.violation("Exchange::exchange_3", &format!("honest-run-refused/{}/{}", what, tag), format!("{:?}", e), cj());
            return;
        }
        Guard::Done(Ok(sa)) => sa,
    };
    // honest: A's values are the standard's
    let a_ref = sm2::kex_party(true, &da, &ra_used, &za, &pb_ref, &sm2::g_mul(&rb_used), &zb, cfg.klen).expect("A view");
    let ka = gm_sm2::verif::exchange_key(&alice);
    let kb = gm_sm2::verif::exchange_key(&bob);
    if sa != a_ref.s_a {
        ctx.violation("Exchange::exchange_3", &format!("S_A-not-GBT32918.3/{}", tag), format!("got={} want={}", hex::encode(sa), hex::encode(a_ref.s_a)), cj());
        return;
    }
    if ka.as_deref() != Some(&a_ref.k[..]) || ka.as_ref().map(|k| k.len()) != Some(cfg.klen) {
        ctx.violation("Exchange::exchange_3", &format!("K_A-not-GBT32918.3/{}", tag), format!("got={:?} want={}", ka.map(hex::encode), hex::encode(&a_ref.k)), cj());
        return;
    }
    if ka != kb {
        ctx.violation("Exchange", &format!("keys-differ-on-honest-run/{}", tag), String::new(), cj());
        return;
    }
    if adv.len() < 5 {
        ctx.outcome("prefix/exchange_3");
        return;
    }
    // --- deliver S_A (and R_A again) to B
    let mut sa_del = adv_hash(&sa, adv[3]);
    if adv[3] == 5 || adv[3] == 6 {
        let (xv, yv) = sm2::xy_bytes(&a_ref.v);
        let (x1, y1) = sm2::xy_bytes(&ref_point(&ra_pt));
        let (x2, y2) = sm2::xy_bytes(&ref_point(&rb_pt));
        let inner = refmodels::sm3::sm3_cat(&[&xv, &za, &zb, &x1, &y1, &x2, &y2]);
        sa_del = if adv[3] == 5 { refmodels::sm3::sm3_cat(&[&[0x00, 0x03], &yv, &inner]) } else { a_ref.s_b };
    }
    let ra2_del = adv_point(&ra_pt, adv[4], ctx.seed ^ 2, cfg.cancel_a.as_ref());
    let ra2_tampered = bad_point(adv[4]) || ref_point(&ra2_del) != ref_point(&ra_pt);
    let r4 = guard(|| bob.exchange_4(sa_del, &ra2_del));
    ctx.call();
    let must_fail = sa_del != sa || ra2_tampered;
    let what = format!("S_A={}/R_A'={}", hash_adv_name(adv[3]), POINT_ADV[adv[4] as usize]);
    match r4 {
        Guard::Panic(p) => ctx.violation("Exchange::exchange_4", &format!("panic/{}/{}/{}", panic_site(&p), what, tag), p, cj()),
        Guard::Done(Ok(true)) if must_fail => ctx.violation("Exchange::exchange_4", &format!("tampering-accepted/{}/{}", what, tag), String::new(), cj()),
        Guard::Done(Ok(true)) => ctx.outcome("confirmed/honest"),
        Guard::Done(_) if must_fail => ctx.outcome(&format!("refused/exchange_4/{}", what)),
        Guard::Done(other) => ctx.violation("Exchange::exchange_4", &format!("honest-run-refused/{}", tag), format!("{:?}", other), cj()),
    }
}

/// Several runs on ONE pair of `Exchange` objects. Run kinds: 0 honest (A initiates), 1 honest with the roles swapped
/// (B's object initiates), 2 abandoned after exchange_2, 3 S_B altered (exchange_3 must fail), 4 off-curve R_A
/// (exchange_2 must fail). Every honest run must produce the standard's values for its own ephemeral scalars,
/// whatever the objects went through before.
#[derive(Serialize, Deserialize, Clone, Debug)]
pub struct Session {
    pub cfg: Config,
    pub runs: Vec<u8>,
    /// the two objects come from `build_ex_pair(klen, id_A, id_B)` (key pairs drawn through the RNG seam: d_A, then d_B)
    #[serde(default)]
    pub build_pair: bool,
}
/// wrapper so that a session serialises as {"Session": {...}} in prefixes and replay records
#[derive(Serialize, Deserialize, Clone, Debug)]
pub enum SessCase {
    Session(Session),
}
pub const RUN_KINDS: [&str; 5] = ["honest", "honest-roles-swapped", "abandoned-after-exchange_2", "S_B-altered", "R_A-off-curve"];

pub fn eval_session(ctx: &Ctx, sess: &Session) {
    ctx.state();
    let cj = || json!({"Session": sess});
    let cfg = &sess.cfg;
    let (da, db) = (hb(&cfg.da), hb(&cfg.db));
    let (ska, skb) = (private_key(&da), private_key(&db));
    let (pka, pkb) = (ska.public_key, skb.public_key);
    let (pa_ref, pb_ref) = (sm2::g_mul(&da), sm2::g_mul(&db));
    let (za, zb) = (sm2::za(&id_bytes(&cfg.ida), &pa_ref), sm2::za(&id_bytes(&cfg.idb), &pb_ref));
    let n = &sm2::params().n;
    let (mut alice, mut bob) = if sess.build_pair {
        let (ia, ib) = (cfg.ida.clone().unwrap_or_default(), cfg.idb.clone().unwrap_or_default());
        let (r, _) = with_rng(vec![cand(&da), cand(&db)], || gm_sm2::exchange::build_ex_pair(cfg.klen, &ia, &ib));
        ctx.call();
        match r {
            Guard::Done(Ok(v)) => v,
            other => {
                ctx.violation("build_ex_pair", "not-ok", gdbg(&other.map(|r| r.map(|_| ()))), cj());
                return;
            }
        }
    } else {
        let mk = guard(|| (Exchange::new(cfg.klen, cfg.ida.as_deref(), &pka, &ska, cfg.idb.as_deref(), &pkb), Exchange::new(cfg.klen, cfg.idb.as_deref(), &pkb, &skb, cfg.ida.as_deref(), &pka)));
        match mk {
            Guard::Done((Ok(a), Ok(b))) => (a, b),
            _ => return,
        }
    };
    ctx.depth(sess.runs.len() as u64);
    let mut g = SplitMix::new(ctx.seed, "c15session");
    let history: Vec<&str> = sess.runs.iter().map(|k| RUN_KINDS[*k as usize]).collect();
    for (i, kind) in sess.runs.iter().enumerate() {
        let (r1, r2) = (g.nonzero_below(&(n - 2u32)), g.nonzero_below(&(n - 2u32)));
        let swapped = *kind == 1;
        // (initiator object, responder object) and the reference data of each
        let (ini, res) = if swapped { (&mut bob, &mut alice) } else { (&mut alice, &mut bob) };
        let (d_i, z_i, p_i, d_r, z_r, p_r) = if swapped { (&db, &zb, &pb_ref, &da, &za, &pa_ref) } else { (&da, &za, &pa_ref, &db, &zb, &pb_ref) };
        let cls = |what: &str| format!("session/{}/after-{}", what, if i == 0 { "nothing".to_string() } else { RUN_KINDS[sess.runs[i - 1] as usize].to_string() });
        let detail = format!("run {} of {:?}", i + 1, history);
        let (ra, _) = with_rng(vec![cand(&r1)], || ini.exchange_1());
        ctx.call();
        let ra_pt = match ra {
            Guard::Done(Ok(p)) if ref_point(&p) == sm2::g_mul(&r1) => p,
            other => {
                ctx.violation("Exchange::exchange_1", &cls("R_A-is-not-[r_A]G"), format!("{} -> {}", detail, gdbg(&other.map(|r| r.map(|p| ref_point(&p))))), cj());
                return;
            }
        };
        let ra_del = if *kind == 4 { adv_point(&ra_pt, 5, ctx.seed, None) } else { ra_pt };
        let (rb, _) = with_rng(vec![cand(&r2)], || res.exchange_2(&ra_del));
        ctx.call();
        ctx.trace();
        if *kind == 4 {
            match rb {
                Guard::Done(Err(_)) => continue,
                other => {
                    ctx.violation("Exchange::exchange_2", &cls("off-curve-R_A-accepted"), format!("{} -> {}", detail, gdbg(&other.map(|r| r.map(|_| ())))), cj());
                    return;
                }
            }
        }
        let want_r = sm2::kex_party(false, d_r, &r2, z_r, p_i, &sm2::g_mul(&r1), z_i, cfg.klen).expect("responder view");
        let want_i = sm2::kex_party(true, d_i, &r1, z_i, p_r, &sm2::g_mul(&r2), z_r, cfg.klen).expect("initiator view");
        let (rb_pt, sb) = match rb {
            Guard::Done(Ok((p, sb))) if ref_point(&p) == sm2::g_mul(&r2) && sb == want_r.s_b => (p, sb),
            other => {
                ctx.violation("Exchange::exchange_2", &cls("R_B/S_B-not-GBT32918.3"), format!("{} -> {}", detail, gdbg(&other.map(|r| r.map(|(p, sb)| (ref_point(&p), hex::encode(sb)))))), cj());
                return;
            }
        };
        if *kind == 2 {
            continue;
        }
        let mut sb_del = sb;
        if *kind == 3 {
            sb_del[7] ^= 0x10;
        }
        let r3 = guard(|| ini.exchange_3(&rb_pt, sb_del));
        ctx.call();
        if *kind == 3 {
            match r3 {
                Guard::Done(Err(_)) => continue,
                other => {
                    ctx.violation("Exchange::exchange_3", &cls("altered-S_B-accepted"), format!("{} -> {}", detail, gdbg(&other.map(|r| r.map(hex::encode)))), cj());
                    return;
                }
            }
        }
        let sa = match r3 {
            Guard::Done(Ok(sa)) if sa == want_i.s_a => sa,
            other => {
                ctx.violation("Exchange::exchange_3", &cls("honest-run-refused-or-S_A-not-GBT32918.3"), format!("{} -> {}", detail, gdbg(&other.map(|r| r.map(hex::encode)))), cj());
                return;
            }
        };
        let r4 = guard(|| res.exchange_4(sa, &ra_pt));
        ctx.call();
        if !matches!(r4, Guard::Done(Ok(true))) {
            ctx.violation("Exchange::exchange_4", &cls("honest-run-not-confirmed"), format!("{} -> {}", detail, gdbg(&r4)), cj());
            return;
        }
        let (ki, kr) = (gm_sm2::verif::exchange_key(ini), gm_sm2::verif::exchange_key(res));
        if ki.as_deref() != Some(&want_i.k[..]) || kr.as_deref() != Some(&want_r.k[..]) {
            ctx.violation("Exchange", &cls("key-not-GBT32918.3"), format!("{} K_initiator={:?} K_responder={:?} want={}", detail, ki.map(hex::encode), kr.map(hex::encode), hex::encode(&want_i.k)), cj());
            return;
        }
    }
    ctx.outcome(&format!("session-ok/{}-runs/last={}", sess.runs.len(), sess.runs.last().map(|k| RUN_KINDS[*k as usize]).unwrap_or("none")));
}

pub fn replay(ctx: &Arc<Ctx>, v: &Value) {
    if crate::cold::replay(ctx, v) {
        return;
    }
    if let Some(sv) = v.get("Session") {
        let sess: Session = serde_json::from_value(sv.clone()).expect("C15 session");
        eval_session(ctx, &sess);
        return;
    }
    let c: Case = serde_json::from_value(v.clone()).expect("C15 case");
    eval(ctx, &c);
}

/// which adversary choices are possible after `adv` (static protocol semantics; see module doc)
fn next_choices(adv: &[u16]) -> Vec<u16> {
    let honest_pt = |c: u16| c <= 1 || c == 8;
    match adv.len() {
        0 => vec![0, 1, 2, 3, 4, 5, 7, 8],
        1 => {
            if bad_point(adv[0]) {
                vec![]
            } else {
                vec![0, 1, 2, 3, 4, 5, 7, 8]
            }
        }
        2 => vec![0, 1, 2, 3, 5, 6, 7],
        3 => {
            if honest_pt(adv[0]) && honest_pt(adv[1]) && adv[2] == 0 {
                vec![0, 1, 2, 3, 5, 6, 7]
            } else {
                vec![]
            }
        }
        4 => vec![0, 1, 2, 3, 4, 5, 7, 8],
        _ => vec![],
    }
}

pub fn run(ctx: &Arc<Ctx>) {
    refmodels::selftest::run(&["sm3", "sm2"]).unwrap_or_else(|e| ctx.machinery_error(format!("reference self-test failed: {}", e)));
    let n = sm2::params().n.clone();
    ctx.set_rule("stateright BFS over all man-in-the-middle choice sequences on the real Exchange objects: R_A->B, R_B->A in {pass, re-randomised Jacobian representation, affine as decoded from the wire, -R, 2R, G, off-curve, point at infinity}, S_B->A, S_A->B in {pass, first bit flipped, last bit flipped, all-zero, first byte xor ff, the value computed with the pre-standard two-byte tag, the other party's confirmation value}, R_A handed to exchange_4 in the 6 point choices; every subset of the messages altered x every kind, per configuration (key pairs {Annex, (1,n-2), (n-2,2), seeded} x IDs x klen). Honest paths additionally for every klen 1..=200 (thorough 600), ephemeral scalars searched so that a 1-byte key is 00 / a 2-byte key ends in 00, klen in {8160, 8191, 8192, 8193, 8225, 65537} and the nonce product r_A x r_B; every single-bit flip of S_B and of S_A, and 6 multi-byte changes whose differences cancel (xor-fold / sum-fold), on otherwise honest runs; keys crafted so that the peer's P + [x-bar]R' is the point at infinity for an adversary-chosen R' (the shared point is O: both roles must report failure, also against an S_B forged for a zero point). Invariant: honest deliveries (incl. re-randomised) give both sides the reference K (w=127), S_B, S_A (one-byte tags) and exchange_4 = true; any altered message makes the receiving step fail; off-curve points are refused by the step that receives them; a panic is a violation. ephemeral scalars fixed through the RNG seam. Honest runs with a static key equal to x-bar(R)*r (the peer's P + [x-bar]R is a doubling). Sessions: every sequence of <= 3 (thorough 4) runs over {honest, honest with roles swapped, abandoned after exchange_2, S_B altered, off-curve R_A} on one pair of Exchange objects - every honest run must yield the standard's values for its own ephemeral scalars.");
    let mut g = SplitMix::new(ctx.seed, "c15");
    let annex = ("81EB26E941BB5AF16DF116495F90695272AE2CD63D6C4AE1678418BE48230029", "785129917D45A9EA5437A59356B82338EAADDA6CEB199088F14AE10DEFA229B5", "D4DE15474DB74D06491C440D305E012400990F3E390C7E87153C12DB2EA60BB3", "7E07124814B309489125EAED101113164EBF0F3458C5BD88335C1F9D596243D6");
    let seeded: Vec<BigUint> = (0..4).map(|_| g.nonzero_below(&(&n - 2u32))).collect();
    let keypairs: Vec<(String, String, String, String, Option<String>, Option<String>)> = vec![
        (annex.0.into(), annex.1.into(), annex.2.into(), annex.3.into(), None, None),
        (hexbig(&BigUint::one()), hexbig(&(&n - 2u32)), hexbig(&seeded[0]), hexbig(&seeded[1]), Some("alice123@qq.com".into()), Some("bob456@qq.com".into())),
        (hexbig(&(&n - 2u32)), hexbig(&BigUint::from(2u32)), hexbig(&seeded[1]), hexbig(&seeded[2]), Some("".into()), Some("".into())),
        (hexbig(&seeded[2]), hexbig(&seeded[3]), hexbig(&seeded[3]), hexbig(&seeded[0]), None, Some("bob456@qq.com".into())),
        (hexbig(&seeded[3]), hexbig(&seeded[1]), hexbig(&seeded[0]), hexbig(&seeded[2]), Some("用户甲".into()), Some("Zoë@例.cn".into())),
    ];
    let klens: Vec<usize> = ctx.tier.pick(vec![16], vec![1, 16, 33]);
    let mut cfgs: Vec<Config> = Vec::new();
    for (da, db, ra, rb, ida, idb) in &keypairs {
        for k in &klens {
            cfgs.push(Config { da: da.clone(), db: db.clone(), ida: ida.clone(), idb: idb.clone(), klen: *k, ra: ra.clone(), rb: rb.clone(), cancel_a: None, cancel_b: None });
        }
    }
    ctx.note_bound(format!("{} tamper configurations", cfgs.len()));
    // ---- E1: adversary model
    {
        let (st, hists) = explore_collect((0..cfgs.len() as u16).map(|i| vec![i]).collect(), Box::new(move |h: &[u16]| next_choices(&h[1..])));
        // judged when a delivery completes a protocol step
        let mitm: Vec<Case> = hists
            .iter()
            .filter(|h| matches!(h.len() - 1, 0 | 1 | 3 | 5))
            .map(|h| Case { cfg: cfgs[h[0] as usize].clone(), adv: h[1..].to_vec(), tag: if h[0] as usize / klens.len() == 0 { "annex".into() } else { format!("cfg{}", h[0] as usize / klens.len()) } })
            .collect();
        ctx.depth(st.max_depth);
        ctx.cov("adversary_model", json!({"configurations": cfgs.len(), "unique_states": st.unique_states, "generated": st.generated, "max_depth": st.max_depth, "histories_judged": mitm.len(), "point_choices": POINT_ADV, "hash_choices": HASH_ADV}));
        ctx.sample(serde_json::to_value(&mitm[mitm.len() - 1]).unwrap());
        run_cases(ctx, &mitm, 2, eval);
    }
    // ---- honest paths: every klen, nonce product
    let mut cases: Vec<Case> = Vec::new();
    for klen in 1..=ctx.tier.pick(200usize, 600) {
        let (da, db, ra, rb, ida, idb) = &keypairs[klen % keypairs.len()];
        cases.push(Case { cfg: Config { da: da.clone(), db: db.clone(), ida: ida.clone(), idb: idb.clone(), klen, ra: ra.clone(), rb: rb.clone(), cancel_a: None, cancel_b: None }, adv: vec![(klen % 2) as u16, ((klen / 2) % 2) as u16, 0, 0, ((klen / 4) % 2) as u16], tag: format!("honest/klen%32={}", if klen % 32 == 0 { "0" } else { "!0" }) });
    }
    // short keys that come out all zero: klen = 1 with r_B searched (by the reference, r_B = 1, 2, ...) so that K = 00, and
    // klen = 2 with K[1] = 00. GB/T 32918.3 has no "key must not be zero" rule (that is SM2 encryption's): the run must succeed
    {
        use rayon::prelude::*;
        let (da, db, ra, _, ida, idb) = &keypairs[0];
        let (dab, dbb, rab) = (hb(da), hb(db), hb(ra));
        let (pa, pb) = (sm2::g_mul(&dab), sm2::g_mul(&dbb));
        let idab = ida.as_ref().map(|s| s.as_bytes().to_vec()).unwrap_or_else(|| sm2::DEFAULT_ID.to_vec());
        let idbb = idb.as_ref().map(|s| s.as_bytes().to_vec()).unwrap_or_else(|| sm2::DEFAULT_ID.to_vec());
        let (za, zb) = (sm2::za(&idab, &pa), sm2::za(&idbb, &pb));
        let ra_pt = sm2::g_mul(&rab);
        let hits: Vec<(u32, Vec<u8>)> = (1u32..=1536).into_par_iter().filter_map(|j| sm2::kex_party(false, &dbb, &BigUint::from(j), &zb, &pa, &ra_pt, &za, 2).map(|r| (j, r.k))).filter(|(_, k)| k[0] == 0 || k[1] == 0).collect();
        let mut n1 = 0;
        let mut n2 = 0;
        for (j, k) in &hits {
            let (klen, cnt) = if k[0] == 0 { (1usize, &mut n1) } else { (2usize, &mut n2) };
            if *cnt < 2 {
                *cnt += 1;
                cases.push(Case { cfg: Config { da: da.clone(), db: db.clone(), ida: ida.clone(), idb: idb.clone(), klen, ra: ra.clone(), rb: hexbig(&BigUint::from(*j)), cancel_a: None, cancel_b: None }, adv: vec![0, 0, 0, 0, 0], tag: "honest/key-with-a-zero-tail-block".into() });
            }
        }
        ctx.cov("searched_ephemerals_giving_zero_key_bytes", json!({"klen1_all_zero": n1, "klen2_last_byte_zero": n2}));
        if n1 == 0 {
            ctx.machinery_error("no ephemeral scalar giving an all-zero 1-byte key found");
        }
    }
    // key lengths around the first carry of the KDF block counter into its second byte (256 blocks of 32 bytes)
    for klen in [8160usize, 8191, 8192, 8193, 8225, 65537] {
        let (da, db, ra, rb, ida, idb) = &keypairs[1];
        cases.push(Case { cfg: Config { da: da.clone(), db: db.clone(), ida: ida.clone(), idb: idb.clone(), klen, ra: ra.clone(), rb: rb.clone(), cancel_a: None, cancel_b: None }, adv: vec![0, 8, 0, 0, 8], tag: "honest/klen>=8160".into() });
    }
    let ks = scalar_alphabet(&n, ctx.seed, "c15k", 1);
    for (an, a) in &ks {
        for (bn, b) in &ks {
            let (da, db, _, _, ida, idb) = &keypairs[0];
            cases.push(Case { cfg: Config { da: da.clone(), db: db.clone(), ida: ida.clone(), idb: idb.clone(), klen: 16, ra: hexbig(a), rb: hexbig(b), cancel_a: None, cancel_b: None }, adv: vec![0, 0, 0, 0, 0], tag: { let _ = (an, bn); "honest/nonce-product".to_string() } });
        }
    }
    // both parties under one identity, and both parties holding the same key pair (roles, not names or keys, order Z_A and Z_B)
    {
        let (da, db, ra, rb, _, _) = &keypairs[3];
        for (ia, ib, dbb) in [(Some("same@example.com".to_string()), Some("same@example.com".to_string()), db.clone()), (None, None, db.clone()), (Some("same@example.com".to_string()), Some("same@example.com".to_string()), da.clone())] {
            cases.push(Case { cfg: Config { da: da.clone(), db: dbb, ida: ia, idb: ib, klen: 16, ra: ra.clone(), rb: rb.clone(), cancel_a: None, cancel_b: None }, adv: vec![0, 0, 0, 0, 0], tag: "honest/same-identity".into() });
        }
    }
    // a responder's off-curve R_B of order 2 with the S_B that responder can compute without an ephemeral secret
    for ci in 0..2usize.min(cfgs.len()) {
        cases.push(Case { cfg: cfgs[ci * klens.len()].clone(), adv: vec![0, 10, 8], tag: "vanishing-R_B".into() });
        cases.push(Case { cfg: cfgs[ci * klens.len()].clone(), adv: vec![0, 10, 0], tag: "vanishing-R_B".into() });
        cases.push(Case { cfg: cfgs[ci * klens.len()].clone(), adv: vec![10], tag: "vanishing-R_A".into() });
    }
    // curve coordinates stored under Z = 2 (an "affine equation first" validity test lets them through), to either party
    for ci in 0..2usize.min(cfgs.len()) {
        for adv in [vec![9u16], vec![0, 9], vec![1, 9], vec![0, 0, 0, 0, 9]] {
            cases.push(Case { cfg: cfgs[ci * klens.len()].clone(), adv, tag: "coordinates-under-foreign-Z".into() });
        }
    }
    // every single-bit flip of S_B (A must refuse) and of S_A (B must not confirm) on otherwise honest runs
    for ci in 0..2usize.min(cfgs.len()) {
        for bit in 0..256u16 {
            if bit < 6 {
                cases.push(Case { cfg: cfgs[ci * klens.len()].clone(), adv: vec![0, 0, 400 + bit], tag: "cancelling-differences".into() });
                cases.push(Case { cfg: cfgs[ci * klens.len()].clone(), adv: vec![0, 1, 0, 400 + bit, 0], tag: "cancelling-differences".into() });
            }
            cases.push(Case { cfg: cfgs[ci * klens.len()].clone(), adv: vec![0, 0, 100 + bit], tag: "bitflip-sweep".into() });
            cases.push(Case { cfg: cfgs[ci * klens.len()].clone(), adv: vec![0, 1, 0, 100 + bit, 0], tag: "bitflip-sweep".into() });
        }
    }
    // degenerate shared point: a key crafted so that P + [x-bar(R')]R' = O for an adversary-chosen R' = [r']G
    {
        let rp = g.nonzero_below(&(&n - 2u32));
        let rpt = sm2::g_mul(&rp);
        let d_crafted = (&n - (sm2::xbar(&rpt.as_ref().unwrap().0) * &rp) % &n) % &n;
        if d_crafted >= BigUint::one() && d_crafted <= &n - 2u32 {
            let other = hexbig(&seeded[1]);
            // A's key crafted: B receives R' as R_A and must fail in exchange_2
            let ca = Config { da: hexbig(&d_crafted), db: other.clone(), ida: None, idb: None, klen: 16, ra: hexbig(&seeded[2]), rb: hexbig(&seeded[3]), cancel_a: Some(hexbig(&rp)), cancel_b: None };
            cases.push(Case { cfg: ca, adv: vec![6], tag: "degenerate".into() });
            // B's key crafted: A receives R' as R_B (with the honest S_B, and with an S_B forged for the zero point) and must fail in exchange_3
            let cb = Config { da: other, db: hexbig(&d_crafted), ida: None, idb: None, klen: 16, ra: hexbig(&seeded[2]), rb: hexbig(&seeded[3]), cancel_a: None, cancel_b: Some(hexbig(&rp)) };
            for h in [0u16, 4] {
                cases.push(Case { cfg: cb.clone(), adv: vec![0, 6, h], tag: "degenerate".into() });
            }
        }
    }
    // static key equal to x-bar(R) * r: the peer's P + [x-bar]R is then the sum of two EQUAL points (in different
    // representations) - a doubling inside the protocol; the run is honest and must succeed with the standard's values
    {
        for (who, r) in [("A", &seeded[0]), ("B", &seeded[2])] {
            let rpt = sm2::g_mul(r);
            let dd = (sm2::xbar(&rpt.as_ref().unwrap().0) * r) % &n;
            if dd >= BigUint::one() && dd <= &n - 2u32 {
                let other = hexbig(&seeded[1]);
                let cfg = if who == "A" {
                    Config { da: hexbig(&dd), db: other, ida: None, idb: Some("bob456@qq.com".into()), klen: 16, ra: hexbig(r), rb: hexbig(&seeded[3]), cancel_a: None, cancel_b: None }
                } else {
                    Config { da: other, db: hexbig(&dd), ida: None, idb: Some("bob456@qq.com".into()), klen: 16, ra: hexbig(&seeded[3]), rb: hexbig(r), cancel_a: None, cancel_b: None }
                };
                for adv in [vec![0u16, 0, 0, 0, 0], vec![1, 8, 0, 0, 1], vec![8, 1, 0, 0, 8]] {
                    cases.push(Case { cfg: cfg.clone(), adv, tag: "honest/static-key=xbar*r(doubling)".into() });
                }
            }
        }
    }
    ctx.sample(serde_json::to_value(&cases[15]).unwrap());
    run_cases(ctx, &cases, 4, eval);
    // ---- sessions: every sequence of <= L runs over the five run kinds on ONE pair of Exchange objects
    {
        let depth = ctx.tier.pick(3usize, 5);
        let (st, hists) = explore_collect(vec![vec![0u16], vec![1u16]], Box::new(move |h: &[u16]| if h.len() - 1 < depth { (0..RUN_KINDS.len() as u16).collect() } else { vec![] }));
        let sessions: Vec<SessCase> = hists.iter().filter(|h| h.len() > 1).map(|h| SessCase::Session(Session { cfg: cfgs[(h[0] as usize * klens.len()) % cfgs.len()].clone(), runs: h[1..].iter().map(|x| *x as u8).collect(), build_pair: false })).collect();
        // the convenience constructor: both objects from build_ex_pair with explicit, different IDs
        let mut sessions = sessions;
        for (ida, idb) in [("alice123@qq.com", "bob456@qq.com"), ("A", "")] {
            let mut c = cfgs[klens.len() % cfgs.len()].clone();
            c.ida = Some(ida.into());
            c.idb = Some(idb.into());
            for runs in [vec![0u8], vec![1u8], vec![0u8, 1]] {
                sessions.push(SessCase::Session(Session { cfg: c.clone(), runs, build_pair: true }));
            }
        }
        ctx.cov("session_model", json!({"run_kinds": RUN_KINDS, "max_runs_per_session": depth, "unique_states": st.unique_states, "sessions_judged": sessions.len()}));
        ctx.sample(serde_json::to_value(&sessions[sessions.len() - 1]).unwrap());
        run_cases(ctx, &sessions, 4, |c, s| {
            let SessCase::Session(s) = s;
            eval_session(c, s)
        });
    }
    // the GM/T 0003.5 key-exchange example is configuration 0 (tag "annex"); the reference it is compared with
    // reproduces the Annex values K, S_B, S_A in its start-up self-test
    crate::cold::check(ctx, "C15");
}
