//! C16 — SM9 hash-to-range and key extraction match GM/T 0044
use crate::alpha::content;
use crate::engine::*;
use crate::sm9api::*;
use gm_sm9::key::{Sm9EncMasterKey, Sm9SignMasterKey};
use num_bigint::BigUint;
use num_traits::{One, Zero};
use refmodels::sm9;
use refmodels::util::{from_limbs, hexbig as hb, to_limbs, SplitMix};
use serde::{Deserialize, Serialize};
use serde_json::{json, Value};
use std::sync::Arc;

#[derive(Serialize, Deserialize, Clone, Debug)]
pub enum Case {
    /// 40-byte Ha given as hex
    FromHash { ha: String, tag: String },
    H1 { id_len: usize, id_class: String, hid: u8 },
    H2 { msg_len: usize, w_len: usize },
    /// kind: "sign" | "enc" | "exch"
    Extract { k: String, id: String, kind: String, tag: String },
    /// master key crafted as N - H1(ID||hid) + delta (delta = 0 must give None, +-1 Some)
    ExtractCrafted { id: String, kind: String, delta: i32 },
}

fn ident(spec: &str, seed: u64) -> Vec<u8> {
    if let Some(n) = spec.strip_prefix("len:") {
        content("seed", n.parse().unwrap(), seed)
    } else {
        spec.as_bytes().to_vec()
    }
}
fn hid_of(kind: &str) -> u8 {
    match kind {
        "sign" => sm9::HID_SIGN,
        "enc" => sm9::HID_ENC,
        _ => sm9::HID_EXCH,
    }
}

/// run the library's extraction; returns Some(affine reference-form key) / None, as strings for comparison
fn lib_extract(k: &BigUint, id: &[u8], kind: &str) -> Option<String> {
    let kl = to_limbs(k);
    match kind {
        "sign" => {
            let ppubs = lib_g2_affine(&sm9::g2_mul(&BigUint::one(), &sm9::params().p2)); // Ppub is only copied into the key
            Sm9SignMasterKey { ks: kl, ppubs }.extract_key(id).map(|key| g1_str(&ref_g1(&key.ds)))
        }
        "enc" => {
            let ppube = lib_g1_affine(&sm9::params().p1);
            Sm9EncMasterKey { ke: kl, ppube }.extract_key(id).map(|key| g2_str(&ref_g2(&key.de)))
        }
        _ => {
            let ppube = lib_g1_affine(&sm9::params().p1);
            Sm9EncMasterKey { ke: kl, ppube }.extract_exch_key(id).map(|key| g2_str(&ref_g2(&key.de)))
        }
    }
}
fn ref_extract(k: &BigUint, id: &[u8], kind: &str) -> Option<String> {
    match kind {
        "sign" => sm9::extract_sign_key(k, id).map(|p| g1_str(&p)),
        _ => sm9::extract_enc_key(k, id, hid_of(kind)).map(|p| g2_str(&p)),
    }
}

pub fn eval(ctx: &Ctx, case: &Case) {
    ctx.state();
    ctx.trace();
    let cj = || serde_json::to_value(case).unwrap();
    let n = &sm9::params().n;
    match case {
        Case::FromHash { ha, tag } => {
            let hab = hex::decode(ha).unwrap();
            let want = sm9::ha_to_range(&hab);
            ctx.call();
            match guard(|| from_limbs(&gm_sm9::fields::mod_n_from_hash(&hab))) {
                Guard::Done(g) if g == want => ctx.outcome(&format!("ok/from_hash/{}", tag)),
                Guard::Done(g) => ctx.violation("gm_sm9::fields::mod_n_from_hash", &format!("wrong-value/{}", tag), format!("Ha={} got={} want={}", ha, hexbig(&g), hexbig(&want)), cj()),
                Guard::Panic(p) => ctx.violation("gm_sm9::fields::mod_n_from_hash", &format!("panic/{}/{}", panic_site(&p), tag), format!("Ha={} {}", ha, p), cj()),
            }
        }
        Case::H1 { id_len, id_class, hid } => {
            let id = content(id_class, *id_len, ctx.seed);
            let want = sm9::h1(&id, *hid);
            ctx.call();
            match guard(|| from_limbs(&gm_sm9::key::verif_key::hash1(&id, *hid))) {
                Guard::Done(g) if g == want && !g.is_zero() && g < *n => ctx.outcome("ok/H1"),
                Guard::Done(g) => ctx.violation("sm9 H1", "wrong-value", format!("idlen={} hid={} got={} want={}", id_len, hid, hexbig(&g), hexbig(&want)), cj()),
                Guard::Panic(p) => ctx.violation("sm9 H1", &format!("panic/{}", panic_site(&p)), p, cj()),
            }
        }
        Case::H2 { msg_len, w_len } => {
            let m = content("seed", *msg_len, ctx.seed);
            let w = content("mod251", *w_len, ctx.seed);
            let want = sm9::h2(&m, &w);
            ctx.call();
            match guard(|| from_limbs(&gm_sm9::key::verif_key::hash2(&m, &w))) {
                Guard::Done(g) if g == want => ctx.outcome("ok/H2"),
                Guard::Done(g) => ctx.violation("sm9 H2", "wrong-value", format!("mlen={} wlen={} got={} want={}", msg_len, w_len, hexbig(&g), hexbig(&want)), cj()),
                Guard::Panic(p) => ctx.violation("sm9 H2", &format!("panic/{}", panic_site(&p)), p, cj()),
            }
        }
        Case::Extract { k, id, kind, tag } => {
            let k = hb(k);
            let idb = ident(id, ctx.seed);
            let want = ref_extract(&k, &idb, kind);
            ctx.call();
            let site = format!("sm9 extract[{}]", kind);
            match guard(|| lib_extract(&k, &idb, kind)) {
                Guard::Done(g) if g == want => ctx.outcome(&format!("ok/extract/{}", kind)),
                Guard::Done(g) => ctx.violation(&site, &format!("wrong-key/{}", tag), format!("k={} id={} got={:?} want={:?}", hexbig(&k), id, g, want), cj()),
                Guard::Panic(p) => ctx.violation(&site, &format!("panic/{}/{}", panic_site(&p), tag), p, cj()),
            }
        }
        Case::ExtractCrafted { id, kind, delta } => {
            let idb = ident(id, ctx.seed);
            let h = sm9::h1(&idb, hid_of(kind));
            // k = N - H1 + delta  =>  H1 + k = delta (mod N)
            let k = ((n - &h) + n + BigUint::from((*delta + 2) as u32) - 2u32) % n;
            if k.is_zero() {
                return;
            }
            let want = ref_extract(&k, &idb, kind);
            if (*delta == 0) != want.is_none() {
                ctx.machinery_error("crafted master key does not hit H1 + k = 0 as designed");
                return;
            }
            ctx.call();
            let site = format!("sm9 extract[{}]", kind);
            match guard(|| lib_extract(&k, &idb, kind)) {
                Guard::Done(g) if g == want => ctx.outcome(&format!("ok/extract-crafted/delta={}", delta)),
                Guard::Done(g) => ctx.violation(&site, &format!("failure-reporting/H1+k={}", delta), format!("k={} got={:?} want={:?}", hexbig(&k), g.map(|_| "Some"), want.map(|_| "Some")), cj()),
                Guard::Panic(p) => ctx.violation(&site, &format!("panic/{}/H1+k={}", panic_site(&p), delta), p, cj()),
            }
        }
    }
}

pub fn replay(ctx: &Arc<Ctx>, v: &Value) {
    if crate::cold::replay(ctx, v) {
        return;
    }
    let c: Case = serde_json::from_value(v.clone()).expect("C16 case");
    eval(ctx, &c);
}

fn ha40(x: &BigUint) -> String {
    let b = x.to_bytes_be();
    assert!(b.len() <= 40);
    let mut o = vec![0u8; 40 - b.len()];
    o.extend_from_slice(&b);
    hex::encode(o)
}

pub fn run(ctx: &Arc<Ctx>) {
    refmodels::selftest::run(&["sm3", "sm9"]).unwrap_or_else(|e| ctx.machinery_error(format!("reference self-test failed: {}", e)));
    let n = sm9::params().n.clone();
    let nm1 = &n - 1u32;
    ctx.set_rule("Ha = q(N-1)+r as 40 bytes for q in {0,1,2,3, 2^k-1, 2^k, 2^k+1 (k=8..64 step 8), q_max-2..q_max, seeded} x r in {0,1,2,3,5,2^64,2^128,2^192,N-3,N-2,seeded} plus limb-pattern values (all-ones limbs) through the public mod_n_from_hash; H1 for every identity length 0..=300 (thorough 2100) x hid {1,2,3} x {zeros, seeded} and for 12 normalisation-sensitive identities (white space, line ends, NUL, case, trailing hid byte); H2 over message/w lengths {0,1,55,56,384,1024} and every message length 0..=300 (thorough 1200) with a 384-byte w; key extraction for master keys {1,2,N-2,N-1,Annex ks,Annex ke,seeded} x identities {Alice,Bob,'',300 bytes,seeded} x {sign,enc,exch}; master keys crafted so that H1+k = 0, +1, -1 mod N and so that the integer H1+k is 2^256+{-2..2} (carry out of 256 bits) or N+{-2..2}, so that (H1+k)^-1 is one of {2, 3, 2^64+1, 2^127+3, 2^191+5, 2^192+2^64}, and so that the scalar t2 = k (H1+k)^-1 of the final multiplication is every value within 130 (thorough 600) of 0 and of N. Oracle: (Ha mod (N-1))+1 and [k (H1+k)^-1]P by big integers.");
    let mut g = SplitMix::new(ctx.seed, "c16");
    let mut cases: Vec<Case> = Vec::new();
    let two320: BigUint = BigUint::one() << 320usize;
    let qmax = (&two320 - 1u32) / &nm1;
    let mut qs: Vec<(String, BigUint)> = vec![("q=0".into(), BigUint::zero()), ("q=1".into(), BigUint::one()), ("q=2".into(), BigUint::from(2u32)), ("q=3".into(), BigUint::from(3u32))];
    for k in (8..=64usize).step_by(8) {
        let b: BigUint = BigUint::one() << k;
        for (nm, v) in [("2^k-1", &b - 1u32), ("2^k", b.clone()), ("2^k+1", &b + 1u32)] {
            if v <= qmax {
                qs.push((format!("q={}", nm), v));
            }
        }
    }
    for d in 0..3u32 {
        qs.push(("q=qmax-d".into(), &qmax - d));
    }
    for _ in 0..8 {
        qs.push(("q=seeded".into(), g.below(&qmax)));
    }
    let mut rs: Vec<(String, BigUint)> = vec![("r=0".into(), BigUint::zero()), ("r=1".into(), BigUint::one()), ("r=2".into(), BigUint::from(2u32)), ("r=3".into(), BigUint::from(3u32)), ("r=5".into(), BigUint::from(5u32)), ("r=2^64".into(), BigUint::one() << 64usize), ("r=2^128".into(), BigUint::one() << 128usize), ("r=2^192".into(), BigUint::one() << 192usize), ("r=N-3".into(), &n - 3u32), ("r=N-2".into(), &n - 2u32)];
    for _ in 0..4 {
        rs.push(("r=seeded".into(), g.below(&nm1)));
    }
    for (qn, q) in &qs {
        for (rn, r) in &rs {
            let ha = q * &nm1 + r;
            if ha < two320 {
                let small = r < &BigUint::from(8u32);
                cases.push(Case::FromHash { ha: ha40(&ha), tag: format!("{}/{}", if qn.contains("seeded") { "q-generic" } else { "q-boundary" }, if small { "r-small" } else if rn.contains("N-") { "r-near-N" } else { "r-generic" }) });
            }
        }
    }
    // limb patterns of the 5 x 64-bit words (all-ones words exercise the carry chain of the quotient estimate)
    for mask in 0..32u32 {
        let mut b = vec![0u8; 40];
        for w in 0..5 {
            if mask & (1 << w) != 0 {
                for i in 0..8 {
                    b[8 * w + i] = 0xff;
                }
            }
        }
        cases.push(Case::FromHash { ha: hex::encode(&b), tag: "word-pattern-ff".into() });
        let mut b2 = b.clone();
        b2[39] ^= 1;
        b2[0] ^= 0x80;
        cases.push(Case::FromHash { ha: hex::encode(&b2), tag: "word-pattern-ff".into() });
    }
    for _ in 0..64 {
        cases.push(Case::FromHash { ha: hex::encode(g.bytes(40)), tag: "seeded".into() });
    }
    for id_len in [8191usize, 8192, 9000, 65535, 65536, 70000] {
        for hid in [1u8, 2, 3] {
            cases.push(Case::H1 { id_len, id_class: "seed".into(), hid });
        }
    }
    for kind in ["sign", "enc", "exch"] {
        for il in [8191usize, 8192, 65536] {
            cases.push(Case::Extract { k: "000130E78459D78545CB54C587E02CF480CE0B66340F319F348A1D5B1F2DC5F4".into(), id: format!("len:{}", il), kind: kind.into(), tag: "id-of-8191-bytes-and-more".into() });
        }
    }
    for id_len in 0..=ctx.tier.pick(300usize, 2100) {
        for hid in [1u8, 2, 3] {
            for cl in ["zero", "seed"] {
                cases.push(Case::H1 { id_len, id_class: cl.into(), hid });
            }
        }
    }
    for id in crate::alpha::NORM_IDS {
        for hid in [1u8, 2, 3] {
            cases.push(Case::H1 { id_len: id.len(), id_class: format!("hex:{}", hex::encode(id.as_bytes())), hid });
        }
    }
    for ml in 0..=ctx.tier.pick(300usize, 1200) {
        cases.push(Case::H2 { msg_len: ml, w_len: 384 });
    }
    for ml in [0usize, 1, 55, 56, 384, 1024] {
        for wl in [0usize, 1, 55, 56, 384, 1024] {
            cases.push(Case::H2 { msg_len: ml, w_len: wl });
        }
    }
    let masters: Vec<(String, BigUint)> = vec![
        ("1".into(), BigUint::one()),
        ("2".into(), BigUint::from(2u32)),
        ("N-2".into(), &n - 2u32),
        ("N-1".into(), &n - 1u32),
        ("annex-ks".into(), hb("000130E78459D78545CB54C587E02CF480CE0B66340F319F348A1D5B1F2DC5F4")),
        ("annex-ke".into(), hb("0001EDEE3778F441F8DEA3D9FA0ACC4E07EE36C93F9A08618AF4AD85CEDE1C22")),
        ("seeded".into(), g.nonzero_below(&n)),
        ("seeded".into(), g.nonzero_below(&n)),
    ];
    let ids = ["Alice", "Bob", "", "len:300", "len:17"];
    for id in crate::alpha::NORM_IDS {
        for kind in ["sign", "enc", "exch"] {
            cases.push(Case::Extract { k: "000130E78459D78545CB54C587E02CF480CE0B66340F319F348A1D5B1F2DC5F4".into(), id: id.into(), kind: kind.into(), tag: "id=normalisation-sensitive".into() });
        }
    }
    for (mn, k) in &masters {
        for id in ids {
            for kind in ["sign", "enc", "exch"] {
                cases.push(Case::Extract { k: hexbig(k), id: id.into(), kind: kind.into(), tag: format!("k={}", mn) });
            }
        }
    }
    // master keys crafted so that the scalar of the final multiplication, t2 = k (H1 + k)^-1, is every value within W of 0
    // and of N (a single (window, digit) coincidence of a signed-digit ladder sits at one such scalar): k = t2 H1 (1 - t2)^-1
    {
        let w = ctx.tier.pick(130u32, 600);
        let mut count = 0;
        for kind in ["sign", "enc", "exch"] {
            let h = sm9::h1(b"Alice", hid_of(kind));
            for j in 1..=w {
                for (tn, t2) in [("near-0", BigUint::from(j)), ("near-N", &n - j)] {
                    if t2.is_one() {
                        continue;
                    }
                    let one_minus = (&n + 1u32 - &t2) % &n;
                    let inv = one_minus.modpow(&(&n - 2u32), &n);
                    let k = (&t2 * &h % &n) * inv % &n;
                    if k.is_zero() {
                        continue;
                    }
                    // self-check of the construction
                    let t1 = (&h + &k) % &n;
                    if (&k * t1.modpow(&(&n - 2u32), &n)) % &n != t2 {
                        ctx.machinery_error("crafted master key does not give the intended t2");
                        continue;
                    }
                    cases.push(Case::Extract { k: hexbig(&k), id: "Alice".into(), kind: kind.into(), tag: format!("t2-{}", tn) });
                    count += 1;
                }
            }
        }
        ctx.cov("masters_with_chosen_t2", json!(count));
    }
    // master keys crafted so that the inverse the extraction computes, (H1 + k)^-1, is a short or sparse value w
    // (an inversion routine that mishandles results with leading zero limbs): k = w^-1 - H1
    {
        let one = BigUint::one();
        let ws = [BigUint::from(2u32), BigUint::from(3u32), (&one << 64usize) + 1u32, (&one << 127usize) + 3u32, (&one << 191usize) + 5u32, (&one << 192usize) + (&one << 64usize)];
        for kind in ["sign", "enc", "exch"] {
            let h = sm9::h1(b"Alice", hid_of(kind));
            for w in &ws {
                let k = (w.modpow(&(&n - 2u32), &n) + &n - &h) % &n;
                if !k.is_zero() {
                    cases.push(Case::Extract { k: hexbig(&k), id: "Alice".into(), kind: kind.into(), tag: "(H1+k)^-1-short".into() });
                }
            }
        }
    }
    // master keys crafted so that the integer sum H1(ID||hid) + k sits on and next to the carry boundary 2^256 and on
    // and next to N (the wrap of the modular addition), for every identity whose H1 allows a key in [1, N-1]
    {
        let two256: BigUint = BigUint::one() << 256usize;
        let mut n_carry = 0;
        for id in ids.iter().chain(["Carol", "Dave", "Erin", "len:5"].iter()) {
            for kind in ["sign", "enc", "exch"] {
                let h = sm9::h1(&ident(id, ctx.seed), hid_of(kind));
                for (bn, bound) in [("2^256", &two256), ("N", &n)] {
                    for delta in [-2i32, -1, 0, 1, 2] {
                        let target = if delta < 0 { bound - BigUint::from((-delta) as u32) } else { bound + BigUint::from(delta as u32) };
                        if target <= h {
                            continue;
                        }
                        let k = &target - &h;
                        if k >= BigUint::one() && k < n && !(bn == "N" && delta == 0) {
                            cases.push(Case::Extract { k: hexbig(&k), id: id.to_string(), kind: kind.into(), tag: format!("H1+k={}{:+}", bn, delta) });
                            if bn == "2^256" {
                                n_carry += 1;
                            }
                        }
                    }
                }
            }
        }
        ctx.cov("extract_keys_at_the_2^256_carry_boundary", json!(n_carry));
        if n_carry == 0 {
            ctx.machinery_error("no identity allows a master key with H1 + k = 2^256");
        }
    }
    for id in ids {
        for kind in ["sign", "enc", "exch"] {
            for delta in [-1i32, 0, 1] {
                cases.push(Case::ExtractCrafted { id: id.into(), kind: kind.into(), delta });
            }
        }
    }
    ctx.note_bound(format!("{} cases", cases.len()));
    ctx.sample(serde_json::to_value(&cases[5]).unwrap());
    ctx.sample(serde_json::to_value(cases.iter().find(|c| matches!(c, Case::ExtractCrafted { .. })).unwrap()).unwrap());
    ctx.cov("annex_keys", json!("ds_A and de_B are pinned in the reference self-test; the library is compared with the reference on the same inputs (k=annex-ks/Alice/sign, k=annex-ke/Bob/enc)"));
    run_cases(ctx, &cases, 16, eval);
    {
        let items: Vec<Case> = vec![
            Case::Extract { k: hexbig(&masters[3].1), id: "Alice".into(), kind: "sign".into(), tag: "sequence".into() },
            Case::Extract { k: hexbig(&masters[3].1), id: "Alice".into(), kind: "enc".into(), tag: "sequence".into() },
            Case::Extract { k: hexbig(&masters[3].1), id: "Alice".into(), kind: "exch".into(), tag: "sequence".into() },
            Case::Extract { k: hexbig(&masters[5].1), id: "Alice".into(), kind: "enc".into(), tag: "sequence".into() },
        ];
        let mut seqs = permutations(&items);
        seqs.extend(permutations(&[Case::H1 { id_len: 5, id_class: "seed".into(), hid: 1 }, Case::H1 { id_len: 5, id_class: "seed".into(), hid: 2 }, Case::H1 { id_len: 5, id_class: "seed".into(), hid: 3 }, Case::H1 { id_len: 5, id_class: "zero".into(), hid: 1 }]));
        ctx.cov("related_input_sequences", json!(seqs.len()));
        run_sequences(ctx, &seqs, eval);
    }
    crate::cold::check(ctx, "C16");
}
