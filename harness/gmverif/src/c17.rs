//! C17 — SM9 key exchange: both sides derive the same, standard-conforming key (E1 protocol model)
use crate::alpha::content;
use crate::c03::gdbg;
use crate::engine::*;
use crate::sm9api::*;
use gm_sm9::key::{exch_step_1a, exch_step_1b, exch_step_2a, Sm9EncKey, Sm9EncMasterKey};
use gm_sm9::points::Point;
use num_bigint::BigUint;
use num_traits::One;
use refmodels::sm9::{self, Exch, G1, G2};
use refmodels::util::{from_limbs, hexbig as hb, to_limbs, SplitMix};
use serde::{Deserialize, Serialize};
use serde_json::{json, Value};
use std::collections::HashMap;
use std::sync::{Arc, Mutex};

#[derive(Serialize, Deserialize, Clone, Debug)]
pub struct Config {
    pub ke: String,
    pub ida: String,
    pub idb: String,
    pub ra: String,
    pub rb: String,
}

#[derive(Serialize, Deserialize, Clone, Debug)]
pub struct Case {
    pub cfg: Config,
    pub klen: usize,
    /// adversary choices for R_A -> B and R_B -> A
    pub adv: [u16; 2],
    pub tag: String,
}

pub const POINT_ADV: [&str; 9] = ["pass", "rerandomised-representation", "negated", "doubled", "P1", "off-curve(y+1)", "point-at-infinity", "affine-as-decoded-from-the-wire", "curve-coordinates-stored-with-Z=2"];

fn ident(spec: &str, seed: u64) -> Vec<u8> {
    if let Some(n) = spec.strip_prefix("len:") {
        content("seed", n.parse().unwrap(), seed ^ 0x3f)
    } else {
        spec.as_bytes().to_vec()
    }
}

struct Fix {
    ppube: G1,
    de_a: G2,
    de_b: G2,
    x: Exch,
}
fn fix(cfg: &Config, seed: u64) -> Option<Arc<Fix>> {
    static M: Mutex<Option<HashMap<String, Option<Arc<Fix>>>>> = Mutex::new(None);
    let key = format!("{:?}/{}", cfg, seed);
    if let Some(v) = M.lock().unwrap().get_or_insert_with(HashMap::new).get(&key) {
        return v.clone();
    }
    let (ke, ra, rb) = (hb(&cfg.ke), hb(&cfg.ra), hb(&cfg.rb));
    let (ida, idb) = (ident(&cfg.ida, seed), ident(&cfg.idb, seed));
    let v = (|| {
        let x = sm9::exchange(&ke, &ida, &idb, &ra, &rb)?;
        Some(Arc::new(Fix { ppube: sm9::g1_mul(&ke, &sm9::params().p1), de_a: sm9::extract_enc_key(&ke, &ida, sm9::HID_EXCH)?, de_b: sm9::extract_enc_key(&ke, &idb, sm9::HID_EXCH)?, x }))
    })();
    M.lock().unwrap().as_mut().unwrap().insert(key, v.clone());
    v
}

fn adv_point(p: &Point, code: u16, seed: u64) -> Point {
    let r = ref_g1(p);
    let pr = sm9::params();
    match code {
        0 => *p,
        1 => lib_g1(&r, &SplitMix::new(seed, "c17lambda").nonzero_below(&pr.p)),
        2 => lib_g1_affine(&pr.e1.neg(&r)),
        3 => lib_g1_affine(&sm9::g1_add(&r, &r)),
        4 => lib_g1_affine(&pr.p1),
        6 => lib_g1(&None, &BigUint::one()),
        // the affine coordinates of the honest point with Z set to 2: (X, Y) satisfies the affine equation, the object stands
        // for (x/4, y/8), which is not on the curve
        8 => {
            let mut q = lib_g1_affine(&r);
            q.z = to_mont(&BigUint::from(2u32));
            q
        }
        // what a peer that received 04||x||y over the wire hands in: the same point decoded by the library (Z = 1)
        7 => {
            let mut b = vec![0x04u8];
            b.extend_from_slice(&sm9::g1_bytes(&r));
            gm_sm9::verif::point_from_bytes(&b)
        }
        _ => {
            let (x, y) = r.unwrap();
            lib_g1_raw(&x, &((y + 1u32) % &pr.p))
        }
    }
}

/// Q_X = [H1(ID_X || 02)]P1 + Ppub-e for both parties and B's private key, by the reference, cached per (ke, IDs)
fn sweep_fix(cfg: &Config, seed: u64) -> Option<Arc<(G1, G1, G1, G2)>> {
    static M: Mutex<Option<HashMap<String, Option<Arc<(G1, G1, G1, G2)>>>>> = Mutex::new(None);
    let key = format!("{}/{}/{}/{}", cfg.ke, cfg.ida, cfg.idb, seed);
    if let Some(v) = M.lock().unwrap().get_or_insert_with(HashMap::new).get(&key) {
        return v.clone();
    }
    let pr = sm9::params();
    let ke = hb(&cfg.ke);
    let (ida, idb) = (ident(&cfg.ida, seed), ident(&cfg.idb, seed));
    let ppube = sm9::g1_mul(&ke, &pr.p1);
    let q = |id: &[u8]| sm9::g1_add(&sm9::g1_mul(&sm9::h1(id, sm9::HID_EXCH), &pr.p1), &ppube);
    let v = sm9::extract_enc_key(&ke, &idb, sm9::HID_EXCH).map(|de_b| Arc::new((ppube.clone(), q(&ida), q(&idb), de_b)));
    M.lock().unwrap().as_mut().unwrap().insert(key, v.clone());
    v
}

/// the ephemeral points alone: R_A = [r_A]Q_B out of exch_step_1a and R_B = [r_B]Q_A out of exch_step_1b, for scripted r_A, r_B
fn eval_points_only(ctx: &Ctx, case: &Case) {
    let cj = || serde_json::to_value(case).unwrap();
    let cfg = &case.cfg;
    let Some(fx) = sweep_fix(cfg, ctx.seed) else { return };
    let (ppube, qa, qb, de_b) = (&fx.0, &fx.1, &fx.2, &fx.3);
    ctx.trace();
    let (ke, ra, rb) = (hb(&cfg.ke), hb(&cfg.ra), hb(&cfg.rb));
    let (ida, idb) = (ident(&cfg.ida, ctx.seed), ident(&cfg.idb, ctx.seed));
    let msk = Sm9EncMasterKey { ke: to_limbs(&ke), ppube: lib_g1_affine(ppube) };
    let key_b = Sm9EncKey { ppube: msk.ppube, de: lib_g2_affine(de_b) };
    let q = |first: &BigUint| vec![cand(first), cand(&BigUint::from(0x1234567u32)), cand(&BigUint::from(0x7654321u32))];
    let (r1, log1) = with_rng(q(&ra), || exch_step_1a(&msk, &idb));
    ctx.call();
    let (ra_pt, ra_scalar) = match r1 {
        Guard::Done(v) => v,
        Guard::Panic(p) => {
            ctx.violation("exch_step_1a", &format!("panic/{}", panic_site(&p)), p, cj());
            return;
        }
    };
    if log1.accepted.last().map(from_limbs) != Some(ra.clone()) || from_limbs(&ra_scalar) != ra {
        ctx.outcome("skipped/nonce-rejected");
        return;
    }
    let want_ra = sm9::g1_mul(&ra, qb);
    if ref_g1(&ra_pt) != want_ra {
        ctx.violation("exch_step_1a", &format!("R_A-not-GMT0044.3/{}", case.tag), format!("r_A={} got={} want={}", cfg.ra, g1_str(&ref_g1(&ra_pt)), g1_str(&want_ra)), cj());
        return;
    }
    let (r2, log2) = with_rng(q(&rb), || exch_step_1b(&msk, &ida, &idb, &key_b, &ra_pt, case.klen));
    ctx.call();
    match r2 {
        Guard::Done(Ok((rb_pt, _))) => {
            if log2.accepted.last().map(from_limbs) != Some(rb.clone()) {
                ctx.outcome("skipped/nonce-rejected");
                return;
            }
            let want_rb = sm9::g1_mul(&rb, qa);
            if ref_g1(&rb_pt) != want_rb {
                ctx.violation("exch_step_1b", &format!("R_B-not-GMT0044.3/{}", case.tag), format!("r_B={} got={} want={}", cfg.rb, g1_str(&ref_g1(&rb_pt)), g1_str(&want_rb)), cj());
                return;
            }
            ctx.outcome("ok/ephemeral-points");
        }
        other => ctx.violation("exch_step_1b", &format!("valid-R_A-refused/{}", case.tag), gdbg(&other.map(|r| r.map(|_| ()))), cj()),
    }
}

pub fn eval(ctx: &Ctx, case: &Case) {
    ctx.state();
    let cj = || serde_json::to_value(case).unwrap();
    let cfg = &case.cfg;
    if case.tag.starts_with("ephemeral-sweep") {
        eval_points_only(ctx, case);
        return;
    }
    let Some(fx) = fix(cfg, ctx.seed) else { return };
    ctx.trace();
    let (ke, ra, rb) = (hb(&cfg.ke), hb(&cfg.ra), hb(&cfg.rb));
    let (ida, idb) = (ident(&cfg.ida, ctx.seed), ident(&cfg.idb, ctx.seed));
    let n = &sm9::params().n;
    // tag "…public-only…": the parties hold the master PUBLIC key only (the secret field of the object is a dummy)
    let ke = if case.tag.contains("public-only") { BigUint::from(1u32) } else { ke };
    // tag ".../Zq=<name>/Zp=<name>": the key objects hold de_A, de_B (G2) and Ppub-e (G1) in those Jacobian representations
    let (msk, key_a, key_b) = match z_names(&case.tag) {
        Some((zq, zp)) => {
            let msk = Sm9EncMasterKey { ke: to_limbs(&ke), ppube: lib_g1(&fx.ppube, &z1_named(&zp, ctx.seed)) };
            let z = z2_named(&zq, ctx.seed);
            (msk, Sm9EncKey { ppube: msk.ppube, de: lib_g2(&fx.de_a, &z) }, Sm9EncKey { ppube: msk.ppube, de: lib_g2(&fx.de_b, &z) })
        }
        None => {
            let msk = Sm9EncMasterKey { ke: to_limbs(&ke), ppube: lib_g1_affine(&fx.ppube) };
            (msk, Sm9EncKey { ppube: msk.ppube, de: lib_g2_affine(&fx.de_a) }, Sm9EncKey { ppube: msk.ppube, de: lib_g2_affine(&fx.de_b) })
        }
    };
    // tag "...user-key-ppube-dummy...": the parties' private-key objects carry a placeholder in their own copy of Ppub-e (P1);
    // the exchange takes the master public key from the master-key object it is given
    let (key_a, key_b) = if case.tag.contains("user-key-ppube-dummy") {
        let dummy = lib_g1_affine(&sm9::params().p1);
        (Sm9EncKey { ppube: dummy, de: key_a.de }, Sm9EncKey { ppube: dummy, de: key_b.de })
    } else {
        (key_a, key_b)
    };
    let tag = &case.tag;
    let mut g = SplitMix::new(ctx.seed, "c17filler");
    let mut fill = |first: &BigUint| -> Vec<[u8; 32]> {
        let mut q = vec![cand(first)];
        for _ in 0..4 {
            q.push(cand(&g.nonzero_below(&(n - 2u32))));
        }
        q
    };
    // A1-A3
    let (r1, log1) = with_rng(fill(&ra), || exch_step_1a(&msk, &idb));
    ctx.call();
    let (ra_pt, ra_scalar) = match r1 {
        Guard::Done(v) => v,
        Guard::Panic(p) => {
            ctx.violation("exch_step_1a", &format!("panic/{}", panic_site(&p)), p, cj());
            return;
        }
    };
    let ra_used = log1.accepted.last().map(from_limbs).unwrap_or_else(|| ra.clone());
    if ra_used != ra || from_limbs(&ra_scalar) != ra {
        // the nonce was legitimately rejected; the honest reference for this configuration no longer applies
        ctx.outcome("skipped/nonce-rejected");
        return;
    }
    if ref_g1(&ra_pt) != fx.x.ra {
        ctx.violation("exch_step_1a", &format!("R_A-not-GMT0044.3/{}", tag), format!("got={} want={}", g1_str(&ref_g1(&ra_pt)), g1_str(&fx.x.ra)), cj());
        return;
    }
    // deliver R_A to B
    let ra_del = adv_point(&ra_pt, case.adv[0], ctx.seed);
    let bad0 = matches!(case.adv[0], 5 | 6 | 8);
    let ra_tampered = bad0 || ref_g1(&ra_del) != fx.x.ra;
    let (r2, log2) = with_rng(fill(&rb), || exch_step_1b(&msk, &ida, &idb, &key_b, &ra_del, case.klen));
    ctx.call();
    let what = format!("R_A={}/R_B={}", POINT_ADV[case.adv[0] as usize], POINT_ADV[case.adv[1] as usize]);
    let (rb_pt, skb) = match r2 {
        Guard::Done(Ok(v)) => {
            if bad0 {
                ctx.violation("exch_step_1b", &format!("R_A={}-accepted/{}", POINT_ADV[case.adv[0] as usize], tag), String::new(), cj());
                return;
            }
            v
        }
        Guard::Done(Err(_)) if bad0 => {
            ctx.outcome("refused/exch_step_1b/invalid-R_A");
            return;
        }
        other => {
            let c = match &other {
                Guard::Panic(p) => format!("panic/{}/{}/{}", panic_site(p), what, tag),
                _ => format!("valid-R_A-refused/{}/{}", what, tag),
            };
            ctx.violation("exch_step_1b", &c, gdbg(&other.map(|r| r.map(|_| ()))), cj());
            return;
        }
    };
    let rb_used = log2.accepted.last().map(from_limbs).unwrap_or_else(|| rb.clone());
    if rb_used != rb {
        ctx.outcome("skipped/nonce-rejected");
        return;
    }
    if ref_g1(&rb_pt) != fx.x.rb {
        ctx.violation("exch_step_1b", &format!("R_B-not-GMT0044.3/{}", tag), String::new(), cj());
        return;
    }
    if skb.len() != case.klen {
        ctx.violation("exch_step_1b", &format!("key-length/{}", tag), format!("{} != {}", skb.len(), case.klen), cj());
        return;
    }
    let want = sm9::exchange_key(&ida, &idb, &fx.x, case.klen);
    if !ra_tampered && skb != want {
        ctx.violation("exch_step_1b", &format!("SK_B-not-GMT0044.3/{}", tag), format!("got={} want={}", hex::encode(&skb), hex::encode(&want)), cj());
        return;
    }
    // deliver R_B to A
    let rb_del = adv_point(&rb_pt, case.adv[1], ctx.seed ^ 1);
    let bad1 = matches!(case.adv[1], 5 | 6 | 8);
    let rb_tampered = bad1 || ref_g1(&rb_del) != fx.x.rb;
    ctx.call();
    let r3 = guard(|| exch_step_2a(&msk, &ida, &idb, &key_a, ra_scalar, &ra_pt, &rb_del, case.klen));
    let ska = match r3 {
        Guard::Done(Ok(v)) => {
            if bad1 {
                ctx.violation("exch_step_2a", &format!("R_B={}-accepted/{}", POINT_ADV[case.adv[1] as usize], tag), String::new(), cj());
                return;
            }
            v
        }
        Guard::Done(Err(_)) if bad1 => {
            ctx.outcome("refused/exch_step_2a/invalid-R_B");
            return;
        }
        other => {
            let c = match &other {
                Guard::Panic(p) => format!("panic/{}/{}/{}", panic_site(p), what, tag),
                _ => format!("valid-R_B-refused/{}/{}", what, tag),
            };
            ctx.violation("exch_step_2a", &c, gdbg(&other.map(|r| r.map(|_| ()))), cj());
            return;
        }
    };
    if !ra_tampered && !rb_tampered {
        if ska != want || ska != skb {
            ctx.violation("exch_step_2a", &format!("SK_A-not-GMT0044.3/{}/{}", what, tag), format!("SK_A={} SK_B={} want={}", hex::encode(&ska), hex::encode(&skb), hex::encode(&want)), cj());
        } else {
            ctx.outcome(&format!("agree/{}", what));
        }
    } else if ska == skb {
        ctx.violation("exch_step_2a", &format!("keys-agree-despite-tampering/{}/{}", what, tag), hex::encode(&ska), cj());
    } else {
        ctx.outcome(&format!("keys-differ/{}", what));
    }
}

pub fn replay(ctx: &Arc<Ctx>, v: &Value) {
    if crate::cold::replay(ctx, v) {
        return;
    }
    let c: Case = serde_json::from_value(v.clone()).expect("C17 case");
    eval(ctx, &c);
}

pub fn run(ctx: &Arc<Ctx>) {
    refmodels::selftest::run(&["sm3", "sm9"]).unwrap_or_else(|e| ctx.machinery_error(format!("reference self-test failed: {}", e)));
    let n = sm9::params().n.clone();
    ctx.set_rule("stateright BFS over the man-in-the-middle choices for the two deliveries R_A->B and R_B->A, each in {pass, re-randomised Jacobian representation, affine as decoded from the 65-byte wire form, -R, 2R, P1, off-curve, point at infinity}, on the real exch_step_1a / 1b / 2a with ephemeral scalars fixed through the RNG seam, per configuration (master {Annex ke, seeded} x identity pairs {Alice/Bob, ''/x, seeded} and, on honest runs, identities a normalising implementation would alter: trailing / leading white space, line ends, NUL, case, trailing hid byte); ephemeral scalars r_A, r_B at every value within 130 (thorough 600) of 0 and of N (R_A, R_B against the reference multiplication; the whole exchange for r in N-{1,2,5,10,37,74}); honest paths for every klen 1..=128 (thorough 400) and klen in {8160, 8191, 8192, 8193, 8225, 2^16+1, 2^24+1}; key objects holding Ppub-e / de in Jacobian representations with structured Z; master-key objects that hold only the public key; both parties under one identity; an R whose curve coordinates are stored under Z = 2. Invariant: honest deliveries (incl. re-randomised) give SK_A = SK_B = KDF(ID_A||ID_B||R_A||R_B||g1||g2||g3) of the reference (incl. the GM/T 0044.5 example); an off-curve R is refused by the step that receives it; any other altered R makes the two keys differ; no panic.");
    let mut g = SplitMix::new(ctx.seed, "c17");
    let annex = Config { ke: "0002E65B0762D042F51F0D23542B13ED8CFA2E9A0E7206361E013A283905E31F".into(), ida: "Alice".into(), idb: "Bob".into(), ra: "00005879DD1D51E175946F23B1B41E93BA31C584AE59A426EC1046A4D03B06C8".into(), rb: "00018B98C44BEF9F8537FB7D071B2C928B3BC65BD3D69E1EEE213564905634FE".into() };
    let seeded_ke = hexbig(&g.nonzero_below(&n));
    let mk = |ke: &str, ida: &str, idb: &str, g: &mut SplitMix| Config { ke: ke.into(), ida: ida.into(), idb: idb.into(), ra: hexbig(&(g.nonzero_below(&(&n - 3u32)) | BigUint::one())), rb: hexbig(&(g.nonzero_below(&(&n - 3u32)) | BigUint::one())) };
    let mut cfgs = vec![annex.clone()];
    cfgs.push(mk(&annex.ke, "", "x", &mut g));
    cfgs.push(mk(&seeded_ke, "Alice", "Bob", &mut g));
    // ephemeral scalars with all-zero 64-bit limbs between non-zero ones; master key equal to H1(ID_B||02) (Q_B is a doubling)
    cfgs.push(Config { ke: annex.ke.clone(), ida: "Alice".into(), idb: "Bob".into(), ra: hexbig(&((BigUint::one() << 128usize) + 1u32)), rb: hexbig(&((BigUint::from(0x1234u32) << 192usize) + 15u32)) });
    cfgs.push(mk(&hexbig(&sm9::h1(b"Bob", sm9::HID_EXCH)), "Alice", "Bob", &mut g));
    // ephemeral scalars searched so that the x coordinate of R_A (resp. R_B) starts with the byte 04 or 00
    {
        let ke = hb(&annex.ke);
        let ppube = sm9::g1_mul(&ke, &sm9::params().p1);
        let (qb, qa) = (sm9::enc_q(&ppube, b"Bob", sm9::HID_EXCH), sm9::enc_q(&ppube, b"Alice", sm9::HID_EXCH));
        let mut found: Vec<(u8, bool, BigUint)> = Vec::new();
        let mut r = g.nonzero_below(&(&n - (BigUint::one() << 40usize))) | BigUint::one();
        let (mut pa, mut pb) = (sm9::g1_mul(&r, &qb), sm9::g1_mul(&r, &qa));
        let (qb2, qa2) = (sm9::g1_add(&qb, &qb), sm9::g1_add(&qa, &qa));
        for _ in 0..6000 {
            for (is_a, pt) in [(true, &pa), (false, &pb)] {
                let b0 = sm9::g1_bytes(pt)[0];
                if (b0 == 0x04 || b0 == 0x00) && !found.iter().any(|(v, a, _)| *v == b0 && *a == is_a) {
                    found.push((b0, is_a, r.clone()));
                }
            }
            if found.len() == 4 {
                break;
            }
            r += 2u32;
            pa = sm9::g1_add(&pa, &qb2);
            pb = sm9::g1_add(&pb, &qa2);
        }
        let other = hexbig(&(g.nonzero_below(&(&n - 3u32)) | BigUint::one()));
        for (_, is_a, r) in &found {
            cfgs.push(Config { ke: annex.ke.clone(), ida: "Alice".into(), idb: "Bob".into(), ra: if *is_a { hexbig(r) } else { other.clone() }, rb: if *is_a { other.clone() } else { hexbig(r) } });
        }
        ctx.cov("searched_R_with_leading_byte_04_or_00", json!(found.iter().map(|(b, a, _)| format!("{}:{:02x}", if *a { "R_A" } else { "R_B" }, b)).collect::<Vec<_>>()));
    }
    // identities a normalising implementation would change (honest runs only: they sit after the adversary-model prefix)
    let n_before_norm = cfgs.len();
    for pair in crate::alpha::NORM_IDS.chunks(2) {
        cfgs.push(mk(&annex.ke, pair[0], pair[1], &mut g));
    }
    if ctx.tier == Tier::Thorough {
        cfgs.push(mk(&annex.ke, "len:33", "len:7", &mut g));
        cfgs.push(mk(&seeded_ke, "", "x", &mut g));
        cfgs.push(mk(&seeded_ke, "len:33", "len:7", &mut g));
    }
    let n_adv = n_before_norm.min(ctx.tier.pick(5usize, 12));
    let (st, hists) = explore_collect((0..n_adv as u16).map(|i| vec![i]).collect(), Box::new(|h: &[u16]| if h.len() < 3 { (0..8).collect() } else { vec![] }));
    let mut cases: Vec<Case> = hists.iter().filter(|h| h.len() == 3).map(|h| Case { cfg: cfgs[h[0] as usize].clone(), klen: 16, adv: [h[1], h[2]], tag: if h[0] == 0 { "annex".into() } else { format!("cfg{}", h[0]) } }).collect();
    ctx.depth(st.max_depth);
    ctx.cov("adversary_model", json!({"configurations": cfgs.len(), "unique_states": st.unique_states, "generated": st.generated, "max_depth": st.max_depth, "histories_judged": cases.len(), "point_choices": POINT_ADV}));
    for (ci, c) in cfgs.iter().enumerate().skip(n_adv) {
        for klen in [16usize, 48] {
            cases.push(Case { cfg: c.clone(), klen, adv: [0, 0], tag: format!("honest/cfg{}", ci) });
        }
    }
    for c in cfgs.iter().take(2) {
        cases.push(Case { cfg: c.clone(), klen: 16, adv: [0, 7], tag: "honest/user-key-ppube-dummy".into() });
    }
    // curve coordinates stored under Z = 2, to either party; and both parties under the same identity
    for ci in 0..2usize.min(cfgs.len()) {
        for adv in [[8u16, 0], [0, 8], [1, 8]] {
            cases.push(Case { cfg: cfgs[ci].clone(), klen: 16, adv, tag: "coordinates-under-foreign-Z".into() });
        }
    }
    // ephemeral scalars within W of 0 and of N (one (window, digit) coincidence of a signed-digit ladder sits at a single such
    // scalar): R_A and R_B alone against the reference multiplication, and the full exchange for a handful of them
    {
        let w = ctx.tier.pick(130u32, 600);
        let base = &cfgs[0];
        for j in 1..=w {
            for (tn, r) in [("near-0", BigUint::from(j)), ("near-N", &n - j)] {
                let other = hexbig(&(&n - 1u32 - &r));
                cases.push(Case { cfg: Config { ra: hexbig(&r), rb: other.clone(), ..base.clone() }, klen: 16, adv: [0, 0], tag: format!("ephemeral-sweep/{}", tn) });
            }
        }
        for j in [1u32, 2, 5, 10, 37, 74] {
            cases.push(Case { cfg: Config { ra: hexbig(&(&n - j)), rb: hexbig(&BigUint::from(j)), ..base.clone() }, klen: 16, adv: [0, 7], tag: "honest/ephemeral-near-N".into() });
            cases.push(Case { cfg: Config { ra: hexbig(&BigUint::from(j + 1)), rb: hexbig(&(&n - j)), ..base.clone() }, klen: 16, adv: [7, 0], tag: "honest/ephemeral-near-N".into() });
        }
    }
    for klen in 1..=ctx.tier.pick(128usize, 400) {
        cases.push(Case { cfg: cfgs[klen % cfgs.len()].clone(), klen, adv: [[0u16, 1, 7][klen % 3], [0u16, 1, 7][(klen / 3) % 3]], tag: format!("honest/klen%32={}", if klen % 32 == 0 { "0" } else { "!0" }) });
    }
    for (i, zq) in Z2_NAMES.iter().enumerate() {
        cases.push(Case { cfg: cfgs[i % 2].clone(), klen: 16, adv: [0, 7], tag: format!("honest/key-objects/Zq={}/Zp={}", zq, Z1_NAMES[i % Z1_NAMES.len()]) });
    }
    for (i, c) in cfgs.iter().take(2).enumerate() {
        cases.push(Case { cfg: c.clone(), klen: 16 + i, adv: [0, 7], tag: "honest/public-only-master-key-object".into() });
    }
    // identity lengths (both parties) 0..=300 in steps of 7 (thorough: 3)
    let n_cfg_before_idlen = cfgs.len();
    for il in (0..=300usize).step_by(ctx.tier.pick(7usize, 3)) {
        cfgs.push(mk(&annex.ke, &format!("len:{}", il), &format!("len:{}", 300 - il), &mut g));
    }
    // identities on both sides of the 16-bit bit-length limit that SM2 has and SM9 has not, either party
    for (la, lb) in [(8191usize, 5usize), (8192, 5), (5, 8192), (9000, 8191), (65536, 70000)] {
        cfgs.push(mk(&annex.ke, &format!("len:{}", la), &format!("len:{}", lb), &mut g));
    }
    // both parties under the same identity (legal: the roles, not the names, tell g1 from g2), also the empty one
    for (a, b) in [("Alice", "Alice"), ("", ""), ("len:40", "len:40")] {
        cfgs.push(mk(&annex.ke, a, b, &mut g));
    }
    for c in cfgs.iter().skip(n_cfg_before_idlen) {
        cases.push(Case { cfg: c.clone(), klen: 16, adv: [0, 0], tag: "honest/idlen-sweep".into() });
    }
    // key lengths around the first carry of the KDF block counter into its second byte (256 blocks of 32 bytes)
    for klen in [8160usize, 8191, 8192, 8193, 8225] {
        cases.push(Case { cfg: cfgs[0].clone(), klen, adv: [0, 0], tag: "honest/klen>=8160".into() });
    }
    // a key of 2^24 + 1 bytes: the block count no longer fits a 24-bit mantissa (and 2^16 + 1: nor 16 bits)
    for klen in [65537usize, (1 << 24) + 1] {
        cases.push(Case { cfg: cfgs[0].clone(), klen, adv: [0, 0], tag: "honest/klen=2^k+1".into() });
    }
    ctx.note_bound(format!("{} configurations, {} runs", cfgs.len(), cases.len()));
    ctx.sample(serde_json::to_value(&cases[7]).unwrap());
    ctx.sample(serde_json::to_value(&cases[cases.len() - 1]).unwrap());
    run_cases(ctx, &cases, 2, eval);
    // the GM/T 0044.5 exchange example (SK = C5C13A8F59A97CDEAE64F16A2272A9E7) is configuration 0; the reference reproduces it in its self-test
    crate::cold::check(ctx, "C17");
}
