//! C18 — 128-EEA3 and 128-EIA3 match the 3GPP specification for every bit length
use crate::alpha::seeded;
use crate::engine::*;
use rayon::prelude::*;
use refmodels::zuc;
use serde::{Deserialize, Serialize};
use serde_json::Value;
use std::sync::Arc;

#[derive(Serialize, Deserialize, Clone, Debug)]
pub enum Case {
    Eea { key: String, count: u32, bearer: u32, direction: u32, length: u32, msg: String, #[serde(default)] extra: usize },
    Eia { key: String, count: u32, bearer: u32, direction: u32, length: u32, msg: String, flip: Option<u32>, #[serde(default)] extra: usize },
}

fn h16(s: &str) -> [u8; 16] {
    hex::decode(s).unwrap().try_into().unwrap()
}

fn message(ctx: &Ctx, class: &str, words: usize) -> Vec<u32> {
    match class {
        "zero" => vec![0; words],
        "ones" => vec![0xffff_ffff; words],
        // "pat:<base-4 digits>": word i is 0 / all ones / 0x00000001 / seeded according to digit i (then repeating)
        c if c.starts_with("pat:") => {
            let digits: Vec<u8> = c[4..].bytes().map(|b| b - b'0').collect();
            let sd: Vec<u32> = seeded(ctx.seed, "c18pat", words * 4).chunks(4).map(|c| u32::from_be_bytes(c.try_into().unwrap())).collect();
            (0..words).map(|i| match digits[i % digits.len()] { 0 => 0, 1 => 0xffff_ffff, 2 => 1, _ => sd[i] | 0x8000_0001 }).collect()
        }
        _ => seeded(ctx.seed, "c18msg", words * 4).chunks(4).map(|c| u32::from_be_bytes(c.try_into().unwrap())).collect(),
    }
}

fn lclass(length: u32) -> &'static str {
    if length == 0 {
        "LENGTH=0"
    } else if length % 32 == 0 {
        "LENGTH%32=0"
    } else {
        "LENGTH%32!=0"
    }
}

fn eval(ctx: &Ctx, case: &Case) {
    ctx.state();
    let cj = || serde_json::to_value(case).unwrap();
    match case {
        Case::Eea { key, count, bearer, direction, length, msg, extra } => {
            let k = h16(key);
            let words = ((*length + 31) / 32) as usize;
            // the caller's buffer may be longer than ceil(LENGTH/32) words
            let m = message(ctx, msg, words + extra);
            let want = zuc::eea3(&k, *count, *bearer, *direction, *length, &m);
            ctx.trace();
            let site = "EEA::encrypt";
            let r = guard(|| {
                let mut e = gm_zuc::eea::EEA::new(&k, *count, *bearer, *direction);
                let c = e.encrypt(&m, *length);
                let mut e2 = gm_zuc::eea::EEA::new(&k, *count, *bearer, *direction);
                let back = e2.encrypt(&c, *length);
                (c, back)
            });
            ctx.calls(4);
            match r {
                Guard::Panic(p) => ctx.violation(site, &format!("panic/{}/{}", panic_site(&p), lclass(*length)), format!("length={} {}", length, p), cj()),
                Guard::Done((c, back)) => {
                    if c != want {
                        let what = if c.len() != want.len() { "word-count" } else if c[..c.len() - 1] == want[..want.len() - 1] { "last-word(mask)" } else { "ciphertext" };
                        ctx.violation(site, &format!("{}-mismatch/{}", what, lclass(*length)), format!("length={} bearer={} dir={} got={:08x?} want={:08x?}", length, bearer, direction, &c[c.len().saturating_sub(2)..], &want[want.len().saturating_sub(2)..]), cj());
                        return;
                    }
                    // applying it twice restores the first LENGTH bits
                    let mut mm = m[..words].to_vec();
                    if *length % 32 != 0 {
                        let l = mm.len();
                        mm[l - 1] &= 0xffff_ffffu32 << (32 - (*length % 32));
                    }
                    if back != mm {
                        ctx.violation(site, &format!("involution/{}", lclass(*length)), format!("length={}", length), cj());
                    } else {
                        ctx.outcome(&format!("ok/eea/{}", lclass(*length)));
                    }
                }
            }
        }
        Case::Eia { key, count, bearer, direction, length, msg, flip, extra } => {
            let k = h16(key);
            let words = ((*length + 31) / 32) as usize + extra;
            let mut m = message(ctx, msg, words);
            if let Some(f) = flip {
                m[(*f / 32) as usize] ^= 1u32 << (31 - (*f % 32));
            }
            let want = zuc::eia3(&k, *count, *bearer, *direction, *length, &m);
            ctx.trace();
            let site = "EIA::gen_mac";
            let r = guard(|| gm_zuc::eia::EIA::new(&k, *count, *bearer, *direction).gen_mac(&m, *length));
            ctx.calls(2);
            let fclass = match flip {
                None => "",
                Some(f) if *f >= *length => "/flip-beyond-LENGTH",
                Some(_) => "/flip-inside-LENGTH",
            };
            match r {
                Guard::Panic(p) => ctx.violation(site, &format!("panic/{}/{}", panic_site(&p), lclass(*length)), format!("length={} {}", length, p), cj()),
                Guard::Done(mac) if mac == want => ctx.outcome(&format!("ok/eia/{}{}", lclass(*length), fclass)),
                Guard::Done(mac) => ctx.violation(site, &format!("mac-mismatch/{}{}", lclass(*length), fclass), format!("length={} bearer={} dir={} flip={:?} got={:08x} want={:08x}", length, bearer, direction, flip, mac, want), cj()),
            }
            // the MAC depends on exactly the first LENGTH bits: a flip beyond LENGTH leaves the reference MAC unchanged (guards the oracle itself)
            if let Some(f) = flip {
                if *f >= *length {
                    let mut m0 = m.clone();
                    m0[(*f / 32) as usize] ^= 1u32 << (31 - (*f % 32));
                    if zuc::eia3(&k, *count, *bearer, *direction, *length, &m0) != want {
                        ctx.machinery_error("reference EIA3 depends on a bit beyond LENGTH");
                    }
                }
            }
        }
    }
}

pub fn replay(ctx: &Arc<Ctx>, v: &Value) {
    if crate::cold::replay(ctx, v) {
        return;
    }
    let c: Case = serde_json::from_value(v.clone()).expect("C18 case");
    eval(ctx, &c);
}

pub fn run(ctx: &Arc<Ctx>) {
    refmodels::selftest::run(&["zuc"]).unwrap_or_else(|e| ctx.machinery_error(format!("reference self-test failed: {}", e)));
    let lmax = ctx.tier.pick(600u32, 2100);
    ctx.set_rule("LENGTH every value 0..=600 (EIA3) / 1..=600 (EEA3) (thorough: 2100) x (bearer, direction) x key/COUNT in {test-set values, seeded} x message in {zero, ones, seeded} (and, at 6 lengths of 3..6 words, all 256 assignments of {zero, all-ones, last-bit-only, seeded} words to 4-word periods) held in a buffer of ceil(LENGTH/32)+{0,1,2} words; EIA3 additionally every single-bit flip of the message over all 32*ceil(LENGTH/32) positions for every LENGTH <= 96 and every 37th after; long LENGTHs {2079, 5670, 16384, 65535, 65536, 65568, 100001}. quick: all lengths with 4 (bearer,direction) pairs + all 64 pairs at 9 lengths; thorough: full product. Oracle: bit-level EEA3/EIA3 over the independent ZUC, pinned by 3GPP test sets.");
    let keys: Vec<(String, u32)> = vec![
        ("173d14ba5003731d7a60049470f00a29".into(), 0x66035492),
        ("c9e6cec4607c72db000aefa88385ab0a".into(), 0xa94059da),
        (hex::encode(seeded(ctx.seed, "c18key", 16)), u32::from_be_bytes(seeded(ctx.seed, "c18count", 4).try_into().unwrap())),
    ];
    let all_pairs: Vec<(u32, u32)> = (0..32).flat_map(|b| (0..2).map(move |d| (b, d))).collect();
    let few_pairs: Vec<(u32, u32)> = vec![(0, 0), (0x0f, 0), (0x0a, 1), (31, 1)];
    let special: [u32; 9] = [1, 31, 32, 33, 63, 64, 65, 193, 577];
    let mut cases = Vec::new();
    for length in 0..=lmax {
        let pairs: &Vec<(u32, u32)> = if ctx.tier == Tier::Thorough || special.contains(&length) { &all_pairs } else { &few_pairs };
        for (bearer, direction) in pairs {
            for (ki, (key, count)) in keys.iter().enumerate() {
                for msg in ["zero", "ones", "seed"] {
                    // keep the quick product moderate: all three messages on the first key, seeded message on the others
                    if ctx.tier == Tier::Quick && ki > 0 && msg != "seed" {
                        continue;
                    }
                    if length >= 1 {
                        cases.push(Case::Eea { key: key.clone(), count: *count, bearer: *bearer, direction: *direction, length, msg: msg.into(), extra: (length as usize + ki) % 3 });
                    }
                    cases.push(Case::Eia { key: key.clone(), count: *count, bearer: *bearer, direction: *direction, length, msg: msg.into(), flip: None, extra: (length as usize + ki + 1) % 3 });
                }
            }
        }
        if length <= 96 || length % 37 == 0 {
            let nbits = 32 * ((length + 31) / 32);
            for f in 0..nbits {
                let (key, count) = &keys[(f as usize) % keys.len()];
                cases.push(Case::Eia { key: key.clone(), count: *count, bearer: 0x0a, direction: 1, length, msg: "seed".into(), flip: Some(f), extra: 0 });
            }
        }
    }
    // word-structured messages: every assignment of {zero word, all-ones word, word with only its last bit set, seeded
    // word} to the first 4 words (256 patterns, repeated over the message) at lengths of 3..6 words, aligned and not
    for pat in 0..256u32 {
        let digits: String = (0..4).map(|i| char::from(b'0' + ((pat >> (2 * i)) & 3) as u8)).collect();
        for length in [96u32, 128, 131, 160, 189, 192] {
            let (key, count) = &keys[(pat as usize) % keys.len()];
            cases.push(Case::Eia { key: key.clone(), count: *count, bearer: 0x11, direction: (pat & 1), length, msg: format!("pat:{}", digits), flip: None, extra: (pat % 2) as usize });
            if pat % 16 == 0 {
                cases.push(Case::Eea { key: key.clone(), count: *count, bearer: 0x11, direction: (pat & 1), length, msg: format!("pat:{}", digits), extra: 0 });
            }
        }
    }
    // a few long messages: the 3GPP test-set lengths and values around 2^16 (a length kept in 16 bits would show)
    for length in [2079u32, 5670, 16384, 65535, 65536, 65568, 100001] {
        for (ki, (key, count)) in keys.iter().enumerate() {
            let (bearer, direction) = few_pairs[ki % few_pairs.len()];
            cases.push(Case::Eea { key: key.clone(), count: *count, bearer, direction, length, msg: "seed".into(), extra: ki % 2 });
            cases.push(Case::Eia { key: key.clone(), count: *count, bearer, direction, length, msg: "seed".into(), flip: None, extra: 0 });
            cases.push(Case::Eia { key: key.clone(), count: *count, bearer, direction, length, msg: "seed".into(), flip: Some(length - 1), extra: 0 });
            cases.push(Case::Eia { key: key.clone(), count: *count, bearer, direction, length, msg: "seed".into(), flip: Some(length), extra: 1 });
        }
    }
    ctx.note_bound(format!("LENGTH<={} exhaustively plus 7 long lengths, {} cases", lmax, cases.len()));
    ctx.sample(serde_json::to_value(&cases[10]).unwrap());
    ctx.sample(serde_json::to_value(&cases[cases.len() - 1]).unwrap());
    run_cases(ctx, &cases, 64, eval);
    crate::cold::check(ctx, "C18");
}
