//! C19 — keys, points and ciphertexts survive encoding, and decoders validate
use crate::alpha::*;
use crate::c03::gdbg;
use crate::c05::{model, openssl_cts};
use crate::engine::*;
use crate::sm2api::*;
use gm_sm2::key::{Sm2PrivateKey, Sm2PublicKey};
use num_bigint::BigUint;
use num_traits::{One, Zero};
use pkcs8::{DecodePrivateKey, DecodePublicKey, EncodePrivateKey, EncodePublicKey, LineEnding};
use refmodels::util::{from_be, from_limbs, hexbig as hb, SplitMix};
use refmodels::{der, sm2};
use serde::{Deserialize, Serialize};
use serde_json::{json, Value};
use std::sync::Arc;

#[derive(Serialize, Deserialize, Clone, Debug)]
pub enum Case {
    /// all encodings of the key pair of d must round-trip and agree with the reference encoders
    Key { d: String, tag: String },
    OpenSslKey { idx: usize },
    /// a public point given by its coordinates (no private key known), held as a key object with Z = lambda:
    /// reference encodings must decode to it, and the key object must encode to the reference bytes
    PubPoint { x: String, y: String, lambda: String, tag: String },
    /// byte strings of every length at the public-key decoder (fill byte; first byte forced to `tag`)
    PubLen { len: usize, tag: u8, fill: u8 },
    PubHexLen { len: usize, kind: String },
    PrivLen { len: usize, fill: u8 },
    /// valid point of d altered: "y+1", "y-1", "x+1", "x>=p", "y>=p", "tag05", "tag00", "compressed-nonresidue"
    PubBad { d: String, kind: String, via: String },
    /// ASN.1 ciphertext for (d, k): structure, content and round trip
    Asn1 { d: String, k: String, msg_len: usize, compressed: bool, c1c3c2: bool, tag: String },
    Asn1OpenSsl { idx: usize },
    /// malformed DER at decrypt_asn1
    Asn1Bad { kind: String },
}

fn keys_corpus() -> &'static Vec<Value> {
    static C: std::sync::OnceLock<Vec<Value>> = std::sync::OnceLock::new();
    C.get_or_init(|| {
        let s = std::fs::read_to_string(format!("{}/corpus/sm2_keys.json", VERIF_ROOT)).unwrap_or_else(|_| "[]".into());
        serde_json::from_str::<Value>(&s).unwrap().as_array().unwrap().clone()
    })
}
pub fn c1_corpus() -> &'static Vec<Value> {
    static C: std::sync::OnceLock<Vec<Value>> = std::sync::OnceLock::new();
    C.get_or_init(|| {
        let s = std::fs::read_to_string(format!("{}/corpus/sm2_c1_scalars.json", VERIF_ROOT)).unwrap_or_else(|_| "[]".into());
        serde_json::from_str::<Value>(&s).unwrap().as_array().unwrap().clone()
    })
}

fn same_pub(ctx: &Ctx, what: &str, tag: &str, r: Guard<Result<Sm2PublicKey, String>>, want: &sm2::Pt, cj: &dyn Fn() -> Value) {
    ctx.call();
    match r {
        Guard::Done(Ok(pk)) if ref_point(&pk.point) == *want => {}
        Guard::Done(Ok(pk)) => ctx.violation(what, &format!("decodes-to-different-point/{}", tag), format!("got {:?}", ref_point(&pk.point).map(|(x, y)| (hexbig(&x), hexbig(&y)))), cj()),
        Guard::Done(Err(e)) => ctx.violation(what, &format!("valid-encoding-rejected/{}", tag), e, cj()),
        Guard::Panic(p) => ctx.violation(what, &format!("panic/{}/{}", panic_site(&p), tag), p, cj()),
    }
}
fn same_priv(ctx: &Ctx, what: &str, tag: &str, r: Guard<Result<Sm2PrivateKey, String>>, d: &BigUint, cj: &dyn Fn() -> Value) {
    ctx.call();
    match r {
        Guard::Done(Ok(sk)) if from_limbs(&sk.d) == *d && ref_point(&sk.public_key.point) == sm2::g_mul(d) => {}
        Guard::Done(Ok(sk)) => ctx.violation(what, &format!("decodes-to-different-key/{}", tag), format!("got d={}", hexbig(&from_limbs(&sk.d))), cj()),
        Guard::Done(Err(e)) => ctx.violation(what, &format!("valid-encoding-rejected/{}", tag), e, cj()),
        Guard::Panic(p) => ctx.violation(what, &format!("panic/{}/{}", panic_site(&p), tag), p, cj()),
    }
}
fn must_reject<T>(ctx: &Ctx, what: &str, cls: &str, r: Guard<Result<T, String>>, detail: String, cj: &dyn Fn() -> Value) {
    ctx.call();
    match r {
        Guard::Done(Err(_)) => ctx.outcome(&format!("rejected/{}", cls)),
        Guard::Done(Ok(_)) => ctx.violation(what, &format!("invalid-accepted/{}", cls), detail, cj()),
        Guard::Panic(p) => ctx.violation(what, &format!("panic/{}/{}", panic_site(&p), cls), format!("{} {}", detail, p), cj()),
    }
}
fn es<T, E: std::fmt::Debug>(r: Result<T, E>) -> Result<T, String> {
    r.map_err(|e| format!("{:?}", e))
}

pub fn eval(ctx: &Ctx, case: &Case) {
    ctx.state();
    let cj = || serde_json::to_value(case).unwrap();
    let pr = sm2::params();
    match case {
        Case::Key { d, tag } => {
            let d = hb(d);
            let want = sm2::g_mul(&d);
            ctx.trace();
            // private key from bytes
            let skr = guard(|| es(Sm2PrivateKey::new(&cand(&d))));
            let sk = match &skr {
                Guard::Done(Ok(sk)) => sk.clone(),
                _ => {
                    same_priv(ctx, "Sm2PrivateKey::new", tag, skr, &d, &cj);
                    return;
                }
            };
            same_priv(ctx, "Sm2PrivateKey::new", tag, skr, &d, &cj);
            ctx.call();
            match guard(|| sk.to_public_key()) {
                Guard::Done(p2) if ref_point(&p2.point) == want => {}
                other => ctx.violation("Sm2PrivateKey::to_public_key", &format!("not-[d]G/{}", tag), gdbg(&other.map(|p| ref_point(&p.point).map(|(x, _)| hexbig(&x)))), cj()),
            }
            let pk = sk.public_key;
            // SEC1 forms
            for comp in [false, true] {
                let form = if comp { "compressed" } else { "uncompressed" };
                ctx.call();
                match guard(|| pk.to_bytes(comp)) {
                    Guard::Done(b) => {
                        if b != sm2::encode_point(&want, comp) {
                            ctx.violation("Sm2PublicKey::to_bytes", &format!("wrong-sec1-bytes/{}/{}", form, tag), hex::encode(&b), cj());
                        }
                        same_pub(ctx, "Sm2PublicKey::new", &format!("{}/{}", form, tag), guard(|| es(Sm2PublicKey::new(&b))), &want, &cj);
                    }
                    Guard::Panic(p) => ctx.violation("Sm2PublicKey::to_bytes", &format!("panic/{}", panic_site(&p)), p, cj()),
                }
                // from the reference encoder
                let rb = sm2::encode_point(&want, comp);
                same_pub(ctx, "Sm2PublicKey::new", &format!("reference-{}/{}", form, tag), guard(|| es(Sm2PublicKey::new(&rb))), &want, &cj);
                // hex
                ctx.call();
                match guard(|| pk.to_hex_string(comp)) {
                    Guard::Done(h) => {
                        if h.to_lowercase() != hex::encode(&rb) {
                            ctx.violation("Sm2PublicKey::to_hex_string", &format!("wrong-hex/{}/{}", form, tag), h.clone(), cj());
                        }
                        same_pub(ctx, "Sm2PublicKey::from_hex_string", &format!("{}/{}", form, tag), guard(|| es(Sm2PublicKey::from_hex_string(&h))), &want, &cj);
                        // the same text with its first digit dropped (odd length): no key
                        must_reject(ctx, "Sm2PublicKey::from_hex_string", "hex-odd-length/first-digit-dropped", guard(|| es(Sm2PublicKey::from_hex_string(&h[1..])).map(|_| ())), h[1..].to_string(), &cj);
                        // upper-case hex is not demanded by the property: only "no panic" (and, if accepted, the right point)
                        ctx.call();
                        match guard(|| es(Sm2PublicKey::from_hex_string(&h.to_uppercase()))) {
                            Guard::Done(Ok(pk2)) if ref_point(&pk2.point) != want => ctx.violation("Sm2PublicKey::from_hex_string", &format!("decodes-to-different-point/uppercase/{}", tag), String::new(), cj()),
                            Guard::Panic(p) => ctx.violation("Sm2PublicKey::from_hex_string", &format!("panic/{}/uppercase", panic_site(&p)), p, cj()),
                            _ => {}
                        }
                    }
                    Guard::Panic(p) => ctx.violation("Sm2PublicKey::to_hex_string", &format!("panic/{}", panic_site(&p)), p, cj()),
                }
            }
            // SPKI DER / PEM
            ctx.call();
            match guard(|| es(pk.to_public_key_der())) {
                Guard::Done(Ok(doc)) => {
                    let bytes = doc.as_bytes().to_vec();
                    match der::spki_decode(&bytes) {
                        Some(pt) if pt == sm2::encode_point(&want, false) => {}
                        other => ctx.violation("Sm2PublicKey::to_public_key_der", &format!("spki-not-interoperable/{}", tag), format!("reference reader: {:?} doc={}", other.map(hex::encode), hex::encode(&bytes)), cj()),
                    }
                    same_pub(ctx, "Sm2PublicKey::from_public_key_der", tag, guard(|| es(Sm2PublicKey::from_public_key_der(&bytes))), &want, &cj);
                }
                other => ctx.violation("Sm2PublicKey::to_public_key_der", &format!("not-ok/{}", tag), gdbg(&other), cj()),
            }
            // reference-made SPKI must decode
            let rspki = der::spki_encode(&sm2::encode_point(&want, false));
            same_pub(ctx, "Sm2PublicKey::from_public_key_der", &format!("reference-spki/{}", tag), guard(|| es(Sm2PublicKey::from_public_key_der(&rspki))), &want, &cj);
            // a BIT STRING that declares 1..7 unused bits holds a key of 513..519 bits: a wrong length, never this key
            for unused in 1..=7u8 {
                let mut doc = rspki.clone();
                let at = doc.len() - 66;
                assert_eq!(doc[at], 0, "unused-bits octet of the reference SPKI");
                doc[at] = unused;
                must_reject(ctx, "Sm2PublicKey::from_public_key_der", "spki-bit-string-with-unused-bits", guard(|| es(Sm2PublicKey::from_public_key_der(&doc))), hex::encode(&doc), &cj);
            }
            // the document OpenSSL writes with -conv_form compressed: subjectPublicKey = 02/03 || X
            {
                let cspki = der::spki_encode(&sm2::encode_point(&want, true));
                same_pub(ctx, "Sm2PublicKey::from_public_key_der", &format!("reference-spki-compressed/{}", tag), guard(|| es(Sm2PublicKey::from_public_key_der(&cspki))), &want, &cj);
                for (eol, en) in [("\n", "LF"), ("\r\n", "CRLF")] {
                    for (doc, form) in [(&rspki, "uncompressed"), (&cspki, "compressed")] {
                        let pem = der::pem_encode("PUBLIC KEY", doc, eol);
                        assert_eq!(der::pem_decode(&pem, "PUBLIC KEY").as_ref(), Some(doc), "PEM writer self-check");
                        same_pub(ctx, "Sm2PublicKey::from_public_key_pem", &format!("reference-pem-{}/{}/{}", form, en, tag), guard(|| es(Sm2PublicKey::from_public_key_pem(&pem))), &want, &cj);
                        same_pub(ctx, "str::parse::<Sm2PublicKey>", &format!("reference-pem-{}/{}/{}", form, en, tag), guard(|| es(pem.parse::<Sm2PublicKey>())), &want, &cj);
                    }
                }
            }
            for (le, name) in [(LineEnding::LF, "LF"), (LineEnding::CRLF, "CRLF")] {
                ctx.call();
                match guard(|| es(pk.to_public_key_pem(le))) {
                    Guard::Done(Ok(pem)) => {
                        if der::pem_decode(&pem, "PUBLIC KEY").and_then(|d| der::spki_decode(&d)) != Some(sm2::encode_point(&want, false)) {
                            ctx.violation("Sm2PublicKey::to_public_key_pem", &format!("pem-not-interoperable/{}/{}", name, tag), pem.clone(), cj());
                        }
                        same_pub(ctx, "Sm2PublicKey::from_public_key_pem", &format!("{}/{}", name, tag), guard(|| es(Sm2PublicKey::from_public_key_pem(&pem))), &want, &cj);
                    }
                    other => ctx.violation("Sm2PublicKey::to_public_key_pem", &format!("not-ok/{}", tag), gdbg(&other), cj()),
                }
            }
            // private: bytes, hex, PKCS#8
            ctx.call();
            match guard(|| sk.to_bytes_be()) {
                Guard::Done(b) if b == cand(&d).to_vec() => {}
                other => ctx.violation("Sm2PrivateKey::to_bytes_be", &format!("wrong-bytes/{}", tag), gdbg(&other), cj()),
            }
            match guard(|| sk.to_hex_string()) {
                Guard::Done(h) => {
                    if h.to_lowercase() != hexbig(&d) {
                        ctx.violation("Sm2PrivateKey::to_hex_string", &format!("wrong-hex/{}", tag), h.clone(), cj());
                    }
                    same_priv(ctx, "Sm2PrivateKey::from_hex_string", tag, guard(|| Sm2PrivateKey::from_hex_string(&h)), &d, &cj);
                    // odd-length text (the first digit dropped: a lenient decoder pads it back) and 66 digits (00 in front): no key
                    must_reject(ctx, "Sm2PrivateKey::from_hex_string", "hex-odd-length", guard(|| Sm2PrivateKey::from_hex_string(&h[1..]).map(|_| ())), h[1..].to_string(), &cj);
                    must_reject(ctx, "Sm2PrivateKey::from_hex_string", "hex-66-digits-leading-00", guard(|| Sm2PrivateKey::from_hex_string(&format!("00{}", h)).map(|_| ())), format!("00{}", h), &cj);
                    must_reject(ctx, "Sm2PrivateKey::from_hex_string", "hex-66-digits-trailing-00", guard(|| Sm2PrivateKey::from_hex_string(&format!("{}00", h)).map(|_| ())), format!("{}00", h), &cj);
                    {
                        let raw = cand(&d);
                        let lead: Vec<u8> = [vec![0u8], raw.to_vec()].concat();
                        let trail: Vec<u8> = [raw.to_vec(), vec![0u8]].concat();
                        must_reject(ctx, "Sm2PrivateKey::new", "33-octets-leading-00", guard(|| es(Sm2PrivateKey::new(&lead)).map(|_| ())), hex::encode(&lead), &cj);
                        must_reject(ctx, "Sm2PrivateKey::new", "33-octets-trailing-00", guard(|| es(Sm2PrivateKey::new(&trail)).map(|_| ())), hex::encode(&trail), &cj);
                        must_reject(ctx, "Sm2PrivateKey::new", "31-octets", guard(|| es(Sm2PrivateKey::new(&raw[1..])).map(|_| ())), hex::encode(&raw[1..]), &cj);
                    }
                    // a sign, a blank, an 'x' or a 'g' in place of a hex digit: never a key (integer parsers accept "+b")
                    for pos in [0usize, 1, 2, 31, 62, 63] {
                        for ch in ['+', '-', ' ', 'x', 'g', '_'] {
                            let mut t: Vec<char> = h.chars().collect();
                            if pos < t.len() {
                                t[pos] = ch;
                                let t: String = t.into_iter().collect();
                                must_reject(ctx, "Sm2PrivateKey::from_hex_string", "non-hex-character", guard(|| Sm2PrivateKey::from_hex_string(&t).map(|_| ())), t.clone(), &cj);
                            }
                        }
                    }
                    // upper case: accepted (then the same key) or refused, never another key and never a panic
                    match guard(|| Sm2PrivateKey::from_hex_string(&h.to_uppercase())) {
                        Guard::Done(Ok(sk2)) if refmodels::util::from_limbs(&sk2.d) != d => ctx.violation("Sm2PrivateKey::from_hex_string", &format!("decodes-to-different-key/uppercase/{}", tag), String::new(), cj()),
                        Guard::Panic(p) => ctx.violation("Sm2PrivateKey::from_hex_string", &format!("panic/{}/uppercase", panic_site(&p)), p, cj()),
                        _ => {}
                    }
                }
                Guard::Panic(p) => ctx.violation("Sm2PrivateKey::to_hex_string", &format!("panic/{}", panic_site(&p)), p, cj()),
            }
            ctx.call();
            match guard(|| es(sk.to_pkcs8_der())) {
                Guard::Done(Ok(doc)) => {
                    let bytes = doc.as_bytes().to_vec();
                    match der::pkcs8_decode(&bytes) {
                        Some((db, pubb)) if from_be(&db) == d && db.len() == 32 && pubb.as_ref().map(|p| p == &sm2::encode_point(&want, false)).unwrap_or(true) => {}
                        other => ctx.violation("Sm2PrivateKey::to_pkcs8_der", &format!("pkcs8-not-interoperable/{}", tag), format!("reference reader: {:?}", other.map(|(a, b)| (hex::encode(a), b.map(hex::encode)))), cj()),
                    }
                    same_priv(ctx, "Sm2PrivateKey::from_pkcs8_der", tag, guard(|| es(Sm2PrivateKey::from_pkcs8_der(&bytes))), &d, &cj);
                }
                other => ctx.violation("Sm2PrivateKey::to_pkcs8_der", &format!("not-ok/{}", tag), gdbg(&other.map(|r| r.map(|_| ()))), cj()),
            }
            // PKCS#8 documents from an independent encoder: embedded public key uncompressed / compressed / absent,
            // with and without the optional curve parameters (all are what other tools emit)
            for (pubform, pb) in [("uncompressed-pub", Some(sm2::encode_point(&want, false))), ("compressed-pub", Some(sm2::encode_point(&want, true))), ("no-pub", None)] {
                for with_params in [false, true] {
                    let doc = der::pkcs8_encode(&cand(&d), pb.as_deref(), with_params);
                    same_priv(ctx, "Sm2PrivateKey::from_pkcs8_der", &format!("reference-pkcs8/{}/{}/{}", pubform, if with_params { "params" } else { "no-params" }, tag), guard(|| es(Sm2PrivateKey::from_pkcs8_der(&doc))), &d, &cj);
                }
            }
            // a document whose embedded public key does NOT belong to d (another key's point, an off-curve point): the
            // decoder may refuse it, but if it accepts, the key it returns must still be (d, [d]G)
            {
                let other = sm2::g_mul(&(&d + 1u32));
                let (ox, oy) = other.clone().unwrap();
                let mut off = sm2::encode_point(&other, false);
                off[64] ^= 0x01;
                let _ = (ox, oy);
                for (name, pb) in [("foreign-pub", sm2::encode_point(&other, false)), ("foreign-compressed-pub", sm2::encode_point(&other, true)), ("off-curve-pub", off)] {
                    let doc = der::pkcs8_encode(&cand(&d), Some(&pb), false);
                    ctx.call();
                    match guard(|| es(Sm2PrivateKey::from_pkcs8_der(&doc))) {
                        Guard::Done(Err(_)) => ctx.outcome(&format!("rejected/pkcs8-{}", name)),
                        Guard::Done(Ok(k)) if from_limbs(&k.d) == d && ref_point(&k.public_key.point) == want && ref_point(&k.to_public_key().point) == want => ctx.outcome(&format!("ok/pkcs8-{}-ignored", name)),
                        Guard::Done(Ok(k)) => ctx.violation("Sm2PrivateKey::from_pkcs8_der", &format!("embedded-public-key-adopted/{}", name), format!("d={} public={:?}", hexbig(&d), ref_point(&k.public_key.point).map(|(x, _)| hexbig(&x))), cj()),
                        Guard::Panic(p) => ctx.violation("Sm2PrivateKey::from_pkcs8_der", &format!("panic/{}/{}", panic_site(&p), name), p, cj()),
                    }
                }
            }
            for (le, name) in [(LineEnding::LF, "LF"), (LineEnding::CRLF, "CRLF")] {
                ctx.call();
                match guard(|| es(sk.to_pkcs8_pem(le))) {
                    Guard::Done(Ok(pem)) => {
                        let pem: String = pem.to_string();
                        same_priv(ctx, "Sm2PrivateKey::from_pkcs8_pem", &format!("{}/{}", name, tag), guard(|| es(Sm2PrivateKey::from_pkcs8_pem(&pem))), &d, &cj);
                    }
                    other => ctx.violation("Sm2PrivateKey::to_pkcs8_pem", &format!("not-ok/{}", tag), gdbg(&other.map(|r| r.map(|_| ()))), cj()),
                }
            }
            ctx.outcome("key-roundtrip-done");
        }
        Case::OpenSslKey { idx } => {
            let e = &keys_corpus()[*idx];
            let d = hb(e["d"].as_str().unwrap());
            let want = sm2::decode_point(&hex::decode(e["pub"].as_str().unwrap()).unwrap()).expect("corpus point");
            if sm2::g_mul(&d) != want {
                ctx.machinery_error(format!("corpus key {} inconsistent", idx));
                return;
            }
            ctx.trace();
            let spki_der = hex::decode(e["spki_der"].as_str().unwrap()).unwrap();
            let pkcs8_der = hex::decode(e["pkcs8_der"].as_str().unwrap()).unwrap();
            let spki_pem = e["spki_pem"].as_str().unwrap().to_string();
            let pkcs8_pem = e["pkcs8_pem"].as_str().unwrap().to_string();
            same_pub(ctx, "Sm2PublicKey::from_public_key_der", "openssl", guard(|| es(Sm2PublicKey::from_public_key_der(&spki_der))), &want, &cj);
            same_pub(ctx, "Sm2PublicKey::from_public_key_pem", "openssl", guard(|| es(Sm2PublicKey::from_public_key_pem(&spki_pem))), &want, &cj);
            same_pub(ctx, "Sm2PublicKey::from_public_key_pem", "openssl-crlf", guard(|| es(Sm2PublicKey::from_public_key_pem(&spki_pem.replace('\n', "\r\n")))), &want, &cj);
            same_priv(ctx, "Sm2PrivateKey::from_pkcs8_der", "openssl", guard(|| es(Sm2PrivateKey::from_pkcs8_der(&pkcs8_der))), &d, &cj);
            same_priv(ctx, "Sm2PrivateKey::from_pkcs8_pem", "openssl", guard(|| es(Sm2PrivateKey::from_pkcs8_pem(&pkcs8_pem))), &d, &cj);
            ctx.outcome("openssl-key-done");
        }
        Case::PubPoint { x, y, lambda, tag } => {
            let want: sm2::Pt = Some((hb(x), hb(y)));
            if !pr.curve.on_curve(&want) {
                ctx.machinery_error(format!("PubPoint {} is not on the curve", x));
                return;
            }
            ctx.trace();
            let pk = Sm2PublicKey { point: lib_point(&want, &hb(lambda)) };
            for comp in [false, true] {
                let form = if comp { "compressed" } else { "uncompressed" };
                let rb = sm2::encode_point(&want, comp);
                same_pub(ctx, "Sm2PublicKey::new", &format!("reference-{}/{}", form, tag), guard(|| es(Sm2PublicKey::new(&rb))), &want, &cj);
                same_pub(ctx, "Sm2PublicKey::from_hex_string", &format!("reference-{}/{}", form, tag), guard(|| es(Sm2PublicKey::from_hex_string(&hex::encode(&rb)))), &want, &cj);
                ctx.call();
                match guard(|| pk.to_bytes(comp)) {
                    Guard::Done(b) if b == rb => {}
                    other => ctx.violation("Sm2PublicKey::to_bytes", &format!("wrong-sec1-bytes/{}/{}", form, tag), gdbg(&other.map(hex::encode)), cj()),
                }
                ctx.call();
                match guard(|| pk.to_hex_string(comp)) {
                    Guard::Done(h) if h.to_lowercase() == hex::encode(&rb) => {}
                    other => ctx.violation("Sm2PublicKey::to_hex_string", &format!("wrong-hex/{}/{}", form, tag), gdbg(&other), cj()),
                }
            }
            let rspki = der::spki_encode(&sm2::encode_point(&want, false));
            same_pub(ctx, "Sm2PublicKey::from_public_key_der", &format!("reference-spki/{}", tag), guard(|| es(Sm2PublicKey::from_public_key_der(&rspki))), &want, &cj);
            // a BIT STRING that declares 1..7 unused bits holds a key of 513..519 bits: a wrong length, never this key
            for unused in 1..=7u8 {
                let mut doc = rspki.clone();
                let at = doc.len() - 66;
                assert_eq!(doc[at], 0, "unused-bits octet of the reference SPKI");
                doc[at] = unused;
                must_reject(ctx, "Sm2PublicKey::from_public_key_der", "spki-bit-string-with-unused-bits", guard(|| es(Sm2PublicKey::from_public_key_der(&doc))), hex::encode(&doc), &cj);
            }
            // the document OpenSSL writes with -conv_form compressed: subjectPublicKey = 02/03 || X
            {
                let cspki = der::spki_encode(&sm2::encode_point(&want, true));
                same_pub(ctx, "Sm2PublicKey::from_public_key_der", &format!("reference-spki-compressed/{}", tag), guard(|| es(Sm2PublicKey::from_public_key_der(&cspki))), &want, &cj);
                for (eol, en) in [("\n", "LF"), ("\r\n", "CRLF")] {
                    for (doc, form) in [(&rspki, "uncompressed"), (&cspki, "compressed")] {
                        let pem = der::pem_encode("PUBLIC KEY", doc, eol);
                        assert_eq!(der::pem_decode(&pem, "PUBLIC KEY").as_ref(), Some(doc), "PEM writer self-check");
                        same_pub(ctx, "Sm2PublicKey::from_public_key_pem", &format!("reference-pem-{}/{}/{}", form, en, tag), guard(|| es(Sm2PublicKey::from_public_key_pem(&pem))), &want, &cj);
                        same_pub(ctx, "str::parse::<Sm2PublicKey>", &format!("reference-pem-{}/{}/{}", form, en, tag), guard(|| es(pem.parse::<Sm2PublicKey>())), &want, &cj);
                    }
                }
            }
            ctx.call();
            match guard(|| es(pk.to_public_key_der())) {
                Guard::Done(Ok(doc)) if doc.as_bytes() == &rspki[..] => ctx.outcome(&format!("ok/pub-point/{}", tag)),
                Guard::Done(Ok(doc)) => ctx.violation("Sm2PublicKey::to_public_key_der", &format!("spki-not-interoperable/{}", tag), hex::encode(doc.as_bytes()), cj()),
                other => ctx.violation("Sm2PublicKey::to_public_key_der", &format!("not-ok/{}", tag), gdbg(&other.map(|r| r.map(|_| ()))), cj()),
            }
        }
        Case::PubLen { len, tag, fill } => {
            let mut b = vec![*fill; *len];
            if *len > 0 {
                b[0] = *tag;
            }
            // only 33 / 65 byte strings can be points; the constant fills are not on the curve either
            let truth = sm2::decode_point(&b).is_some();
            let r = guard(|| es(Sm2PublicKey::new(&b)));
            if truth {
                ctx.outcome("valid-by-accident");
            } else {
                must_reject(ctx, "Sm2PublicKey::new", &format!("len{}", if *len == 33 || *len == 65 { "=33/65-offcurve" } else { "!=33/65" }), r, format!("len={} tag={:02x} fill={:02x}", len, tag, fill), &cj);
            }
        }
        Case::PubHexLen { len, kind } => {
            // hex strings of every length: valid prefix of a real key, odd lengths, a non-hex character
            let full = hex::encode(sm2::encode_point(&sm2::g_mul(&hb(ANNEX_D)), false));
            let mut s: String = full.chars().cycle().take(*len).collect();
            if kind == "nonhex" && *len > 0 {
                let pos = len / 2;
                s.replace_range(pos..pos + 1, "g");
            }
            let truth = hex::decode(&s).ok().and_then(|b| sm2::decode_point(&b)).is_some();
            let r = guard(|| es(Sm2PublicKey::from_hex_string(&s)));
            if truth {
                ctx.call();
                match r {
                    Guard::Done(Ok(_)) => ctx.outcome("ok/hex-valid"),
                    other => ctx.violation("Sm2PublicKey::from_hex_string", "valid-encoding-rejected/hex", gdbg(&other.map(|r| r.map(|_| ()))), cj()),
                }
            } else {
                must_reject(ctx, "Sm2PublicKey::from_hex_string", &format!("hex-{}", if kind == "nonhex" { "nonhex-char" } else if len % 2 == 1 { "odd-length" } else { "wrong-length" }), r, format!("hexlen={}", len), &cj);
            }
        }
        Case::PrivLen { len, fill } => {
            let b = vec![*fill; *len];
            if *len == 32 {
                return;
            }
            must_reject(ctx, "Sm2PrivateKey::new", if *len < 32 { "len<32" } else { "len>32" }, guard(|| es(Sm2PrivateKey::new(&b))), format!("len={} fill={:02x}", len, fill), &cj);
            let hs = hex::encode(&b);
            must_reject(ctx, "Sm2PrivateKey::from_hex_string", if *len < 32 { "len<32" } else { "len>32" }, guard(|| Sm2PrivateKey::from_hex_string(&hs)), format!("len={} fill={:02x}", len, fill), &cj);
        }
        Case::PubBad { d, kind, via } => {
            let pt = sm2::g_mul(&hb(d));
            let (x, y) = pt.clone().unwrap();
            let p = &pr.p;
            let mut enc = sm2::encode_point(&pt, false);
            let set = |enc: &mut Vec<u8>, x: &BigUint, y: &BigUint| {
                enc[1..33].copy_from_slice(&cand(x));
                enc[33..65].copy_from_slice(&cand(y));
            };
            match kind.as_str() {
                "y+1" => set(&mut enc, &x, &((&y + 1u32) % p)),
                "y-1" => set(&mut enc, &x, &((&y + p - 1u32) % p)),
                "x+1" => set(&mut enc, &((&x + 1u32) % p), &y),
                "neg-y-swapped" => set(&mut enc, &y, &x),
                "zero-zero" => set(&mut enc, &BigUint::zero(), &BigUint::zero()),
                "x>=p" | "y>=p" | "compressed-x>=p" => {
                    // tiny-coordinate points: search x (resp. y via x) small enough that adding p still fits 32 bytes
                    let mut tx = BigUint::one();
                    let (sx, sy) = loop {
                        let rhs = (&tx * &tx * &tx + &pr.a * &tx + &pr.b) % p;
                        if let Some(yy) = sm2::sqrt_mod_p(&rhs) {
                            break (tx.clone(), yy);
                        }
                        tx += 1u32;
                    };
                    if kind == "x>=p" {
                        set(&mut enc, &(&sx + p), &sy);
                    } else if kind == "compressed-x>=p" {
                        enc = vec![if sy.bit(0) { 3 } else { 2 }];
                        enc.extend_from_slice(&cand(&(&sx + p)));
                    } else {
                        // no tiny y known: use y + p only when it fits, else fall back to x alias
                        if (&sy + p).bits() <= 256 {
                            set(&mut enc, &sx, &(&sy + p));
                        } else {
                            set(&mut enc, &(&sx + p), &sy);
                        }
                    }
                }
                // a valid encoding followed by 256 / 65536 further bytes: the length equals a valid one modulo 2^8 / 2^16
                "valid+256" => enc.extend(std::iter::repeat(0x5au8).take(256)),
                "valid+65536" => enc.extend(std::iter::repeat(0x5au8).take(65536)),
                "compressed-valid+256" => {
                    enc = sm2::encode_point(&pt, true);
                    enc.extend(std::iter::repeat(0x5au8).take(256));
                }
                "tag05" => enc[0] = 0x05,
                "tag00" => enc[0] = 0x00,
                "tag06" => enc[0] = 0x06,
                "compressed-nonresidue" => {
                    let mut nx = x.clone();
                    loop {
                        let rhs = (&nx * &nx * &nx + &pr.a * &nx + &pr.b) % p;
                        if sm2::sqrt_mod_p(&rhs).is_none() {
                            break;
                        }
                        nx += 1u32;
                    }
                    enc = vec![0x02];
                    enc.extend_from_slice(&cand(&nx));
                }
                _ => panic!("kind"),
            }
            if sm2::decode_point(&enc).is_some() {
                ctx.machinery_error(format!("PubBad/{} produced a valid encoding", kind));
                return;
            }
            ctx.trace();
            match via.as_str() {
                "new" => must_reject(ctx, "Sm2PublicKey::new", kind, guard(|| es(Sm2PublicKey::new(&enc))), hex::encode(&enc), &cj),
                "hex" => must_reject(ctx, "Sm2PublicKey::from_hex_string", kind, guard(|| es(Sm2PublicKey::from_hex_string(&hex::encode(&enc)))), hex::encode(&enc), &cj),
                "spki" => must_reject(ctx, "Sm2PublicKey::from_public_key_der", kind, guard(|| es(Sm2PublicKey::from_public_key_der(&der::spki_encode(&enc)))), hex::encode(&enc), &cj),
                _ => panic!("via"),
            }
        }
        Case::Asn1 { d, k, msg_len, compressed, c1c3c2, tag } => {
            let (d, k) = (hb(d), hb(k));
            let msg = content("seed", *msg_len, ctx.seed);
            let pk_ref = sm2::g_mul(&d);
            let pk = public_key(&pk_ref);
            let sk = private_key(&d);
            let n = &pr.n;
            let mut g = SplitMix::new(ctx.seed, "c19fallback");
            let mut queue = vec![cand(&k)];
            for _ in 0..4 {
                queue.push(cand(&g.nonzero_below(&(n - 2u32))));
            }
            let (r, log) = with_rng(queue, || pk.encrypt_asn1(&msg, *compressed, model(*c1c3c2)));
            ctx.call();
            let site = "Sm2PublicKey::encrypt_asn1";
            let doc = match r {
                Guard::Done(Ok(doc)) => doc,
                other => {
                    ctx.violation(site, &format!("not-ok/{}", tag), gdbg(&other), cj());
                    return;
                }
            };
            let Some(k_used) = log.accepted.last().map(from_limbs) else {
                ctx.violation(site, "no-nonce-drawn", String::new(), cj());
                return;
            };
            let want = sm2::encrypt_with_k(&pk_ref, &msg, &k_used).expect("reference ciphertext");
            let (c1x, c1y) = want.c1.clone().unwrap();
            ctx.trace();
            match der::sm2_cipher_decode(&doc) {
                Some((x, y, hash, ct)) => {
                    if x != c1x || y != c1y || hash[..] != want.c3[..] || ct != want.c2 {
                        let what = if x != c1x {
                            "x"
                        } else if y != c1y {
                            "y"
                        } else if hash[..] != want.c3[..] {
                            "hash"
                        } else {
                            "ciphertext"
                        };
                        ctx.violation(site, &format!("field-{}-is-not-GMT0009/{}", what, tag), format!("k={} doc={} want x={} y={}", hexbig(&k_used), truncate(&hex::encode(&doc), 300), hexbig(&c1x), hexbig(&c1y)), cj());
                        return;
                    }
                    // canonical DER: byte-for-byte equal to the reference encoder
                    if doc != der::sm2_cipher_encode(&c1x, &c1y, &want.c3, &want.c2) {
                        ctx.violation(site, &format!("non-canonical-der/{}", tag), truncate(&hex::encode(&doc), 300), cj());
                        return;
                    }
                }
                None => {
                    ctx.violation(site, &format!("not-a-GMT0009-sequence/{}", tag), truncate(&hex::encode(&doc), 300), cj());
                    return;
                }
            }
            // library round trip
            ctx.call();
            match guard(|| sk.decrypt_asn1(&doc, *compressed, model(*c1c3c2))) {
                Guard::Done(Ok(m)) if m == msg => {}
                other => {
                    ctx.violation("Sm2PrivateKey::decrypt_asn1", &format!("roundtrip/{}", tag), format!("k={} -> {}", hexbig(&k_used), gdbg(&other)), cj());
                    return;
                }
            }
            // reference-made document (same fields, independent encoder)
            let rdoc = der::sm2_cipher_encode(&c1x, &c1y, &want.c3, &want.c2);
            ctx.call();
            match guard(|| sk.decrypt_asn1(&rdoc, *compressed, model(*c1c3c2))) {
                Guard::Done(Ok(m)) if m == msg => ctx.outcome(&format!("ok/asn1/{}", tag)),
                other => ctx.violation("Sm2PrivateKey::decrypt_asn1", &format!("reference-document/{}", tag), format!("k={} doc={} -> {}", hexbig(&k_used), truncate(&hex::encode(&rdoc), 300), gdbg(&other)), cj()),
            }
        }
        Case::Asn1OpenSsl { idx } => {
            let e = &openssl_cts()[*idx];
            let d = hb(e["d"].as_str().unwrap());
            let msg = hex::decode(e["msg"].as_str().unwrap()).unwrap();
            let doc = hex::decode(e["der"].as_str().unwrap()).unwrap();
            let sk = private_key(&d);
            ctx.call();
            ctx.trace();
            match guard(|| sk.decrypt_asn1(&doc, false, model(true))) {
                Guard::Done(Ok(m)) if m == msg => ctx.outcome("ok/asn1-openssl"),
                other => ctx.violation("Sm2PrivateKey::decrypt_asn1", "openssl-document", format!("idx={} -> {}", idx, gdbg(&other)), cj()),
            }
        }
        Case::Asn1Bad { kind } => {
            let d = hb(ANNEX_D);
            let pk_ref = sm2::g_mul(&d);
            let msg = b"encryption standard".to_vec();
            let ct = sm2::encrypt_with_k(&pk_ref, &msg, &hb(ANNEX_K)).unwrap();
            let (x, y) = ct.c1.clone().unwrap();
            let good = der::sm2_cipher_encode(&x, &y, &ct.c3, &ct.c2);
            let doc: Vec<u8> = match kind.as_str() {
                "empty" => vec![],
                "truncated" => good[..good.len() / 2].to_vec(),
                "not-sequence" => {
                    let mut v = good.clone();
                    v[0] = 0x31;
                    v
                }
                "garbage" => vec![0xff; 40],
                "offcurve-y" => der::sm2_cipher_encode(&x, &((&y + 1u32) % &pr.p), &ct.c3, &ct.c2),
                // an off-curve C1 with the body an invalid-curve attacker would compute for it: a decoder that
                // does not validate the point accepts this one (a wrong hash does not save it)
                "offcurve-completed-(1,1)" | "offcurve-completed-(x,y+1)" | "offcurve-completed-(x+1,y)" => {
                    let (fx, fy) = match kind.as_str() {
                        "offcurve-completed-(1,1)" => (BigUint::one(), BigUint::one()),
                        "offcurve-completed-(x,y+1)" => (x.clone(), (&y + 1u32) % &pr.p),
                        _ => ((&x + 1u32) % &pr.p, y.clone()),
                    };
                    let fpt = Some((fx.clone(), fy.clone()));
                    assert!(!sm2::params().curve.on_curve(&fpt), "fabricated point must be off the curve");
                    let (c2f, c3f) = crate::c06::complete(&d, &fpt, &msg).expect("foreign-curve multiple is finite");
                    der::sm2_cipher_encode(&fx, &fy, &c3f, &c2f)
                }
                "y-too-long" => der::sm2_cipher_encode(&x, &(&y + (BigUint::one() << 256)), &ct.c3, &ct.c2),
                "y-33-octets-ff" => der::sm2_cipher_encode(&x, &(&y + (BigUint::from(0xffu32) << 256)), &ct.c3, &ct.c2),
                "x-too-long" => der::sm2_cipher_encode(&(&x + (BigUint::one() << 256)), &y, &ct.c3, &ct.c2),
                "short-hash" => der::sm2_cipher_encode(&x, &y, &ct.c3[..31], &ct.c2),
                "trailing-bytes" => {
                    let mut v = good.clone();
                    v.push(0);
                    v
                }
                _ => panic!("kind"),
            };
            let sk = private_key(&d);
            must_reject(ctx, "Sm2PrivateKey::decrypt_asn1", &format!("asn1-{}", kind), guard(|| es(sk.decrypt_asn1(&doc, false, model(true)))), truncate(&hex::encode(&doc), 120), &cj);
        }
    }
}

pub fn replay(ctx: &Arc<Ctx>, v: &Value) {
    if crate::cold::replay(ctx, v) {
        return;
    }
    let c: Case = serde_json::from_value(v.clone()).expect("C19 case");
    eval(ctx, &c);
}

/// search private keys whose public point has the requested byte pattern (done on the reference)
fn special_keys(seed: u64) -> Vec<(String, BigUint)> {
    let n = &sm2::params().n;
    let mut want: Vec<(&str, Box<dyn Fn(&[u8; 32], &[u8; 32]) -> bool>)> = vec![
        ("x-leading-zero-byte", Box::new(|x, _| x[0] == 0)),
        ("y-leading-zero-byte", Box::new(|_, y| y[0] == 0)),
        ("x-high-bit", Box::new(|x, _| x[0] & 0x80 != 0)),
        ("y-even", Box::new(|_, y| y[31] & 1 == 0)),
        ("y-odd", Box::new(|_, y| y[31] & 1 == 1)),
        ("x-trailing-zero-byte", Box::new(|x, _| x[31] == 0)),
        // coordinates that begin with a byte that is also a SEC1 tag or a DER tag
        ("x-starts-with-04", Box::new(|x, _| x[0] == 0x04)),
        ("x-starts-with-02-or-03", Box::new(|x, _| x[0] == 0x02 || x[0] == 0x03)),
        ("x-starts-with-30", Box::new(|x, _| x[0] == 0x30)),
        ("y-starts-with-04", Box::new(|_, y| y[0] == 0x04)),
    ];
    let mut out = Vec::new();
    let mut g = SplitMix::new(seed, "c19special");
    let start = g.nonzero_below(&(n - 100000u32));
    let mut pt = sm2::g_mul(&start);
    let gpt = sm2::params().g.clone();
    let mut k = start;
    let mut tries = 0;
    while !want.is_empty() && tries < 4000 {
        let (x, y) = sm2::xy_bytes(&pt);
        want.retain(|(name, f)| {
            if f(&x, &y) {
                out.push((name.to_string(), k.clone()));
                false
            } else {
                true
            }
        });
        pt = sm2::add(&pt, &gpt);
        k += 1u32;
        tries += 1;
    }
    out
}

pub fn run(ctx: &Arc<Ctx>) {
    refmodels::selftest::run(&["sm3", "sm2"]).unwrap_or_else(|e| ctx.machinery_error(format!("reference self-test failed: {}", e)));
    let n = sm2::params().n.clone();
    let pr = sm2::params();
    ctx.set_rule("keys {1,2,n-2,Annex,seeded,searched for leading/trailing zero bytes, high bit, both parities, coordinates starting with 02/03/04/30} through every encoder and decoder (SEC1 both forms, hex both cases, SPKI DER/PEM LF+CRLF, bytes, hex, PKCS#8 DER/PEM) with an independent DER reader on the library's documents, and reference-written SPKI DER / PEM documents (LF and CRLF) carrying the uncompressed and the compressed point through from_public_key_der / from_public_key_pem / str::parse; public points with the smallest x and with x within 2^64 of p (both roots), and points held as Jacobian key objects (Z in {2, p-1, seeded}), through every public-key encoder and decoder; PKCS#8 documents whose embedded public key belongs to another key or is off the curve (refused, or decoded to (d, [d]G)); 20 OpenSSL key pairs; decoder negatives: SPKI BIT STRINGs declaring 1..7 unused bits, every length 0..=130 at Sm2PublicKey::new / from_hex_string / Sm2PrivateKey::new, off-curve and unreduced coordinates, foreign tags and valid encodings followed by 256 / 65536 further bytes via new / hex / SPKI; private keys of 32 + 256k bytes; ASN.1 ciphertext for message lengths {14..30, 120..160, 250..260, 65424..65436, 65534..65537} (every DER length form and the boundaries between them) and {1,32,100} x ephemeral scalars pre-searched so that C1.x / C1.y have 1..3 leading zero bytes, trailing zero bytes or the top bit set x 4 parameter combinations: document = GM/T 0009 SEQUENCE of (C1.x, C1.y, C3, C2) byte for byte, decrypt_asn1 of it, of the reference's and of OpenSSL's documents returns M; malformed documents, and off-curve (x, y) whose body was completed on the foreign curve, are refused without a panic.");
    let mut cases: Vec<Case> = Vec::new();
    let mut g = SplitMix::new(ctx.seed, "c19");
    let mut keys: Vec<(String, BigUint)> = vec![("1".into(), BigUint::one()), ("2".into(), BigUint::from(2u32)), ("n-2".into(), &n - 2u32), ("annex".into(), hb(ANNEX_D))];
    for i in 0..4 {
        keys.push((format!("seed{}", i), g.nonzero_below(&(&n - 1u32))));
    }
    let sp = special_keys(ctx.seed);
    ctx.cov("searched_key_patterns", json!(sp.iter().map(|(n, _)| n.clone()).collect::<Vec<_>>()));
    keys.extend(sp);
    for (tag, d) in &keys {
        cases.push(Case::Key { d: hexbig(d), tag: tag.clone() });
    }
    // public points with a coordinate next to a boundary: the curve points with the smallest x and with the x closest
    // to p (both roots); and ordinary points held as Jacobian key objects
    {
        let one = hexbig(&BigUint::one());
        let mut n_small = 0;
        let mut n_big = 0;
        let mut j = BigUint::zero();
        while (n_small < 3 || n_big < 3) && j < BigUint::from(200u32) {
            for (x, is_small) in [(j.clone(), true), (&pr.p - 1u32 - &j, false)] {
                if (is_small && n_small >= 3) || (!is_small && n_big >= 3) {
                    continue;
                }
                let mut enc = vec![0x02u8];
                enc.extend_from_slice(&cand(&x));
                if let Some(Some((px, py))) = sm2::decode_point(&enc) {
                    for y in [py.clone(), &pr.p - &py] {
                        cases.push(Case::PubPoint { x: hexbig(&px), y: hexbig(&y), lambda: one.clone(), tag: (if is_small { "x-small" } else { "x-within-2^64-of-p" }).into() });
                    }
                    if is_small {
                        n_small += 1
                    } else {
                        n_big += 1
                    }
                }
            }
            j += 1u32;
        }
        ctx.cov("boundary_public_points", json!({"smallest_x": n_small, "x_closest_to_p": n_big}));
        for d in [&keys[3].1, &keys[4].1] {
            let (x, y) = sm2::g_mul(d).unwrap();
            for lam in [BigUint::from(2u32), &pr.p - 1u32, g.nonzero_below(&pr.p)] {
                cases.push(Case::PubPoint { x: hexbig(&x), y: hexbig(&y), lambda: hexbig(&lam), tag: "jacobian-key-object".into() });
            }
        }
    }
    for idx in 0..keys_corpus().len() {
        cases.push(Case::OpenSslKey { idx });
    }
    if keys_corpus().is_empty() {
        ctx.machinery_error("corpus/sm2_keys.json missing or empty");
    }
    for len in 0..=130usize {
        for (tag, fill) in [(0x04u8, 0x00u8), (0x04, 0xff), (0x02, 0x01), (0x03, 0xff), (0x00, 0x00), (0x06, 0x11)] {
            cases.push(Case::PubLen { len, tag, fill });
        }
        for fill in [0x00u8, 0x01, 0xff] {
            cases.push(Case::PrivLen { len, fill });
        }
    }
    // lengths equal to a valid length modulo 256 / 65536
    for len in [32usize + 256, 32 + 512, 32 + 65536] {
        cases.push(Case::PrivLen { len, fill: 0x01 });
    }
    for len in 0..=140usize {
        cases.push(Case::PubHexLen { len, kind: "prefix".into() });
        cases.push(Case::PubHexLen { len, kind: "nonhex".into() });
    }
    for kind in ["y+1", "y-1", "x+1", "neg-y-swapped", "zero-zero", "x>=p", "y>=p", "compressed-x>=p", "tag05", "tag00", "tag06", "compressed-nonresidue", "valid+256", "valid+65536", "compressed-valid+256"] {
        for via in ["new", "hex", "spki"] {
            for d in [&keys[3].1, &keys[4].1] {
                cases.push(Case::PubBad { d: hexbig(d), kind: kind.into(), via: via.into() });
            }
        }
    }
    // ASN.1 ciphertexts: pre-searched ephemeral scalars (validated again by the reference here)
    let c1s = c1_corpus();
    if c1s.is_empty() {
        ctx.machinery_error("corpus/sm2_c1_scalars.json missing or empty");
    }
    let mut patterns = std::collections::BTreeSet::new();
    for e in c1s.iter() {
        let k = hb(e["k"].as_str().unwrap());
        let pat = e["pattern"].as_str().unwrap().to_string();
        // re-validate the pattern with the reference
        let (x, y) = sm2::xy_bytes(&sm2::g_mul(&k));
        let lead = |b: &[u8; 32]| b.iter().take_while(|v| **v == 0).count();
        let trail = |b: &[u8; 32]| b.iter().rev().take_while(|v| **v == 0).count();
        let ok = match pat.as_str() {
            "x-lead1" => lead(&x) >= 1,
            "x-lead2" => lead(&x) >= 2,
            "x-lead3" => lead(&x) >= 3,
            "y-lead1" => lead(&y) >= 1,
            "y-lead2" => lead(&y) >= 2,
            "y-lead3" => lead(&y) >= 3,
            "x-trail1" => trail(&x) >= 1,
            "x-trail2" => trail(&x) >= 2,
            "y-trail1" => trail(&y) >= 1,
            "y-trail2" => trail(&y) >= 2,
            "x-high" => x[0] & 0x80 != 0,
            "y-high" => y[0] & 0x80 != 0,
            "x-lead1-then-high" => x[0] == 0 && x[1] & 0x80 != 0,
            "y-lead1-then-high" => y[0] == 0 && y[1] & 0x80 != 0,
            _ => false,
        };
        if !ok {
            ctx.machinery_error(format!("pre-searched scalar {} does not have pattern {}", hexbig(&k), pat));
            continue;
        }
        patterns.insert(pat.clone());
        for ml in [1usize, 32, 100] {
            for (compressed, c1c3c2) in [(false, true), (false, false), (true, true), (true, false)] {
                if ctx.tier == Tier::Quick && (compressed || !c1c3c2) && ml != 32 {
                    continue;
                }
                cases.push(Case::Asn1 { d: ANNEX_D.into(), k: hexbig(&k), msg_len: ml, compressed, c1c3c2, tag: pat.clone() });
            }
        }
    }
    ctx.cov("c1_patterns_covered", json!(patterns));
    for (kn, k) in scalar_alphabet(&n, ctx.seed, "c19k", 1) {
        cases.push(Case::Asn1 { d: hexbig(&keys[4].1), k: hexbig(&k), msg_len: 19, compressed: false, c1c3c2: true, tag: format!("k={}", kn) });
    }
    // message lengths that move the DER length fields across their encoding boundaries: OCTET STRING of 127/128 and
    // 255/256 bytes, SEQUENCE content of 127/128, 255/256 and 65535/65536 bytes (1-, 2-, 3- and 4-byte length forms)
    {
        let mut lens: Vec<usize> = (14..=30).chain(120..=160).chain(250..=260).collect();
        lens.extend((65536 - 112..=65536 - 100).chain(65534..=65537));
        if ctx.tier == Tier::Thorough {
            lens.extend([1000usize, 4096, 70000, 200000]);
        }
        let k = hb(ANNEX_K);
        for ml in lens {
            cases.push(Case::Asn1 { d: ANNEX_D.into(), k: hexbig(&k), msg_len: ml, compressed: false, c1c3c2: true, tag: "der-length-form-boundary".into() });
        }
    }
    for idx in 0..openssl_cts().len() {
        cases.push(Case::Asn1OpenSsl { idx });
    }
    for kind in ["empty", "truncated", "not-sequence", "garbage", "offcurve-y", "offcurve-completed-(1,1)", "offcurve-completed-(x,y+1)", "offcurve-completed-(x+1,y)", "x-too-long", "y-too-long", "y-33-octets-ff", "short-hash", "trailing-bytes"] {
        cases.push(Case::Asn1Bad { kind: kind.into() });
    }
    ctx.note_bound(format!("{} cases", cases.len()));
    ctx.sample(serde_json::to_value(&cases[0]).unwrap());
    ctx.sample(serde_json::to_value(cases.iter().find(|c| matches!(c, Case::Asn1 { .. })).unwrap_or(&cases[1])).unwrap());
    run_cases(ctx, &cases, 8, eval);
    crate::cold::check(ctx, "C19");
}

/// one-off build-time tool: search ephemeral scalars whose [k]G has DER-relevant byte patterns
/// (uses the library's fast arithmetic for the search; every hit is re-validated by the reference on every run)
pub fn search_c1_scalars() {
    use rayon::prelude::*;
    let pats = ["x-lead1", "x-lead2", "x-lead3", "y-lead1", "y-lead2", "y-lead3", "x-trail1", "x-trail2", "y-trail1", "y-trail2", "x-high", "y-high", "x-lead1-then-high", "y-lead1-then-high"];
    let found: std::sync::Mutex<std::collections::BTreeMap<String, Vec<String>>> = std::sync::Mutex::new(Default::default());
    let gp = lib_point_affine(&sm2::params().g);
    (0..64u64).into_par_iter().for_each(|t| {
        let mut g = SplitMix::new(0xC19, &format!("search{}", t));
        let start = g.nonzero_below(&(&sm2::params().n - (BigUint::one() << 40)));
        let mut k = start.clone();
        let mut r = lib_point_affine(&sm2::g_mul(&start));
        for _ in 0..(1u64 << 19) {
            let a = r.to_affine_point();
            let xb = cand(&from_mont(&a.x));
            let yb = cand(&from_mont(&a.y));
            let lead = |b: &[u8; 32]| b.iter().take_while(|v| **v == 0).count();
            let trail = |b: &[u8; 32]| b.iter().rev().take_while(|v| **v == 0).count();
            let mut hits: Vec<&str> = Vec::new();
            if lead(&xb) >= 1 {
                hits.push(if lead(&xb) >= 3 { "x-lead3" } else if lead(&xb) == 2 { "x-lead2" } else { "x-lead1" });
                if lead(&xb) == 1 && xb[1] & 0x80 != 0 {
                    hits.push("x-lead1-then-high");
                }
            }
            if lead(&yb) >= 1 {
                hits.push(if lead(&yb) >= 3 { "y-lead3" } else if lead(&yb) == 2 { "y-lead2" } else { "y-lead1" });
                if lead(&yb) == 1 && yb[1] & 0x80 != 0 {
                    hits.push("y-lead1-then-high");
                }
            }
            if trail(&xb) >= 1 {
                hits.push(if trail(&xb) >= 2 { "x-trail2" } else { "x-trail1" });
            }
            if trail(&yb) >= 1 {
                hits.push(if trail(&yb) >= 2 { "y-trail2" } else { "y-trail1" });
            }
            if !hits.is_empty() {
                let mut f = found.lock().unwrap();
                for h in hits {
                    let e = f.entry(h.to_string()).or_default();
                    if e.len() < 3 {
                        e.push(hexbig(&k));
                    }
                }
            }
            r = r.point_add(&gp);
            k += 1u32;
        }
    });
    let mut f = found.into_inner().unwrap();
    f.insert("x-high".into(), vec![]);
    f.insert("y-high".into(), vec![]);
    // high-bit patterns are common: take small scalars
    let mut k = BigUint::from(2u32);
    while f["x-high"].len() < 2 || f["y-high"].len() < 2 {
        let (x, y) = sm2::xy_bytes(&sm2::g_mul(&k));
        if x[0] & 0x80 != 0 && f["x-high"].len() < 2 {
            f.get_mut("x-high").unwrap().push(hexbig(&k));
        }
        if y[0] & 0x80 != 0 && f["y-high"].len() < 2 {
            f.get_mut("y-high").unwrap().push(hexbig(&k));
        }
        k += 1u32;
    }
    let mut out = Vec::new();
    for p in pats {
        for k in f.get(p).cloned().unwrap_or_default() {
            out.push(json!({"pattern": p, "k": k}));
        }
        eprintln!("{}: {}", p, f.get(p).map(|v| v.len()).unwrap_or(0));
    }
    std::fs::write(format!("{}/corpus/sm2_c1_scalars.json", VERIF_ROOT), serde_json::to_string_pretty(&out).unwrap()).unwrap();
}
