//! C20 — untrusted input never crashes or hangs an entry point (E2 in watched child processes)
use crate::alpha::*;
use crate::engine::*;
use crate::sm2api as a2;
use crate::sm9api as a9;
use gm_sm2::key::{Sm2Model, Sm2PrivateKey, Sm2PublicKey};
use gm_sm4::{CipherMode, Sm4Cipher, Sm4CipherMode};
use num_bigint::BigUint;
use num_traits::{One, Zero};
use pkcs8::{DecodePrivateKey, DecodePublicKey, EncodePrivateKey, EncodePublicKey, LineEnding};
use refmodels::util::{hexbig as hb, SplitMix};
use refmodels::{der, sm2, sm4, sm9};
use serde::{Deserialize, Serialize};
use serde_json::{json, Value};
use std::io::{BufRead, BufReader, Write};
use std::process::{Command, Stdio};
use std::sync::mpsc;
use std::sync::{Arc, OnceLock};
use std::time::Duration;

#[derive(Serialize, Deserialize, Clone, Debug)]
pub struct Case {
    pub entry: String,
    /// input bytes (hex); for string-typed entry points the bytes are the UTF-8 text
    pub data: String,
    /// family of the input (class of a violation)
    pub family: String,
}

#[derive(Debug, Clone, PartialEq)]
pub enum Outcome {
    Ok,
    Err,
    Panic(String),
    Timeout,
    Abort,
}

struct Fixtures {
    d: BigUint,
    /// (carried in `Xfer`: the fixtures sit in a process-wide OnceLock, and a key type that stops being `Sync` must not
    /// stop the harness from building; each process uses them from one thread at a time)
    pk: Xfer<Sm2PublicKey>,
    sk: Xfer<Sm2PrivateKey>,
    sig: Vec<u8>,
    msg: Vec<u8>,
    cts: Vec<(bool, bool, Vec<u8>)>,
    asn1: Vec<u8>,
    pub65: Vec<u8>,
    pub33: Vec<u8>,
    spki_der: Vec<u8>,
    spki_pem: String,
    pkcs8_der: Vec<u8>,
    pkcs8_pem: String,
    sm4_key: [u8; 16],
    mode_cts: Vec<(String, Vec<u8>)>,
    sm9_ct: Vec<u8>,
    /// further valid SM9 ciphertexts whose C2 length is a multiple of 32 (KDF length on a block boundary)
    sm9_cts_aligned: Vec<Vec<u8>>,
    /// valid SM2 ciphertexts of a 32-byte message, per (order, encoding)
    cts32: Vec<(bool, bool, Vec<u8>)>,
    sm9_key: gm_sm9::key::Sm9EncKey,
    sm9_msk: gm_sm9::key::Sm9SignMasterKey,
    sm9_sig: Vec<u8>,
}

fn fx() -> &'static Fixtures {
    static F: OnceLock<Fixtures> = OnceLock::new();
    F.get_or_init(|| {
        let d = hb(ANNEX_D);
        let k = hb(ANNEX_K);
        let pkr = sm2::g_mul(&d);
        let msg = b"untrusted input".to_vec();
        let e = sm2::digest_e(sm2::DEFAULT_ID, &pkr, &msg);
        let (r, s) = sm2::sign_with_k(&d, &e, &k).unwrap();
        let mut sig = a2::cand(&r).to_vec();
        sig.extend_from_slice(&a2::cand(&s));
        let ct = sm2::encrypt_with_k(&pkr, b"twenty byte message!", &k).unwrap();
        let mut cts = Vec::new();
        for o in [false, true] {
            for c in [false, true] {
                cts.push((o, c, ct.encode(o, c)));
            }
        }
        let ct32 = sm2::encrypt_with_k(&pkr, &[0x5au8; 32], &k).unwrap();
        let mut cts32 = Vec::new();
        for o in [false, true] {
            for c in [false, true] {
                cts32.push((o, c, ct32.encode(o, c)));
            }
        }
        let (cx, cy) = ct.c1.clone().unwrap();
        let asn1 = der::sm2_cipher_encode(&cx, &cy, &ct.c3, &ct.c2);
        let pk = a2::public_key(&pkr);
        let sk = a2::private_key(&d);
        let spki_der = pk.to_public_key_der().unwrap().as_bytes().to_vec();
        let spki_pem = pk.to_public_key_pem(LineEnding::LF).unwrap();
        let pkcs8_der = sk.to_pkcs8_der().unwrap().as_bytes().to_vec();
        let pkcs8_pem = sk.to_pkcs8_pem(LineEnding::LF).unwrap().to_string();
        let sm4_key: [u8; 16] = hex::decode("0123456789abcdeffedcba9876543210").unwrap().try_into().unwrap();
        let iv = [0x11u8; 16];
        let data = [0x42u8; 40];
        let mode_cts = vec![
            ("cbc".to_string(), sm4::cbc_encrypt(&sm4_key, &iv, &data)),
            ("cfb".to_string(), sm4::cfb_encrypt(&sm4_key, &iv, &data)),
            ("ofb".to_string(), sm4::ofb_crypt(&sm4_key, &iv, &data)),
            ("ctr".to_string(), sm4::ctr_crypt(&sm4_key, &iv, &data)),
        ];
        // SM9 fixtures from the reference
        let pr = sm9::params();
        let ke = hb(crate::c10::ANNEX_KE);
        let ppube = sm9::g1_mul(&ke, &pr.p1);
        let g = sm9::enc_g(&ppube);
        let ct9 = sm9::encrypt_with_r(&g, &ppube, b"Bob", b"Chinese IBE standard", &hb(crate::c10::ANNEX_R)).unwrap();
        let sm9_cts_aligned: Vec<Vec<u8>> = [32usize, 64].iter().map(|l| sm9::encrypt_with_r(&g, &ppube, b"Bob", &vec![0x42u8; *l], &hb(crate::c10::ANNEX_R)).unwrap().encode()).collect();
        let de = sm9::extract_enc_key(&ke, b"Bob", sm9::HID_ENC).unwrap();
        let sm9_key = gm_sm9::key::Sm9EncKey { ppube: a9::lib_g1_affine(&ppube), de: a9::lib_g2_affine(&de) };
        let ks = hb(crate::c09::ANNEX_KS);
        let ppubs = sm9::g2_mul(&ks, &pr.p2);
        let gs = sm9::sign_g(&ppubs);
        let ds = sm9::extract_sign_key(&ks, b"Alice").unwrap();
        let (h, s9) = sm9::sign_with_r(&gs, &ds, b"Chinese IBS standard", &hb(crate::c09::ANNEX_R)).unwrap();
        let mut sm9_sig = a9::cand(&h).to_vec();
        sm9_sig.extend_from_slice(&sm9::g1_bytes(&s9));
        let sm9_msk = gm_sm9::key::Sm9SignMasterKey { ks: refmodels::util::to_limbs(&ks), ppubs: a9::lib_g2_affine(&ppubs) };
        Fixtures { d, pk: Xfer::new(pk), sk: Xfer::new(sk), sig, msg, cts, asn1, pub65: sm2::encode_point(&pkr, false), pub33: sm2::encode_point(&pkr, true), spki_der, spki_pem, pkcs8_der, pkcs8_pem, sm4_key, mode_cts, sm9_ct: ct9.encode(), sm9_cts_aligned, cts32, sm9_key, sm9_msk, sm9_sig }
    })
}

fn mode_of(m: &str) -> CipherMode {
    match m {
        "cbc" => CipherMode::Cbc,
        "cfb" => CipherMode::Cfb,
        "ofb" => CipherMode::Ofb,
        _ => CipherMode::Ctr,
    }
}

fn okerr<T, E>(r: Result<T, E>) -> Outcome {
    if r.is_ok() {
        Outcome::Ok
    } else {
        Outcome::Err
    }
}

/// one call into the library with untrusted `data`; panics are caught by the caller
fn call(entry: &str, data: &[u8]) -> Outcome {
    let f = fx();
    let text = String::from_utf8_lossy(data).to_string();
    let parts: Vec<&str> = entry.split('/').collect();
    match parts[0] {
        "sm2.verify" => okerr(f.pk.get().verify(None, &f.msg, data)),
        "sm2.verify.msg" => okerr(f.pk.get().verify(None, data, &f.sig)),
        "sm2.decrypt" => okerr(f.sk.get().decrypt(data, parts[2] == "compressed", if parts[1] == "C1C3C2" { Sm2Model::C1C3C2 } else { Sm2Model::C1C2C3 })),
        "sm2.decrypt_asn1" => okerr(f.sk.get().decrypt_asn1(data, false, Sm2Model::C1C3C2)),
        "sm2.pub.new" => okerr(Sm2PublicKey::new(data)),
        "sm2.pub.from_hex" => okerr(Sm2PublicKey::from_hex_string(&text)),
        "sm2.pub.spki_der" => okerr(Sm2PublicKey::from_public_key_der(data)),
        "sm2.pub.spki_pem" => okerr(Sm2PublicKey::from_public_key_pem(&text)),
        "sm2.pub.parse" => okerr(text.parse::<Sm2PublicKey>()),
        "sm2.priv.new" => okerr(Sm2PrivateKey::new(data)),
        "sm2.priv.from_hex" => okerr(Sm2PrivateKey::from_hex_string(&text)),
        "sm2.priv.pkcs8_der" => okerr(Sm2PrivateKey::from_pkcs8_der(data)),
        "sm2.priv.pkcs8_pem" => okerr(Sm2PrivateKey::from_pkcs8_pem(&text)),
        "sm2.kdf" => {
            // klen derived from the input so that 0 and block multiples occur
            let klen = data.iter().map(|b| *b as usize).sum::<usize>() % 97;
            let _ = gm_sm2::util::kdf(data, klen);
            Outcome::Ok
        }
        "sm2.keyops" => {
            // signing / encrypting / decrypting / key agreement with any key the constructor accepted must terminate
            match Sm2PrivateKey::new(data) {
                Err(_) => Outcome::Err,
                Ok(sk) => {
                    let pk = sk.public_key;
                    let sig = sk.sign(None, b"keyops");
                    if let Ok(sig) = &sig {
                        let _ = pk.verify(None, b"keyops", sig);
                    }
                    if let Ok(ct) = pk.encrypt(b"keyops", false, Sm2Model::C1C3C2) {
                        let _ = sk.decrypt(&ct, false, Sm2Model::C1C3C2);
                    }
                    // message lengths on the KDF block boundary, and the compressed / other-order forms
                    // the empty message has no ciphertext: an error, not a panic
                    let _ = pk.encrypt(b"", false, Sm2Model::C1C3C2);
                    let _ = pk.encrypt_asn1(b"", true, Sm2Model::C1C2C3);
                    let _ = sk.sign(Some(""), b"");
                    for l in [1usize, 32, 64] {
                        if let Ok(ct) = pk.encrypt(&vec![0x61u8; l], true, Sm2Model::C1C2C3) {
                            let _ = sk.decrypt(&ct, true, Sm2Model::C1C2C3);
                        }
                    }
                    if let (Ok(mut a), Ok(mut b)) = (gm_sm2::exchange::Exchange::new(16, None, &pk, &sk, None, f.pk.get()), gm_sm2::exchange::Exchange::new(16, None, f.pk.get(), f.sk.get(), None, &pk)) {
                        if let Ok(ra) = a.exchange_1() {
                            if let Ok((rb, sb)) = b.exchange_2(&ra) {
                                if let Ok(sa) = a.exchange_3(&rb, sb) {
                                    let _ = b.exchange_4(sa, &ra);
                                }
                            }
                        }
                    }
                    Outcome::Ok
                }
            }
        }
        "sm4.new" => okerr(Sm4Cipher::new(data)),
        "sm4.block.encrypt" => okerr(Sm4Cipher::new(&f.sm4_key).and_then(|c| c.encrypt(data))),
        "sm4.block.decrypt" => okerr(Sm4Cipher::new(&f.sm4_key).and_then(|c| c.decrypt(data))),
        "sm4.mode.new" => okerr(Sm4CipherMode::new(data, CipherMode::Cbc)),
        "sm4.mode.decrypt" => okerr(Sm4CipherMode::new(&f.sm4_key, mode_of(parts[1])).and_then(|m| m.decrypt(data, &[0x11u8; 16]))),
        "sm4.mode.encrypt" => okerr(Sm4CipherMode::new(&f.sm4_key, mode_of(parts[1])).and_then(|m| m.encrypt(data, &[0x11u8; 16]))),
        "sm4.mode.decrypt.iv" => okerr(Sm4CipherMode::new(&f.sm4_key, mode_of(parts[1])).and_then(|m| m.decrypt(&[0x42u8; 32], data))),
        "sm4.mode.encrypt.iv" => okerr(Sm4CipherMode::new(&f.sm4_key, mode_of(parts[1])).and_then(|m| m.encrypt(&[0x42u8; 33], data))),
        "sm9.decrypt" => okerr(f.sm9_key.decrypt(b"Bob", data)),
        // data = the identity: identities of every length through decryption, verification and the three extractions
        "sm9.decrypt.id" => okerr(f.sm9_key.decrypt(data, &f.sm9_ct)),
        "sm9.verify.id" => {
            let h = refmodels::util::to_limbs(&refmodels::util::from_be(&f.sm9_sig[..32]));
            let s = gm_sm9::verif::point_from_bytes(&{ let mut b = vec![4u8]; b.extend_from_slice(&f.sm9_sig[32..96]); b });
            okerr(f.sm9_msk.verify_sign(data, b"Chinese IBS standard", &h, &s))
        }
        "sm9.extract.id" => {
            let ke = hb(crate::c10::ANNEX_KE);
            let msk = gm_sm9::key::Sm9EncMasterKey { ke: refmodels::util::to_limbs(&ke), ppube: f.sm9_key.ppube };
            let _ = f.sm9_msk.extract_key(data);
            let _ = msk.extract_key(data);
            let _ = msk.extract_exch_key(data);
            Outcome::Ok
        }
        "sm2.verify.id" => {
            // IDs are &'static str: the bytes are mapped to printable ASCII; the length is what is being swept
            let id: String = data.iter().map(|b| (b'!' + b % 90) as char).collect();
            okerr(f.pk.get().verify(Some(a2::static_id(&id)), &f.msg, &f.sig))
        }
        "sm9.verify" => {
            // data = h (32) || S.x (32) || S.y (32), zero padded; parts[1] selects the representation of S
            let mut b = data.to_vec();
            b.resize(96, 0);
            let h = refmodels::util::to_limbs(&refmodels::util::from_be(&b[..32]));
            let p = &sm9::params().p;
            let (x, y) = (refmodels::util::from_be(&b[32..64]) % p, refmodels::util::from_be(&b[64..96]) % p);
            let s = match parts.get(1).copied() {
                Some("infinity") => a9::lib_g1(&None, &BigUint::one()),
                Some("jacobian") => {
                    let mut q = a9::lib_g1_raw(&x, &y);
                    q.z = a9::to_mont(&BigUint::from(7u32));
                    q
                }
                _ => a9::lib_g1_raw(&x, &y),
            };
            okerr(f.sm9_msk.verify_sign(b"Alice", b"Chinese IBS standard", &h, &s))
        }
        "zuc.new.key" => {
            let _ = gm_zuc::ZUC::new(data, &[0x5au8; 16]).generate_keystream(2);
            Outcome::Ok
        }
        "zuc.new.iv" => {
            let _ = gm_zuc::ZUC::new(&[0x5au8; 16], data).generate_keystream(2);
            Outcome::Ok
        }
        "zuc.eea.new" => {
            let _ = gm_zuc::eea::EEA::new(data, 0x66035492, 0xf, 0).encrypt(&[0u32; 4], 100);
            Outcome::Ok
        }
        "zuc.eia.new" => {
            let _ = gm_zuc::eia::EIA::new(data, 0x66035492, 0xf, 0).gen_mac(&[0u32; 4], 100);
            Outcome::Ok
        }
        "zuc.eea.encrypt.buffer" | "zuc.eia.gen_mac.buffer" => {
            // LENGTH = 200 bits (7 words); the buffer holds len/4 words
            let words: Vec<u32> = data.chunks(4).filter(|c| c.len() == 4).map(|c| u32::from_be_bytes(c.try_into().unwrap())).collect();
            if parts[0] == "zuc.eea.encrypt.buffer" {
                let _ = gm_zuc::eea::EEA::new(&[0x5au8; 16], 1, 2, 1).encrypt(&words, 200);
            } else {
                let _ = gm_zuc::eia::EIA::new(&[0x5au8; 16], 1, 2, 1).gen_mac(&words, 200);
            }
            Outcome::Ok
        }
        "sm9.ops" => {
            // encrypting / signing / exchanging with valid SM9 keys terminates for every message and key length
            // (data = message; its length also serves as klen)
            let pr = sm9::params();
            let ke = hb(crate::c10::ANNEX_KE);
            let ppube = sm9::g1_mul(&ke, &pr.p1);
            let msk = gm_sm9::key::Sm9EncMasterKey { ke: refmodels::util::to_limbs(&ke), ppube: a9::lib_g1_affine(&ppube) };
            if !data.is_empty() && data.len() <= 255 {
                let ct = msk.encrypt(b"Bob", data);
                let _ = f.sm9_key.decrypt(b"Bob", &ct);
            }
            if let Some(k) = f.sm9_msk.extract_key(b"Alice") {
                if let Ok((h, s)) = k.sign(data) {
                    let _ = f.sm9_msk.verify_sign(b"Alice", data, &h, &s);
                }
            }
            if let (Some(ka), Some(kb)) = (msk.extract_exch_key(b"Alice"), msk.extract_exch_key(b"Bob")) {
                let klen = data.len().max(1);
                let (ra, ra_) = gm_sm9::key::exch_step_1a(&msk, b"Bob");
                if let Ok((rb, _)) = gm_sm9::key::exch_step_1b(&msk, b"Alice", b"Bob", &kb, &ra, klen) {
                    let _ = gm_sm9::key::exch_step_2a(&msk, b"Alice", b"Bob", &ka, ra_, &ra, &rb, klen);
                }
            }
            Outcome::Ok
        }
        "sm9.mod_n_from_hash" => {
            let _ = gm_sm9::fields::mod_n_from_hash(data);
            Outcome::Ok
        }
        _ => panic!("unknown entry {}", entry),
    }
}

fn run_guarded(c: &Case) -> Outcome {
    let data = hex::decode(&c.data).unwrap();
    match guard(|| call(&c.entry, &data)) {
        Guard::Done(o) => o,
        Guard::Panic(p) => Outcome::Panic(p),
    }
}

fn length_class(len: usize, valid: &[usize]) -> String {
    if len == 0 {
        "empty".into()
    } else if valid.contains(&len) {
        "nominal-length".into()
    } else if valid.iter().all(|v| len < *v) {
        "shorter".into()
    } else {
        "other-length".into()
    }
}

fn record(ctx: &Ctx, c: &Case, o: &Outcome) {
    ctx.trace();
    let cj = || serde_json::to_value(c).unwrap();
    match o {
        Outcome::Ok => ctx.outcome(&format!("ok/{}", c.entry)),
        Outcome::Err => ctx.outcome(&format!("err/{}", c.entry)),
        // the class names the entry point's input family, not the panic location: a known finding must not be
        // re-keyed by a refactoring that moves the panic to another file
        Outcome::Panic(p) => ctx.violation(&c.entry, &format!("panic/{}", c.family), format!("len={} data={} {}", c.data.len() / 2, truncate(&c.data, 80), p), cj()),
        Outcome::Timeout => ctx.violation(&c.entry, &format!("does-not-terminate/{}", c.family), format!("no result within the watchdog limit; data={}", truncate(&c.data, 80)), cj()),
        Outcome::Abort => ctx.violation(&c.entry, &format!("process-abort/{}", c.family), format!("child process died; data={}", truncate(&c.data, 80)), cj()),
    }
}

/// replay in a child process of its own (a stack overflow or an abort inside the library must not take the
/// replaying process with it), under the same wall-clock watchdog as the exploration
pub fn replay(ctx: &Arc<Ctx>, v: &Value) {
    let c: Case = serde_json::from_value(v.clone()).expect("C20 case");
    ctx.state();
    ctx.call();
    let exe = std::env::current_exe().expect("current exe");
    let mut child = match Command::new(&exe).arg("c20case").stdin(Stdio::piped()).stdout(Stdio::piped()).stderr(Stdio::null()).spawn() {
        Ok(c) => c,
        Err(e) => {
            ctx.machinery_error(format!("cannot spawn child: {}", e));
            return;
        }
    };
    {
        let mut si = child.stdin.take().unwrap();
        let _ = si.write_all(serde_json::to_string(&c).unwrap().as_bytes());
    }
    let stdout = child.stdout.take().unwrap();
    let (tx, rx) = mpsc::channel::<String>();
    std::thread::spawn(move || {
        let mut s = String::new();
        let _ = std::io::Read::read_to_string(&mut BufReader::new(stdout), &mut s);
        let _ = tx.send(s);
    });
    let o = match rx.recv_timeout(Duration::from_secs(20)) {
        Ok(s) => match serde_json::from_str::<Value>(s.trim()) {
            Ok(v) => match v["o"].as_str() {
                Some("ok") => Outcome::Ok,
                Some("err") => Outcome::Err,
                _ => Outcome::Panic(v["msg"].as_str().unwrap_or("").to_string()),
            },
            Err(_) => Outcome::Abort,
        },
        Err(_) => {
            let _ = child.kill();
            Outcome::Timeout
        }
    };
    let _ = child.wait();
    record(ctx, &c, &o);
}

/// child mode for one case given as JSON on stdin
pub fn case_main() {
    let mut s = String::new();
    let _ = std::io::Read::read_to_string(&mut std::io::stdin(), &mut s);
    let c: Case = serde_json::from_str(&s).expect("C20 case");
    let line = match run_guarded(&c) {
        Outcome::Ok => json!({"o": "ok"}),
        Outcome::Err => json!({"o": "err"}),
        Outcome::Panic(p) => json!({"o": "panic", "msg": p}),
        _ => unreachable!(),
    };
    println!("{}", line);
}

fn cases(tier: Tier, seed: u64) -> Vec<Case> {
    let f = fx();
    let mut v: Vec<Case> = Vec::new();
    let mut g = SplitMix::new(seed, "c20");
    let push = |v: &mut Vec<Case>, entry: &str, data: &[u8], family: String| v.push(Case { entry: entry.to_string(), data: hex::encode(data), family });
    // (entry, valid encodings, max sweep length)
    let mut table: Vec<(String, Vec<Vec<u8>>, usize)> = vec![
        ("sm2.verify".into(), vec![f.sig.clone()], 200),
        ("sm2.verify.msg".into(), vec![f.msg.clone()], 200),
        ("sm2.decrypt_asn1".into(), vec![f.asn1.clone()], 200),
        ("sm2.pub.new".into(), vec![f.pub65.clone(), f.pub33.clone()], 200),
        ("sm2.pub.spki_der".into(), vec![f.spki_der.clone()], 200),
        ("sm2.priv.new".into(), vec![a2::cand(&f.d).to_vec()], 200),
        ("sm2.priv.pkcs8_der".into(), vec![f.pkcs8_der.clone()], 200),
        ("sm2.kdf".into(), vec![vec![7u8; 64]], 200),
        ("sm4.new".into(), vec![f.sm4_key.to_vec()], 200),
        ("sm4.block.encrypt".into(), vec![vec![0x33u8; 16]], 200),
        ("sm4.block.decrypt".into(), vec![vec![0x33u8; 16]], 200),
        ("sm4.mode.new".into(), vec![f.sm4_key.to_vec()], 200),
        ("sm9.decrypt".into(), { let mut v = vec![f.sm9_ct.clone()]; v.extend(f.sm9_cts_aligned.iter().cloned()); v }, 400),
        ("sm9.mod_n_from_hash".into(), vec![vec![0xabu8; 40]], 200),
        ("sm9.decrypt.id".into(), vec![b"Bob".to_vec()], 300),
        ("sm9.verify.id".into(), vec![b"Alice".to_vec()], 300),
        ("sm9.extract.id".into(), vec![b"Alice".to_vec()], 300),
        ("sm2.verify.id".into(), vec![b"1234567812345678".to_vec()], 300),
        ("zuc.new.key".into(), vec![vec![0x3du8; 16]], 40),
        ("zuc.new.iv".into(), vec![vec![0x84u8; 16]], 40),
        ("zuc.eea.new".into(), vec![vec![0x17u8; 16]], 40),
        ("zuc.eia.new".into(), vec![vec![0xc9u8; 16]], 40),
        ("zuc.eea.encrypt.buffer".into(), vec![vec![0x6cu8; 28]], 60),
        ("zuc.eia.gen_mac.buffer".into(), vec![vec![0x98u8; 28]], 60),
    ];
    for (i, (o, c, ct)) in f.cts.iter().enumerate() {
        table.push((format!("sm2.decrypt/{}/{}", if *o { "C1C3C2" } else { "C1C2C3" }, if *c { "compressed" } else { "uncompressed" }), vec![ct.clone(), f.cts32[i].2.clone()], 200));
    }
    for (m, ct) in &f.mode_cts {
        table.push((format!("sm4.mode.decrypt/{}", m), vec![ct.clone()], 200));
        table.push((format!("sm4.mode.decrypt.iv/{}", m), vec![vec![0x11u8; 16]], 40));
        table.push((format!("sm4.mode.encrypt.iv/{}", m), vec![vec![0x11u8; 16]], 40));
    }
    // long inputs (64 KiB + 16, 1 MiB + 16, 4 MiB + 21 bytes) through mode decryption and encryption, block decryption of the
    // modes' raw data path and SM2 verification's message: a per-block recursion or a quadratic copy shows as abort / time-out
    for (m, _) in &f.mode_cts {
        for len in [65536usize + 16, (1 << 20) + 16, (1 << 22) + 21] {
            let data: Vec<u8> = (0..len).map(|i| (i as u8).wrapping_mul(31).wrapping_add(7)).collect();
            push(&mut v, &format!("sm4.mode.decrypt/{}", m), &data, "long-input".into());
            push(&mut v, &format!("sm4.mode.encrypt/{}", m), &data, "long-input".into());
        }
    }
    push(&mut v, "sm2.verify.msg", &vec![0x5au8; (1 << 22) + 21], "long-input".into());
    // SM9 operations with valid keys over message / key lengths on and next to the KDF block boundary
    for l in [1usize, 31, 32, 33, 64, 96, 128, 255] {
        push(&mut v, "sm9.ops", &vec![0x61u8; l], "operations-with-valid-keys".into());
    }
    for (entry, valids, maxlen) in &table {
        let vlens: Vec<usize> = valids.iter().map(|x| x.len()).collect();
        let step = if entry.starts_with("sm9.decrypt") && tier == Tier::Quick { 1 } else { 1 };
        for len in (0..=*maxlen).step_by(step) {
            for (fname, fill) in [("00", Some(0x00u8)), ("ff", Some(0xffu8)), ("seed", None)] {
                let data = match fill {
                    Some(b) => vec![b; len],
                    None => g.bytes(len),
                };
                push(&mut v, entry, &data, { let _ = fname; format!("sweep/{}", length_class(len, &vlens)) });
            }
        }
        // point-carrying inputs: every length under every SEC1 tag byte (the form the tag announces need
        // not be the form the caller's flag announces), and the valid encodings of the sibling entries
        if entry.starts_with("sm2.decrypt/") || entry == "sm2.pub.new" {
            for lead in [0x02u8, 0x03, 0x04, 0x06, 0x07] {
                for len in 1..=*maxlen {
                    for fill in [Some(0x00u8), Some(0xffu8), None] {
                        let mut data = match fill {
                            Some(b) => vec![b; len],
                            None => g.bytes(len),
                        };
                        data[0] = lead;
                        push(&mut v, entry, &data, format!("sweep-under-point-tag/{}", length_class(len, &vlens)));
                    }
                }
            }
        }
        if entry.starts_with("sm2.decrypt/") {
            for (e2, valids2, _) in &table {
                if e2.starts_with("sm2.decrypt/") && e2 != entry {
                    for valid in valids2 {
                        push(&mut v, entry, valid, "valid-for-another-form".into());
                        for t in 0..valid.len() {
                            push(&mut v, entry, &valid[..t], "truncation-of-valid-for-another-form".into());
                        }
                    }
                }
            }
        }
        for valid in valids {
            push(&mut v, entry, valid, "valid".into());
            for t in 0..valid.len() {
                push(&mut v, entry, &valid[..t], "truncation-of-valid".into());
            }
            let stride = if valid.len() > 160 && tier == Tier::Quick { 2 } else { 1 };
            for pos in (0..valid.len()).step_by(stride) {
                for (kname, kind) in [("xor01", 0u8), ("xor80", 1), ("set00", 2), ("setff", 3)] {
                    let mut m = valid.clone();
                    m[pos] = match kind {
                        0 => m[pos] ^ 0x01,
                        1 => m[pos] ^ 0x80,
                        2 => 0x00,
                        _ => 0xff,
                    };
                    push(&mut v, entry, &m, format!("byte-corruption-{}", kname));
                }
            }
            let mut ext = valid.clone();
            ext.extend_from_slice(&[0u8; 7]);
            push(&mut v, entry, &ext, "valid-plus-trailing-bytes".into());
        }
    }
    // PKCS#8 documents, well formed, whose privateKey OCTET STRING has every length 0..=40 and a few beyond (with and without
    // the embedded public key): only 32 bytes (or fewer, if the decoder pads) can be a key, the rest must be an Err
    for len in (0..=40usize).chain([48, 64, 127, 128, 255, 256]) {
        for with_pub in [false, true] {
            let dbytes: Vec<u8> = (0..len).map(|i| (i as u8).wrapping_mul(37).wrapping_add(1)).collect();
            let doc = refmodels::der::pkcs8_encode(&dbytes, if with_pub { Some(&f.pub65) } else { None }, true);
            push(&mut v, "sm2.priv.pkcs8_der", &doc, format!("well-formed-document/private-key-of-{}-bytes", if len == 32 { "32" } else if len < 32 { "fewer-than-32" } else { "more-than-32" }));
        }
    }
    // string-typed decoders: hex and PEM
    let hex_valids: Vec<(String, String)> = vec![("sm2.pub.from_hex".into(), hex::encode(&f.pub65)), ("sm2.pub.from_hex".into(), hex::encode(&f.pub33)), ("sm2.priv.from_hex".into(), a2::hexbig(&f.d))];
    for (entry, hv) in &hex_valids {
        for len in 0..=140usize {
            let s: String = hv.chars().cycle().take(len).collect();
            push(&mut v, entry, s.as_bytes(), format!("hex-length-sweep/{}", if len % 2 == 1 { "odd" } else { "even" }));
        }
        for pos in 0..hv.len() {
            for ch in ["g", "Z", " ", "\u{00e9}"] {
                let mut s = hv.clone();
                s.replace_range(pos..pos + 1, ch);
                push(&mut v, entry, s.as_bytes(), "non-hex-character".into());
            }
        }
        push(&mut v, entry, hv.to_uppercase().as_bytes(), "valid".into());
    }
    for (entry, pem) in [("sm2.pub.spki_pem", &f.spki_pem), ("sm2.pub.parse", &f.spki_pem), ("sm2.priv.pkcs8_pem", &f.pkcs8_pem)] {
        push(&mut v, entry, pem.as_bytes(), "valid".into());
        // the document's lines rearranged: every permutation, every line dropped / doubled, the armour lines
        // fused, stray armour lines and text around an intact document, CRLF and blank-padded variants
        {
            let lines: Vec<&str> = pem.lines().collect();
            let (bl, el) = (lines[0], lines[lines.len() - 1]);
            for perm in crate::engine::permutations(&(0..lines.len()).collect::<Vec<usize>>()) {
                let t: String = perm.iter().map(|&i| format!("{}\n", lines[i])).collect();
                push(&mut v, entry, t.as_bytes(), "pem-lines-permuted".into());
            }
            for i in 0..lines.len() {
                let dropped: String = lines.iter().enumerate().filter(|(j, _)| *j != i).map(|(_, l)| format!("{}\n", l)).collect();
                push(&mut v, entry, dropped.as_bytes(), "pem-line-dropped".into());
                let doubled: String = lines.iter().enumerate().flat_map(|(j, l)| if j == i { vec![*l, *l] } else { vec![*l] }).map(|l| format!("{}\n", l)).collect();
                push(&mut v, entry, doubled.as_bytes(), "pem-line-doubled".into());
            }
            let body: String = lines[1..lines.len() - 1].concat();
            for (fam, t) in [
                ("pem-armour-fused", format!("{}{}", bl, &el[5..])),
                ("pem-armour-fused", format!("{}{}", bl, el)),
                ("pem-armour-fused", format!("{}\n{}\n", bl, el)),
                ("pem-single-line", format!("{}{}{}", bl, body, el)),
                ("pem-stray-armour", format!("{}\n{}", el, pem)),
                ("pem-stray-armour", format!("{}\n{}", bl, pem)),
                ("pem-stray-armour", format!("{}{}\n", pem, bl)),
                ("pem-stray-armour", format!("{}{}\n", pem, el)),
                ("pem-text-around", format!("my key ({} ... {}):\n{}thanks\n", bl, el, pem)),
                ("pem-text-around", format!("key follows\n\n{}\n-- \nsignature\n", pem)),
                ("pem-crlf", pem.replace('\n', "\r\n")),
                ("pem-blank-padded", format!("  \n\t{}  \n", pem.replace('\n', " \n"))),
                ("pem-twice", format!("{}{}", pem, pem)),
                ("pem-body-only", format!("{}\n", body)),
                ("pem-dashes-only", "-----".to_string()),
                ("pem-dashes-only", "-----BEGIN -----\n-----END -----\n".to_string()),
            ] {
                push(&mut v, entry, t.as_bytes(), fam.into());
            }
        }
        let b = pem.as_bytes();
        for t in 0..b.len() {
            push(&mut v, entry, &b[..t], "truncation-of-valid".into());
        }
        for pos in 0..b.len() {
            for (kname, val) in [("xor01", b[pos] ^ 1), ("set00", 0u8), ("setff", 0xffu8), ("newline", b'\n')] {
                let mut m = b.to_vec();
                m[pos] = val;
                push(&mut v, entry, &m, format!("byte-corruption-{}", kname));
            }
        }
        // the right armour around a wrong body
        let other = if entry.contains("pub") { &f.pkcs8_pem } else { &f.spki_pem };
        push(&mut v, entry, other.as_bytes(), "other-document-type".into());
    }
    // SM9 verification: h and S from bytes
    {
        let valid = f.sm9_sig.clone();
        push(&mut v, "sm9.verify", &valid, "valid".into());
        for rep in ["", "/infinity", "/jacobian"] {
            let entry = format!("sm9.verify{}", rep);
            for fillname in ["00", "ff", "seed"] {
                let data = match fillname {
                    "00" => vec![0u8; 96],
                    "ff" => vec![0xffu8; 96],
                    _ => g.bytes(96),
                };
                push(&mut v, &entry, &data, format!("fill-{}", fillname));
            }
            let stride = if tier == Tier::Quick && !rep.is_empty() { 8 } else { 1 };
            for pos in (0..96).step_by(stride) {
                for (kname, kind) in [("xor01", 0u8), ("xor80", 1), ("set00", 2), ("setff", 3)] {
                    let mut m = valid.clone();
                    m[pos] = match kind {
                        0 => m[pos] ^ 0x01,
                        1 => m[pos] ^ 0x80,
                        2 => 0x00,
                        _ => 0xff,
                    };
                    push(&mut v, &entry, &m, format!("byte-corruption-{}/{}", kname, if pos < 32 { "h" } else { "S" }));
                }
            }
        }
        let n = &sm9::params().n;
        for (name, hv) in [("h=0", BigUint::zero()), ("h=N-1", n - 1u32), ("h=N", n.clone()), ("h=2^256-1", (BigUint::one() << 256usize) - 1u32)] {
            let mut m = valid.clone();
            m[..32].copy_from_slice(&a9::cand(&hv));
            push(&mut v, "sm9.verify", &m, name.into());
        }
    }
    // SM2 signatures whose verification point [s]G + [r+s]P is the point at infinity (affine conversion of O)
    {
        let n = &sm2::params().n;
        let dinv = f.d.modpow(&(n - 2u32), n);
        for sv in [BigUint::one(), BigUint::from(2u32), n - 1u32, g.nonzero_below(n)] {
            let t = (n - (&sv * &dinv) % n) % n;
            let rv = (&t + n - &sv) % n;
            let mut sig = a2::cand(&rv).to_vec();
            sig.extend_from_slice(&a2::cand(&sv));
            push(&mut v, "sm2.verify", &sig, "verification-point-is-infinity".into());
        }
    }
    // hash-to-range inputs on and next to multiples of N-1 (the correction path of the quotient estimate)
    {
        let n9 = &sm9::params().n;
        let nm1 = n9 - 1u32;
        let two320: BigUint = BigUint::one() << 320usize;
        let qmax = (&two320 - 1u32) / &nm1;
        for q in [BigUint::one(), BigUint::from(2u32), (BigUint::one() << 64usize) + 7u32, qmax.clone(), &qmax - 1u32, g.below(&qmax)] {
            for r in [BigUint::zero(), BigUint::one(), BigUint::from(5u32), &nm1 - 1u32] {
                let ha = &q * &nm1 + &r;
                if ha < two320 {
                    let b = ha.to_bytes_be();
                    let mut o = vec![0u8; 40 - b.len()];
                    o.extend_from_slice(&b);
                    push(&mut v, "sm9.mod_n_from_hash", &o, "multiple-of-N-1-plus-small".into());
                }
            }
        }
    }
    // boundary private keys
    let n = &sm2::params().n;
    for (name, dv) in [("d=0", BigUint::zero()), ("d=1", BigUint::one()), ("d=n-2", n - 2u32), ("d=n-1", n - 1u32), ("d=n", n.clone()), ("d=2^256-1", (BigUint::one() << 256usize) - 1u32), ("d=seeded", g.nonzero_below(&(n - 2u32)))] {
        push(&mut v, "sm2.keyops", &a2::cand(&dv), name.into());
    }
    v
}

/// child mode: evaluate cases [start, end), one JSON line before and one after each
pub fn child_main(tier: Tier, seed: u64, start: usize, end: usize) {
    let cs = cases(tier, seed);
    let out = std::io::stdout();
    for i in start..end.min(cs.len()) {
        {
            let mut o = out.lock();
            let _ = writeln!(o, "B {}", i);
            let _ = o.flush();
        }
        let r = run_guarded(&cs[i]);
        let line = match r {
            Outcome::Ok => json!({"i": i, "o": "ok"}),
            Outcome::Err => json!({"i": i, "o": "err"}),
            Outcome::Panic(p) => json!({"i": i, "o": "panic", "msg": p}),
            _ => unreachable!(),
        };
        let mut o = out.lock();
        let _ = writeln!(o, "E {}", line);
        let _ = o.flush();
    }
}

pub fn run(ctx: &Arc<Ctx>) {
    refmodels::selftest::run(&["sm3", "sm2", "sm9"]).unwrap_or_else(|e| ctx.machinery_error(format!("reference self-test failed: {}", e)));
    let cs = Arc::new(cases(ctx.tier, ctx.seed));
    let limit = Duration::from_secs(ctx.tier.pick(5, 10));
    ctx.set_rule("entry points: SM2 verify (signature and message), raw decryption (2 orders x 2 encodings), ASN.1 decryption, public/private key decoders for bytes, hex, DER and PEM, SM4 cipher construction, block encrypt/decrypt, mode construction and mode decryption (data and IV), SM9 decryption, SM9 verification (h and S from bytes, affine / Jacobian / infinity), identities of every length 0..=300 through SM9 decryption / verification / extraction and SM2 verification, mod_n_from_hash, the SM2 KDF, and (the property's anchors name eea.rs / eia.rs) ZUC / EEA3 / EIA3 construction from key and IV bytes and message buffers shorter than LENGTH; per byte-string parameter every length 0..=200 (0..=400 for SM9 decryption) x {0x00, 0xFF, seeded}; for each valid encoding (SM2 / SM9 ciphertexts also with a body of 32 and 64 bytes, the KDF block boundary) every truncation, every single-byte corruption (4 kinds per position) and trailing bytes; hex strings of every length 0..=140 and a non-hex character at every position; well-formed PKCS#8 documents whose private-key octets have every length 0..=40 and {48,64,127,128,255,256}; PEM truncations and corruptions, every permutation of a PEM document's lines, each line dropped / doubled, fused, stray and missing armour lines, surrounding text (through from_public_key_pem, str::parse and from_pkcs8_pem); raw SM2 ciphertexts and public keys of every length under every SEC1 tag byte {02,03,04,06,07}, and each ciphertext form presented (whole and truncated) to the entry points for the other forms; boundary private keys {0,1,n-2,n-1,n,2^256-1}: whatever the constructor accepts must sign, encrypt (also the empty message and 32- / 64-byte messages), decrypt and run a key agreement to completion; SM9 encrypt / sign / exchange with valid keys over lengths {1,31,32,33,64,96,128,255}; inputs of 64 KiB + 16, 1 MiB + 16 and 4 MiB + 21 bytes through mode encryption / decryption and as the message of SM2 verification. Each call runs in a child process under panic capture and a wall-clock watchdog. Oracle: outcome in {Ok, Err}; panic, overflow, abort and time-out are violations (whether an Ok was deserved is judged by C04/C06/C07/C19).");
    ctx.note_bound(format!("{} calls, watchdog {} s per call", cs.len(), limit.as_secs()));
    // evidence samples: short cases only (the long-input cases carry megabytes of hex)
    if let Some(c) = cs.iter().find(|c| c.data.len() <= 400 && c.family.starts_with("sweep")) {
        ctx.sample(serde_json::to_value(c).unwrap());
    }
    if let Some(c) = cs.iter().rev().find(|c| c.data.len() <= 400) {
        ctx.sample(serde_json::to_value(c).unwrap());
    }
    let exe = std::env::current_exe().expect("current exe");
    let workers = std::thread::available_parallelism().map(|n| n.get()).unwrap_or(4);
    let chunk = (cs.len() + workers * 8 - 1) / (workers * 8);
    let ranges: Vec<(usize, usize)> = (0..cs.len()).step_by(chunk.max(1)).map(|s| (s, (s + chunk).min(cs.len()))).collect();
    let next = Arc::new(std::sync::Mutex::new(0usize));
    let ranges = Arc::new(ranges);
    std::thread::scope(|sc| {
        for _ in 0..workers {
            let (next, ranges, cs, ctx, exe) = (next.clone(), ranges.clone(), cs.clone(), ctx.clone(), exe.clone());
            sc.spawn(move || loop {
                let ri = {
                    let mut n = next.lock().unwrap();
                    let v = *n;
                    *n += 1;
                    v
                };
                if ri >= ranges.len() {
                    break;
                }
                let (mut start, end) = ranges[ri];
                while start < end {
                    // one child per (remaining) range; restarted after a hang or an abort
                    let mut child = match Command::new(&exe).args(["c20child", ctx.tier.name(), &ctx.seed.to_string(), &start.to_string(), &end.to_string()]).stdout(Stdio::piped()).stderr(Stdio::null()).spawn() {
                        Ok(c) => c,
                        Err(e) => {
                            ctx.machinery_error(format!("cannot spawn child: {}", e));
                            return;
                        }
                    };
                    let stdout = child.stdout.take().unwrap();
                    let (tx, rx) = mpsc::channel::<String>();
                    let reader = std::thread::spawn(move || {
                        for line in BufReader::new(stdout).lines().map_while(Result::ok) {
                            if tx.send(line).is_err() {
                                break;
                            }
                        }
                    });
                    let mut current: Option<usize> = None;
                    let mut done_upto = start;
                    loop {
                        // generous start-up allowance before the first case (fixtures are built in the child)
                        let wait = if current.is_some() { limit } else { Duration::from_secs(60) };
                        match rx.recv_timeout(wait) {
                            Ok(line) => {
                                if let Some(i) = line.strip_prefix("B ") {
                                    current = i.trim().parse().ok();
                                } else if let Some(j) = line.strip_prefix("E ") {
                                    if let Ok(v) = serde_json::from_str::<Value>(j) {
                                        let i = v["i"].as_u64().unwrap_or(0) as usize;
                                        let o = match v["o"].as_str() {
                                            Some("ok") => Outcome::Ok,
                                            Some("err") => Outcome::Err,
                                            _ => Outcome::Panic(v["msg"].as_str().unwrap_or("").to_string()),
                                        };
                                        ctx.state();
                                        ctx.call();
                                        record(&ctx, &cs[i], &o);
                                        done_upto = i + 1;
                                        current = None;
                                    }
                                }
                            }
                            Err(mpsc::RecvTimeoutError::Timeout) => {
                                let _ = child.kill();
                                if let Some(i) = current {
                                    ctx.state();
                                    ctx.call();
                                    record(&ctx, &cs[i], &Outcome::Timeout);
                                    done_upto = i + 1;
                                } else {
                                    ctx.machinery_error("child process produced no output within 60 s");
                                    done_upto = end;
                                }
                                break;
                            }
                            Err(mpsc::RecvTimeoutError::Disconnected) => {
                                // child exited: normally after its last case, otherwise it died inside `current`
                                if let Some(i) = current {
                                    ctx.state();
                                    ctx.call();
                                    record(&ctx, &cs[i], &Outcome::Abort);
                                    done_upto = i + 1;
                                } else if done_upto < end {
                                    ctx.machinery_error(format!("child exited early at case {}", done_upto));
                                    done_upto = end;
                                }
                                break;
                            }
                        }
                    }
                    let _ = child.wait();
                    let _ = reader.join();
                    start = done_upto;
                }
            });
        }
    });
    if ctx.states_count() != cs.len() as u64 {
        ctx.machinery_error(format!("{} of {} cases reported", ctx.states_count(), cs.len()));
    }
    ctx.cov("child_process_ranges", json!(ranges.len()));
}
