//! Cold-start histories: the very first operation of a fresh process.
//!
//! Every other check runs inside one long-lived process, where process-global lazily built state (a `Once`, a
//! `static` table, a `OnceLock`) has been initialised by whichever operation happened to come first. The histories
//! "operation X is the first thing the process ever does" are enumerated here: each named operation is executed in a
//! child process of its own and its result must equal the result of the same operation in the (warm) parent, whose
//! values the property's main enumeration has compared with the reference model. This is a differential oracle with no
//! hand-written expected value; all operations are deterministic (randomness goes through the scripted RNG seam).
//! The warm value is computed on a fresh thread after a warm-up pass on another thread, so per-thread state plays no
//! part here (that is what the chunked driver's recorded prefixes are for) and a replay in a fresh process reproduces.
use crate::alpha::{ANNEX_D, ANNEX_K};
use crate::engine::*;
use crate::sm2api;
use crate::sm9api;
use gm_sm9::fields::FieldElement;
use num_bigint::BigUint;
use refmodels::util::{hexbig as hb, to32, to_limbs};
use serde_json::{json, Value};

type Op = (&'static str, fn() -> String);

fn dbg<T: std::fmt::Debug>(x: T) -> String {
    format!("{:?}", x)
}
fn hexr<E: std::fmt::Debug>(r: Result<Vec<u8>, E>) -> String {
    match r {
        Ok(v) => format!("Ok({})", hex::encode(v)),
        Err(e) => format!("Err({:?})", e),
    }
}

const SM4_KEY: [u8; 16] = [0x01, 0x23, 0x45, 0x67, 0x89, 0xab, 0xcd, 0xef, 0xfe, 0xdc, 0xba, 0x98, 0x76, 0x54, 0x32, 0x10];
const SM4_KEY2: [u8; 16] = [0xff, 0x03, 0x7c, 0x00, 0x08, 0xfe, 0xdc, 0xba, 0x98, 0x76, 0x54, 0x32, 0x10, 0xff, 0x00, 0xa5];

fn sm4_mode(mode: gm_sm4::CipherMode, enc: bool) -> String {
    let m = gm_sm4::Sm4CipherMode::new(&SM4_KEY2, mode).expect("mode");
    let iv = [0xf0u8; 16];
    let data: Vec<u8> = (0..if enc { 37 } else { 48 }).map(|i| (i * 7 + 3) as u8).collect();
    if enc {
        hexr(m.encrypt(&data, &iv))
    } else {
        hexr(m.decrypt(&data, &iv))
    }
}

fn sm2_keys() -> (gm_sm2::key::Sm2PrivateKey, gm_sm2::key::Sm2PublicKey) {
    let d = hb(ANNEX_D);
    let sk = gm_sm2::key::Sm2PrivateKey::new(&to32(&d)).expect("annex key");
    let pk = sk.public_key.clone();
    (sk, pk)
}
/// GM/T 0003.5 Annex A signature of "message digest" under the default ID
const ANNEX_SIG: &str = "f5a03b0648d2c4630eeac513e1bb81a15944da3827d5b74143ac7eaceee720b3b1b6aa29df212fd8763182bc0d421ca1bb9038fd1f7f42d4840b69c485bbc1aa";

fn sm9_sign_master() -> gm_sm9::key::Sm9SignMasterKey {
    let ks = hb("000130E78459D78545CB54C587E02CF480CE0B66340F319F348A1D5B1F2DC5F4");
    let ppubs = refmodels::sm9::g2_mul(&ks, &refmodels::sm9::params().p2);
    gm_sm9::key::Sm9SignMasterKey { ks: to_limbs(&ks), ppubs: sm9api::lib_g2_affine(&ppubs) }
}
fn sm9_enc_master() -> gm_sm9::key::Sm9EncMasterKey {
    let ke = hb("0001EDEE3778F441F8DEA3D9FA0ACC4E07EE36C93F9A08618AF4AD85CEDE1C22");
    let ppube = refmodels::sm9::g1_mul(&ke, &refmodels::sm9::params().p1);
    gm_sm9::key::Sm9EncMasterKey { ke: to_limbs(&ke), ppube: sm9api::lib_g1_affine(&ppube) }
}
fn sm9_r() -> BigUint {
    hb("0000AAC0541779C8FC45E3E2CB25C12B5D2576B2129AE8BB5EE2CBE5EC9E785C")
}
fn sm9_sig() -> (gm_sm9::u256::U256, gm_sm9::points::Point) {
    let key = sm9_sign_master().extract_key(b"Alice").expect("key");
    let (r, _) = sm9api::with_rng(vec![to32(&sm9_r())], || key.sign(b"Chinese IBS standard"));
    match r {
        Guard::Done(Ok(x)) => x,
        other => panic!("sm9 sign: {:?}", other.map(|_| ())),
    }
}
fn sm9_ct() -> Vec<u8> {
    let (r, _) = sm9api::with_rng(vec![to32(&sm9_r())], || sm9_enc_master().encrypt(b"Bob", b"Chinese IBE standard"));
    match r {
        Guard::Done(x) => x,
        Guard::Panic(p) => panic!("{}", p),
    }
}
fn g1s(p: &gm_sm9::points::Point) -> String {
    sm9api::g1_str(&sm9api::ref_g1(p))
}
fn sm2pt(p: &gm_sm2::p256_ecc::Point) -> String {
    match sm2api::ref_point(p) {
        None => "infinity".into(),
        Some((x, y)) => format!("({}, {})", sm2api::hexbig(&x), sm2api::hexbig(&y)),
    }
}

pub fn ops() -> Vec<Op> {
    use gm_sm4::CipherMode as M;
    vec![
        ("C01/hash-empty", || hex::encode(gm_sm3::sm3_hash(b""))),
        ("C01/hash-abc", || hex::encode(gm_sm3::sm3_hash(b"abc"))),
        ("C01/hash-56", || hex::encode(gm_sm3::sm3_hash(&[0x61u8; 56]))),
        ("C01/hash-200", || hex::encode(gm_sm3::sm3_hash(&[0xa5u8; 200]))),
        ("C02/new+encrypt", || hexr(gm_sm4::Sm4Cipher::new(&SM4_KEY).and_then(|c| c.encrypt(&SM4_KEY)))),
        ("C02/new+decrypt", || hexr(gm_sm4::Sm4Cipher::new(&SM4_KEY).and_then(|c| c.decrypt(&SM4_KEY)))),
        ("C02/new+decrypt-other-key", || hexr(gm_sm4::Sm4Cipher::new(&SM4_KEY2).and_then(|c| c.decrypt(&[0x3cu8; 16])))),
        ("C02/new+encrypt-other-key", || hexr(gm_sm4::Sm4Cipher::new(&SM4_KEY2).and_then(|c| c.encrypt(&[0x3cu8; 16])))),
        ("C02/new+decrypt+encrypt", || {
            let c = gm_sm4::Sm4Cipher::new(&SM4_KEY2).expect("key");
            format!("{} {}", hexr(c.decrypt(&[0u8; 16])), hexr(c.encrypt(&[0u8; 16])))
        }),
        ("C02/refused-block-then-decrypt", || {
            let c = gm_sm4::Sm4Cipher::new(&SM4_KEY).expect("key");
            format!("{} {}", hexr(c.decrypt(&[0u8; 15])), hexr(c.decrypt(&[0x11u8; 16])))
        }),
        ("C02/zero-key-encrypt-first", || hexr(gm_sm4::Sm4Cipher::new(&[0u8; 16]).and_then(|c| c.encrypt(&[0u8; 16])))),
        ("C02/zero-key-decrypt-first", || hexr(gm_sm4::Sm4Cipher::new(&[0u8; 16]).and_then(|c| c.decrypt(&[0u8; 16])))),
        ("C02/ff-key-encrypt-first", || hexr(gm_sm4::Sm4Cipher::new(&[0xffu8; 16]).and_then(|c| c.encrypt(&[0xffu8; 16])))),
        ("C02/two-objects-first", || {
            let a = gm_sm4::Sm4Cipher::new(&[0u8; 16]).expect("key");
            let b = gm_sm4::Sm4Cipher::new(&SM4_KEY).expect("key");
            let a2 = gm_sm4::Sm4Cipher::new(&[0u8; 16]).expect("key");
            format!("{} {} {} {}", hexr(a.encrypt(&SM4_KEY)), hexr(b.encrypt(&SM4_KEY)), hexr(a2.encrypt(&SM4_KEY)), a == a2)
        }),
        ("C07/zero-key-zero-iv-first", || {
            let mut out = String::new();
            for mode in [M::Cbc, M::Cfb, M::Ofb, M::Ctr] {
                let m = gm_sm4::Sm4CipherMode::new(&[0u8; 16], mode).expect("mode");
                out += &hexr(m.encrypt(&[0u8; 33], &[0u8; 16]));
                out.push(' ');
            }
            out
        }),
        ("C07/cbc-encrypt", || sm4_mode(M::Cbc, true)),
        ("C07/cbc-decrypt", || sm4_mode(M::Cbc, false)),
        ("C07/cfb-encrypt", || sm4_mode(M::Cfb, true)),
        ("C07/cfb-decrypt", || sm4_mode(M::Cfb, false)),
        ("C07/ofb-encrypt", || sm4_mode(M::Ofb, true)),
        ("C07/ofb-decrypt", || sm4_mode(M::Ofb, false)),
        ("C07/ctr-encrypt", || sm4_mode(M::Ctr, true)),
        ("C07/ctr-decrypt", || sm4_mode(M::Ctr, false)),
        ("C08/new+5-words", || dbg(gm_zuc::ZUC::new(&[0x3du8; 16], &[0x84u8; 16]).generate_keystream(5))),
        ("C08/new+0+3-words", || {
            let mut z = gm_zuc::ZUC::new(&[0xffu8; 16], &[0xffu8; 16]);
            format!("{:?} {:?}", z.generate_keystream(0), z.generate_keystream(3))
        }),
        ("C08/zero-key-iv-first", || dbg(gm_zuc::ZUC::new(&[0u8; 16], &[0u8; 16]).generate_keystream(3))),
        ("C18/eea-first", || dbg(gm_zuc::eea::EEA::new(&[0x17u8; 16], 0x66035492, 0xf, 0).encrypt(&[0x6cca78a7, 0x36c29e41, 0xffffffff, 1], 97))),
        ("C18/eia-first", || dbg(gm_zuc::eia::EIA::new(&[0xc9u8; 16], 0xa94059da, 0xa, 1).gen_mac(&[0x983b41d4, 0x7d780c9e, 0x1ad11d7e, 0xb70391b1], 97))),
        ("C03/sign-first", || {
            let (sk, _) = sm2_keys();
            let (r, _) = sm2api::with_rng(vec![to32(&hb(ANNEX_K))], || sk.sign(None, b"message digest"));
            dbg(r.map(|x| x.map(hex::encode)))
        }),
        ("C03/sign-with-id-first", || {
            let (sk, _) = sm2_keys();
            let (r, _) = sm2api::with_rng(vec![to32(&hb(ANNEX_K))], || sk.sign(Some("ALICE123@YAHOO.COM"), b"m"));
            dbg(r.map(|x| x.map(hex::encode)))
        }),
        ("C03/sign-d=1-k=1-first", || {
            let sk = gm_sm2::key::Sm2PrivateKey::new(&to32(&BigUint::from(1u32))).expect("d=1");
            let (r, _) = sm2api::with_rng(vec![to32(&BigUint::from(1u32))], || sk.sign(Some(""), b""));
            dbg(r.map(|x| x.map(hex::encode)))
        }),
        ("C04/verify-valid-first", || {
            let (_, pk) = sm2_keys();
            dbg(pk.verify(None, b"message digest", &hex::decode(ANNEX_SIG).unwrap()))
        }),
        ("C04/verify-wrong-message-first", || {
            let (_, pk) = sm2_keys();
            dbg(pk.verify(None, b"message digesu", &hex::decode(ANNEX_SIG).unwrap()).is_ok())
        }),
        ("C04/verify-decoded-key-first", || {
            let (_, pk) = sm2_keys();
            let pk2 = gm_sm2::key::Sm2PublicKey::new(&pk.to_bytes(false)).expect("decode");
            dbg(pk2.verify(None, b"message digest", &hex::decode(ANNEX_SIG).unwrap()))
        }),
        ("C05/encrypt-first", || {
            let (_, pk) = sm2_keys();
            let (r, _) = sm2api::with_rng(vec![to32(&hb(ANNEX_K))], || pk.encrypt(b"encryption standard", false, gm_sm2::key::Sm2Model::C1C3C2));
            dbg(r.map(|x| x.map(hex::encode)))
        }),
        ("C05/kdf-first", || hex::encode(gm_sm2::util::kdf(&[0x42u8; 64], 75))),
        ("C06/decrypt-first", || {
            let (sk, pk) = sm2_keys();
            let (r, _) = sm2api::with_rng(vec![to32(&hb(ANNEX_K))], || pk.encrypt(b"encryption standard", true, gm_sm2::key::Sm2Model::C1C2C3));
            // the child decrypts a ciphertext it has just made: the decryption is still the first of the process
            match r {
                Guard::Done(Ok(ct)) => {
                    let mut bad = ct.clone();
                    let n = bad.len();
                    bad[n - 1] ^= 1;
                    format!("{} {}", hexr(sk.decrypt(&ct, true, gm_sm2::key::Sm2Model::C1C2C3)), sk.decrypt(&bad, true, gm_sm2::key::Sm2Model::C1C2C3).is_ok())
                }
                other => dbg(other.map(|_| ())),
            }
        }),
        ("C11/g_mul-first", || sm2pt(&gm_sm2::p256_ecc::g_mul(&to_limbs(&hb(ANNEX_K))))),
        ("C11/scalar_mul-first", || {
            let (_, pk) = sm2_keys();
            sm2pt(&pk.point.scalar_mul(&to_limbs(&hb(ANNEX_K))))
        }),
        ("C11/add-double-first", || {
            let g = gm_sm2::p256_ecc::g_mul(&[1, 0, 0, 0]);
            let h = gm_sm2::p256_ecc::g_mul(&[2, 0, 0, 0]);
            format!("{} {} {}", sm2pt(&g.point_add(&h)), sm2pt(&g.point_add(&g)), sm2pt(&g.point_dbl()))
        }),
        ("C19/decode-compressed-first", || {
            let (_, pk) = sm2_keys();
            let b = pk.to_bytes(true);
            dbg(gm_sm2::key::Sm2PublicKey::new(&b).map(|k| hex::encode(k.to_bytes(false))))
        }),
        ("C19/hex-first", || {
            let (sk, pk) = sm2_keys();
            format!("{} {}", pk.to_hex_string(false), sk.to_hex_string())
        }),
        ("C15/honest-run-first", || {
            let (ska, pka) = sm2_keys();
            let skb = gm_sm2::key::Sm2PrivateKey::new(&to32(&hb("785129917D45A9EA5437A59356B82338EAADDA6CEB199088F14AE10DEFA229B5"))).expect("key b");
            let pkb = skb.public_key.clone();
            let mut a = gm_sm2::exchange::Exchange::new(16, Some("1234567812345678"), &pka, &ska, Some("1234567812345678"), &pkb).expect("a");
            let mut b = gm_sm2::exchange::Exchange::new(16, Some("1234567812345678"), &pkb, &skb, Some("1234567812345678"), &pka).expect("b");
            let q = vec![to32(&hb("D4DE15474DB74D06491C440D305E012400990F3E390C7E87153C12DB2EA60BB3")), to32(&hb("7E07124814B309489125EAED101113164EBF0F3458C5BD88335C1F9D596243D6"))];
            let (r, _) = sm2api::with_rng(q, || {
                let ra = a.exchange_1().map_err(|e| format!("{:?}", e))?;
                let (rb, sb) = b.exchange_2(&ra).map_err(|e| format!("{:?}", e))?;
                let sa = a.exchange_3(&rb, sb).map_err(|e| format!("{:?}", e))?;
                let ok = b.exchange_4(sa, &ra).map_err(|e| format!("{:?}", e))?;
                Ok::<String, String>(format!("{} {} {} {}", sm2pt(&ra), hex::encode(sb), hex::encode(sa), ok))
            });
            dbg(r)
        }),
        ("C09/sign-first", || {
            let (h, s) = sm9_sig();
            format!("{} {}", hex::encode(to32(&refmodels::util::from_limbs(&h))), g1s(&s))
        }),
        ("C09/verify-first", || {
            // signature made by the reference: verification is the first library operation of the process
            let pr = refmodels::sm9::params();
            let ks = hb("000130E78459D78545CB54C587E02CF480CE0B66340F319F348A1D5B1F2DC5F4");
            let ds = refmodels::sm9::extract_sign_key(&ks, b"Alice").expect("ds");
            let ppubs = refmodels::sm9::g2_mul(&ks, &pr.p2);
            let (h, s) = refmodels::sm9::sign_with_r(&refmodels::sm9::sign_g(&ppubs), &ds, b"Chinese IBS standard", &sm9_r()).expect("ref sign");
            let msk = sm9_sign_master();
            format!("{:?} {}", msk.verify_sign(b"Alice", b"Chinese IBS standard", &to_limbs(&h), &sm9api::lib_g1_affine(&s)), msk.verify_sign(b"Alice", b"Chinese IBS standare", &to_limbs(&h), &sm9api::lib_g1_affine(&s)).is_ok())
        }),
        ("C10/encrypt-first", || hex::encode(sm9_ct())),
        ("C10/decrypt-first", || {
            let pr = refmodels::sm9::params();
            let ke = hb("0001EDEE3778F441F8DEA3D9FA0ACC4E07EE36C93F9A08618AF4AD85CEDE1C22");
            let ppube = refmodels::sm9::g1_mul(&ke, &pr.p1);
            let ct = refmodels::sm9::encrypt_with_r(&refmodels::sm9::enc_g(&ppube), &ppube, b"Bob", b"Chinese IBE standard", &sm9_r()).expect("ref encrypt").encode();
            let key = sm9_enc_master().extract_key(b"Bob").expect("key");
            let mut bad = ct.clone();
            bad[70] ^= 0x10;
            format!("{} {}", hexr(key.decrypt(b"Bob", &ct)), key.decrypt(b"Bob", &bad).is_ok())
        }),
        ("C12/pairing-first", || {
            let pr = refmodels::sm9::params();
            hex::encode(gm_sm9::verif::pairing(&sm9api::lib_g2_affine(&pr.p2), &sm9api::lib_g1_affine(&pr.p1)).to_bytes_be())
        }),
        ("C13/g1-mul-first", || {
            let pr = refmodels::sm9::params();
            g1s(&sm9api::lib_g1_affine(&pr.p1).point_mul(&to_limbs(&sm9_r())))
        }),
        ("C13/g1-gmul-first", || g1s(&gm_sm9::points::Point::g_mul(&to_limbs(&sm9_r())))),
        ("C13/g2-gmul-first", || sm9api::g2_str(&sm9api::ref_g2(&gm_sm9::points::TwistPoint::g_mul(&to_limbs(&sm9_r()))))),
        ("C16/h1-first", || dbg(gm_sm9::key::verif_key::hash1(b"Alice", 1))),
        ("C16/h2-first", || dbg(gm_sm9::key::verif_key::hash2(b"Chinese IBS standard", &[0x5au8; 384]))),
        ("C16/extract-first", || {
            let k = sm9_sign_master().extract_key(b"Alice").expect("key");
            g1s(&k.ds)
        }),
        ("C16/extract-enc-first", || {
            let k = sm9_enc_master().extract_key(b"Bob").expect("key");
            sm9api::g2_str(&sm9api::ref_g2(&k.de))
        }),
        ("C17/exchange-first", || {
            let msk = sm9_enc_master();
            let ka = msk.extract_exch_key(b"Alice").expect("ka");
            let kb = msk.extract_exch_key(b"Bob").expect("kb");
            let q = vec![to32(&hb("00005879DD1D51E175946F23B1B41E93BA31C584AE59A426EC1046A4D03B06C8")), to32(&hb("00018B98C44BEF9F8537FB7D071B2C928B3BC65BD3D69E1EEE213564905634FE"))];
            let (r, _) = sm9api::with_rng(q, || {
                let (ra, ra_) = gm_sm9::key::exch_step_1a(&msk, b"Bob");
                let (rb, skb) = gm_sm9::key::exch_step_1b(&msk, b"Alice", b"Bob", &kb, &ra, 16).map_err(|e| format!("{:?}", e))?;
                let ska = gm_sm9::key::exch_step_2a(&msk, b"Alice", b"Bob", &ka, ra_, &ra, &rb, 16).map_err(|e| format!("{:?}", e))?;
                Ok::<String, String>(format!("{} {} {} {}", g1s(&ra), g1s(&rb), hex::encode(skb), hex::encode(ska)))
            });
            dbg(r)
        }),
    ]
}

fn lookup(name: &str) -> Option<fn() -> String> {
    ops().into_iter().find(|(n, _)| *n == name).map(|(_, f)| f)
}

/// `gmverif cold <op>`: run one operation as the first thing this process does and print its result
pub fn child_main(name: &str) {
    let Some(f) = lookup(name) else {
        eprintln!("unknown cold operation {}", name);
        std::process::exit(4);
    };
    match guard(f) {
        Guard::Done(s) => println!("RESULT {}", s),
        Guard::Panic(p) => println!("PANIC {}", p),
    }
}

fn run_child(name: &str) -> Result<String, String> {
    let exe = std::env::current_exe().map_err(|e| e.to_string())?;
    let mut child = std::process::Command::new(exe).args(["cold", name]).stdout(std::process::Stdio::piped()).stderr(std::process::Stdio::null()).spawn().map_err(|e| e.to_string())?;
    // watchdog: a cold operation that does not return within 20 s is reported as such
    let start = std::time::Instant::now();
    loop {
        match child.try_wait() {
            Ok(Some(_)) => break,
            Ok(None) if start.elapsed().as_secs() >= 20 => {
                let _ = child.kill();
                let _ = child.wait();
                return Ok("TIMEOUT".into());
            }
            Ok(None) => std::thread::sleep(std::time::Duration::from_millis(5)),
            Err(e) => return Err(e.to_string()),
        }
    }
    let out = child.wait_with_output().map_err(|e| e.to_string())?;
    let s = String::from_utf8_lossy(&out.stdout).to_string();
    let line = s.lines().find(|l| l.starts_with("RESULT ") || l.starts_with("PANIC ")).map(|l| l.to_string());
    line.ok_or_else(|| format!("child printed no result (status {:?})", out.status))
}

fn eval(ctx: &Ctx, name: &str) {
    let Some(f) = lookup(name) else {
        ctx.machinery_error(format!("unknown cold operation {}", name));
        return;
    };
    ctx.state();
    ctx.call();
    // "warm" = process-global state initialised, per-thread state clean: first every operation of this property once on
    // a scratch thread (whatever they initialise process-wide is then initialised - also when this is a replay in a
    // fresh process), then the operation itself on another fresh thread. Per-thread state is the business of the
    // chunked driver, not of this comparison.
    let prop = name.split('/').next().unwrap_or("").to_string();
    let warmup: Vec<fn() -> String> = ops().into_iter().filter(|(n, _)| n.starts_with(&prop) && n.as_bytes().get(prop.len()) == Some(&b'/')).map(|(_, g)| g).collect();
    let _ = std::thread::spawn(move || {
        for g in warmup {
            let _ = guard(g);
        }
    })
    .join();
    let warm = match std::thread::spawn(move || guard(f)).join() {
        Ok(Guard::Done(s)) => format!("RESULT {}", s),
        Ok(Guard::Panic(p)) => format!("PANIC {}", p),
        Err(_) => "PANIC outside the guarded call".to_string(),
    };
    ctx.trace();
    let cj = json!({"Cold": {"op": name}});
    match run_child(name) {
        Err(e) => ctx.machinery_error(format!("cold start {}: {}", name, e)),
        Ok(cold) if cold == warm && cold.starts_with("RESULT ") => ctx.outcome("ok/cold-start=warm"),
        Ok(cold) if cold == "TIMEOUT" => ctx.violation(name, "cold-start/does-not-terminate", "no result within 20 s as the first operation of a fresh process", cj),
        Ok(cold) if cold.starts_with("PANIC ") => ctx.violation(name, "cold-start/panic", truncate(&cold, 300), cj),
        Ok(cold) => ctx.violation(name, "cold-start/result-differs-from-warm-process", format!("first operation of a fresh process: {} ; same operation later in a long-lived process: {}", truncate(&cold, 200), truncate(&warm, 200)), cj),
    }
}

fn truncate(s: &str, n: usize) -> String {
    if s.len() <= n {
        s.to_string()
    } else {
        format!("{}…", &s[..n])
    }
}

/// replay hook: returns true when `v` is a cold-start case (and has been evaluated)
pub fn replay(ctx: &Ctx, v: &Value) -> bool {
    match v.get("Cold").and_then(|c| c.get("op")).and_then(|o| o.as_str()) {
        Some(name) => {
            eval(ctx, name);
            true
        }
        None => false,
    }
}

/// run every cold-start history registered for `prop`
pub fn check(ctx: &Ctx, prop: &str) {
    let names: Vec<&'static str> = ops().into_iter().map(|(n, _)| n).filter(|n| n.starts_with(prop) && n.as_bytes()[prop.len()] == b'/').collect();
    for n in &names {
        eval(ctx, n);
    }
    ctx.cov("cold_start_histories", json!({"count": names.len(), "operations": names, "oracle": "result as the first operation of a fresh process == result in the warm process"}));
}
