//! Shared machinery: counters, violation collection, known-findings matching, evidence, replay
//! files, panic capture, and the stateright-backed history explorer (E1).
use serde_json::{json, Map, Value};
use std::collections::BTreeMap;
use std::panic::{catch_unwind, AssertUnwindSafe};
use std::sync::atomic::{AtomicBool, AtomicU64, Ordering};
use std::sync::{Arc, Mutex};
use std::time::Instant;

pub const VERIF_ROOT: &str = "/verif";

#[derive(Clone, Copy, PartialEq, Eq, Debug)]
pub enum Tier {
    Quick,
    Thorough,
}
impl Tier {
    pub fn name(&self) -> &'static str {
        match self {
            Tier::Quick => "quick",
            Tier::Thorough => "thorough",
        }
    }
    pub fn pick<T>(&self, q: T, t: T) -> T {
        match self {
            Tier::Quick => q,
            Tier::Thorough => t,
        }
    }
}

#[derive(Clone, Debug)]
pub struct Violation {
    pub site: String,
    pub class: String,
    pub detail: String,
    pub case: Value,
    /// cases executed earlier on the same (fresh) thread, in order; needed to replay history-dependent failures
    pub prefix: Vec<Value>,
    pub count: u64,
    /// a non-terminating case cannot be re-executed for confirmation (the re-execution would hang too)
    pub no_gate: bool,
    /// confirmed only by the concurrent stage of the gate (replay executes it on several threads at once)
    pub concurrent: bool,
    /// did not reproduce in any stage of the gate
    pub unstable: bool,
}

pub struct Ctx {
    pub prop: &'static str,
    pub tier: Tier,
    pub seed: u64,
    pub start: Instant,
    pub replaying: bool,
    states: AtomicU64,
    transitions: AtomicU64,
    traces: AtomicU64,
    max_depth: AtomicU64,
    capped: AtomicBool,
    violations: Mutex<BTreeMap<(String, String), Violation>>,
    samples: Mutex<Vec<Value>>,
    outcomes: Mutex<BTreeMap<String, u64>>,
    cov: Mutex<BTreeMap<String, Value>>,
    machinery_errors: Mutex<Vec<String>>,
    pub assumptions: Mutex<Vec<String>>,
    pub rule: Mutex<String>,
    pub bounds: Mutex<Vec<String>>,
}

thread_local! {
    static LAST_PANIC: std::cell::RefCell<String> = std::cell::RefCell::new(String::new());
    /// replay records of the cases already executed on this thread (threads are fresh per chunk / per visit)
    static PREFIX: std::cell::RefCell<Vec<Value>> = std::cell::RefCell::new(Vec::new());
}

pub fn install_panic_hook() {
    std::panic::set_hook(Box::new(|info| {
        let msg = if let Some(s) = info.payload().downcast_ref::<&str>() {
            s.to_string()
        } else if let Some(s) = info.payload().downcast_ref::<String>() {
            s.clone()
        } else {
            "panic".to_string()
        };
        let loc = info.location().map(|l| format!("{}:{}", l.file(), l.line())).unwrap_or_default();
        LAST_PANIC.with(|p| *p.borrow_mut() = format!("{} @ {}", msg, loc));
    }));
}

/// Outcome of a guarded call into the library
#[derive(Debug, Clone, PartialEq)]
pub enum Guard<T> {
    Done(T),
    Panic(String),
}

impl<T> Guard<T> {
    pub fn map<U>(self, f: impl FnOnce(T) -> U) -> Guard<U> {
        match self {
            Guard::Done(v) => Guard::Done(f(v)),
            Guard::Panic(p) => Guard::Panic(p),
        }
    }
}

/// run `f`, converting a panic into a value (message @ file:line)
pub fn guard<T>(f: impl FnOnce() -> T) -> Guard<T> {
    match catch_unwind(AssertUnwindSafe(f)) {
        Ok(v) => Guard::Done(v),
        Err(_) => Guard::Panic(LAST_PANIC.with(|p| p.borrow().clone())),
    }
}

/// normalise a panic message into a stable class fragment: file:line only, repo-relative
pub fn panic_site(msg: &str) -> String {
    match msg.rsplit_once(" @ ") {
        Some((_, loc)) => {
            let loc = loc.trim();
            let loc = loc.strip_prefix("/repo/").unwrap_or(loc);
            // drop the line number: edits elsewhere in the file must not re-key a known finding
            match loc.rsplit_once(':') {
                Some((file, _)) => file.to_string(),
                None => loc.to_string(),
            }
        }
        None => "unknown".to_string(),
    }
}

impl Ctx {
    pub fn new(prop: &'static str, tier: Tier, seed: u64, replaying: bool) -> Arc<Ctx> {
        Arc::new(Ctx {
            prop,
            tier,
            seed,
            start: Instant::now(),
            replaying,
            states: AtomicU64::new(0),
            transitions: AtomicU64::new(0),
            traces: AtomicU64::new(0),
            max_depth: AtomicU64::new(0),
            capped: AtomicBool::new(false),
            violations: Mutex::new(BTreeMap::new()),
            samples: Mutex::new(Vec::new()),
            outcomes: Mutex::new(BTreeMap::new()),
            cov: Mutex::new(BTreeMap::new()),
            machinery_errors: Mutex::new(Vec::new()),
            assumptions: Mutex::new(Vec::new()),
            rule: Mutex::new(String::new()),
            bounds: Mutex::new(Vec::new()),
        })
    }
    /// one distinct case / history reached
    pub fn state(&self) {
        self.states.fetch_add(1, Ordering::Relaxed);
    }
    pub fn states_add(&self, n: u64) {
        self.states.fetch_add(n, Ordering::Relaxed);
    }
    /// one call into the implementation
    pub fn call(&self) {
        self.transitions.fetch_add(1, Ordering::Relaxed);
    }
    pub fn calls(&self, n: u64) {
        self.transitions.fetch_add(n, Ordering::Relaxed);
    }
    /// one reference trace compared step by step with the implementation
    pub fn trace(&self) {
        self.traces.fetch_add(1, Ordering::Relaxed);
    }
    pub fn depth(&self, d: u64) {
        self.max_depth.fetch_max(d, Ordering::Relaxed);
    }
    pub fn capped(&self, why: &str) {
        self.capped.store(true, Ordering::Relaxed);
        self.note_bound(format!("CAP HIT: {}", why));
    }
    pub fn note_bound(&self, s: impl Into<String>) {
        self.bounds.lock().unwrap().push(s.into());
    }
    pub fn assume(&self, s: impl Into<String>) {
        self.assumptions.lock().unwrap().push(s.into());
    }
    pub fn set_rule(&self, s: impl Into<String>) {
        *self.rule.lock().unwrap() = s.into();
    }
    pub fn outcome(&self, key: &str) {
        *self.outcomes.lock().unwrap().entry(key.to_string()).or_insert(0) += 1;
    }
    pub fn sample(&self, v: Value) {
        let mut s = self.samples.lock().unwrap();
        if s.len() < 6 {
            s.push(v);
        }
    }
    pub fn cov(&self, key: &str, v: Value) {
        self.cov.lock().unwrap().insert(key.to_string(), v);
    }
    pub fn cov_add(&self, key: &str, n: u64) {
        let mut c = self.cov.lock().unwrap();
        let cur = c.get(key).and_then(|v| v.as_u64()).unwrap_or(0);
        c.insert(key.to_string(), json!(cur + n));
    }
    pub fn machinery_error(&self, s: impl Into<String>) {
        self.machinery_errors.lock().unwrap().push(s.into());
    }
    /// Record a violation. `site` = API entry point, `class` = stable description of the failing
    /// input class (used to match known findings), `detail` = the concrete input, `case` = replay record.
    pub fn violation(&self, site: &str, class: &str, detail: impl Into<String>, case: Value) {
        let mut v = self.violations.lock().unwrap();
        let e = v.entry((site.to_string(), class.to_string())).or_insert_with(|| Violation {
            site: site.to_string(),
            class: class.to_string(),
            detail: detail.into(),
            case,
            prefix: PREFIX.with(|p| p.borrow().clone()),
            count: 0,
            no_gate: false,
            concurrent: false,
            unstable: false,
        });
        e.count += 1;
    }
    /// a case that did not finish within the stall limit (recorded by the stall monitor)
    pub fn violation_timeout(&self, site: &str, class: &str, detail: impl Into<String>, case: Value, prefix: Vec<Value>) {
        let mut v = self.violations.lock().unwrap();
        let e = v.entry((site.to_string(), class.to_string())).or_insert_with(|| Violation { site: site.to_string(), class: class.to_string(), detail: detail.into(), case, prefix, count: 0, no_gate: true, concurrent: false, unstable: false });
        e.count += 1;
    }
    pub fn violations(&self) -> Vec<Violation> {
        self.violations.lock().unwrap().values().cloned().collect()
    }
    pub fn states_count(&self) -> u64 {
        self.states.load(Ordering::Relaxed)
    }
}

#[derive(Debug, Clone)]
pub struct Known {
    pub property: String,
    pub site: String,
    pub class: String,
    pub text: String,
}

/// known_findings.txt: `known: property=C20 site=<site> class=<class> :: text` (one per line; `fixed:` lines suppress nothing)
pub fn load_known() -> Vec<Known> {
    let path = format!("{}/known_findings.txt", VERIF_ROOT);
    let mut out = Vec::new();
    let Ok(s) = std::fs::read_to_string(path) else { return out };
    for line in s.lines() {
        let line = line.trim();
        let Some(rest) = line.strip_prefix("known:") else { continue };
        let (head, text) = rest.split_once(" :: ").unwrap_or((rest, ""));
        let mut property = String::new();
        let mut site = String::new();
        let mut class = String::new();
        // fields are separated by " site=" / " class=" so that values may contain spaces
        let head = head.trim();
        if let Some(p) = head.strip_prefix("property=") {
            if let Some((pv, r)) = p.split_once(" site=") {
                property = pv.trim().to_string();
                if let Some((sv, cv)) = r.split_once(" class=") {
                    site = sv.trim().to_string();
                    class = cv.trim().to_string();
                }
            }
        }
        if !property.is_empty() {
            out.push(Known { property, site, class, text: text.trim().to_string() });
        }
    }
    out
}

pub type ReplayFn = fn(&Arc<Ctx>, &Value);

/// Finish a check: confirm unlisted violations by re-execution, write evidence, print the verdict
/// lines and return the process exit code.
pub fn finish(ctx: &Arc<Ctx>, replay: Option<ReplayFn>) -> i32 {
    let known = load_known();
    let all = ctx.violations();
    let mut listed = Vec::new();
    let mut unlisted = Vec::new();
    for v in all {
        if known.iter().any(|k| k.property == ctx.prop && k.site == v.site && k.class == v.class) {
            listed.push(v);
        } else {
            unlisted.push(v);
        }
    }
    // determinism gate: a violation must reproduce from its replay record, executed on a fresh
    // thread: first the case alone, then (hidden state carried between calls) after its recorded prefix
    let mut unlisted = unlisted;
    let mut concurrent_budget = 16usize;
    let mut unstable = 0usize;
    let mut unstable_msgs: Vec<String> = Vec::new();
    if let Some(rf) = replay {
        for v in unlisted.iter_mut() {
            if v.no_gate {
                continue;
            }
            let alone = replay_on_fresh_thread(ctx, rf, &[], &v.case);
            if alone.iter().any(|w| w.site == v.site && w.class == v.class) {
                v.prefix.clear();
                continue;
            }
            let with_prefix = replay_on_fresh_thread(ctx, rf, &v.prefix, &v.case);
            if with_prefix.iter().any(|w| w.site == v.site && w.class == v.class) {
                v.detail = format!("HISTORY-DEPENDENT (passes in isolation, fails after the {} recorded earlier calls on the same thread): {}", v.prefix.len(), v.detail);
                continue;
            }
            // third stage: the same records on several threads at once (budget: 16 such violations, 5 s each)
            if concurrent_budget > 0 {
                concurrent_budget -= 1;
                let conc = replay_concurrently(ctx, rf, &v.prefix, &v.case, &v.site, &v.class, 8, std::time::Duration::from_secs(5));
                if !conc.is_empty() {
                    v.detail = format!("CONCURRENCY-DEPENDENT (passes in every sequential replay, fails when 8 threads execute the same calls at the same time - shared mutable state inside the library): {}", v.detail);
                    v.concurrent = true;
                    continue;
                }
            }
            unstable += 1;
            v.unstable = true;
            unstable_msgs.push(format!(
                "violation {} / {} did not reproduce from its replay record, alone or after its {}-case prefix (got {:?})",
                v.site,
                v.class,
                v.prefix.len(),
                with_prefix.iter().map(|w| (&w.site, &w.class)).collect::<Vec<_>>()
            ));
        }
    }
    // observations that no stage of the gate could reproduce: a machinery error if nothing else was confirmed (the
    // verdict would rest on them alone); otherwise they are set aside and listed in the evidence
    let unstable_obs: Vec<Value> = unlisted.iter().filter(|v| v.unstable).map(|v| json!({"site": v.site, "class": v.class, "count": v.count})).collect();
    unlisted.retain(|v| !v.unstable);
    if unstable > 0 && unlisted.is_empty() {
        for m in unstable_msgs {
            ctx.machinery_error(m);
        }
    }
    let wall = ctx.start.elapsed().as_secs_f64();
    let states = ctx.states.load(Ordering::Relaxed);
    let transitions = ctx.transitions.load(Ordering::Relaxed);
    let traces = ctx.traces.load(Ordering::Relaxed);
    let outcomes = ctx.outcomes.lock().unwrap().clone();
    let mut coverage = Map::new();
    coverage.insert("states".into(), json!(states));
    coverage.insert("transitions".into(), json!(transitions));
    coverage.insert("traces_validated_against_impl".into(), json!(traces));
    coverage.insert("max_depth".into(), json!(ctx.max_depth.load(Ordering::Relaxed)));
    coverage.insert("samples".into(), Value::Array(ctx.samples.lock().unwrap().clone()));
    coverage.insert("rule".into(), json!(ctx.rule.lock().unwrap().clone()));
    coverage.insert("bounds".into(), json!(ctx.bounds.lock().unwrap().clone()));
    coverage.insert("exhaustive".into(), json!(!ctx.capped.load(Ordering::Relaxed)));
    coverage.insert("evaluations".into(), json!(transitions));
    coverage.insert("distinct_nontrivial".into(), json!(states));
    coverage.insert("distinct_outcomes".into(), json!(outcomes.len()));
    coverage.insert("outcomes".into(), json!(outcomes));
    coverage.insert("structural".into(), json!(ctx.cov.lock().unwrap().clone()));
    coverage.insert(
        "known_findings_observed".into(),
        json!(listed.iter().map(|v| json!({"site": v.site, "class": v.class, "count": v.count})).collect::<Vec<_>>()),
    );
    coverage.insert(
        "unlisted_violations".into(),
        json!(unlisted.iter().map(|v| json!({"site": v.site, "class": v.class, "count": v.count, "detail": v.detail})).collect::<Vec<_>>()),
    );
    let merrs = ctx.machinery_errors.lock().unwrap().clone();
    coverage.insert("machinery_errors".into(), json!(merrs));
    coverage.insert("observations_not_reproduced_by_any_gate_stage".into(), json!(unstable_obs));
    let ev = json!({
        "property_id": ctx.prop,
        "tier": ctx.tier.name(),
        "seed": ctx.seed,
        "level": "model_checking",
        "coverage": Value::Object(coverage),
        "assumptions": ctx.assumptions.lock().unwrap().clone(),
        "wall_s": wall,
        "violations": unlisted.len(),
    });
    if !ctx.replaying {
        let dir = format!("{}/evidence", VERIF_ROOT);
        let _ = std::fs::create_dir_all(&dir);
        let path = format!("{}/{}.json", dir, ctx.prop);
        if let Err(e) = std::fs::write(&path, serde_json::to_string_pretty(&ev).unwrap()) {
            eprintln!("MACHINERY-ERROR: cannot write evidence {}: {}", path, e);
            return 3;
        }
    }
    println!(
        "{} tier={} seed={} states={} transitions={} traces={} outcomes={} wall={:.1}s",
        ctx.prop,
        ctx.tier.name(),
        ctx.seed,
        states,
        transitions,
        traces,
        outcomes.len(),
        wall
    );
    if !merrs.is_empty() {
        for e in &merrs {
            println!("MACHINERY-ERROR: {}", e);
        }
        return 2;
    }
    for v in &listed {
        let text = known
            .iter()
            .find(|k| k.property == ctx.prop && k.site == v.site && k.class == v.class)
            .map(|k| k.text.clone())
            .unwrap_or_default();
        println!("KNOWN-FINDING: property={} site={} class={} ({} cases) {}", ctx.prop, v.site, v.class, v.count, text);
    }
    if unlisted.is_empty() {
        if states == 0 || transitions == 0 {
            println!("MACHINERY-ERROR: vacuous run (no states or transitions)");
            return 2;
        }
        return 0;
    }
    let dir = format!("{}/replays", VERIF_ROOT);
    let _ = std::fs::create_dir_all(&dir);
    for (i, v) in unlisted.iter().enumerate() {
        let path = format!("{}/{}-{}-{}.json", dir, ctx.prop, ctx.tier.name(), i);
        let rec = json!({"property": ctx.prop, "site": v.site, "class": v.class, "detail": v.detail, "count": v.count, "seed": ctx.seed, "case": v.case, "prefix": v.prefix, "concurrent": v.concurrent});
        let _ = std::fs::write(&path, serde_json::to_string_pretty(&rec).unwrap());
        println!("VIOLATION property={} replay={}", ctx.prop, path);
        println!("  site={} class={} cases={} detail={}", v.site, v.class, v.count, truncate(&v.detail, 300));
    }
    1
}

/// execute `prefix` (results discarded) and then `case` on one fresh thread; returns the violations of `case`
pub fn replay_on_fresh_thread(ctx: &Arc<Ctx>, rf: ReplayFn, prefix: &[Value], case: &Value) -> Vec<Violation> {
    let (prop, tier, seed) = (ctx.prop, ctx.tier, ctx.seed);
    std::thread::scope(|s| {
        s.spawn(|| {
            let scratch = Ctx::new(prop, tier, seed, true);
            for p in prefix {
                let _ = guard(|| rf(&scratch, p));
            }
            let judged = Ctx::new(prop, tier, seed, true);
            let _ = guard(|| rf(&judged, case));
            judged.violations()
        })
        .join()
        .unwrap_or_default()
    })
}

/// Third stage of the determinism gate: `prefix` + `case` executed in a loop on `threads` threads AT THE SAME TIME.
/// A failure that needs another thread inside the library at the same moment (module-scope scratch state, a racy
/// process-wide cache) cannot be reproduced by any sequential schedule; this stage re-creates the condition under
/// which it was observed. It confirms an observed failure, it is never used to conclude that a property holds.
/// Returns the matching violations of the first failing iteration.
pub fn replay_concurrently(ctx: &Arc<Ctx>, rf: ReplayFn, prefix: &[Value], case: &Value, site: &str, class: &str, threads: usize, budget: std::time::Duration) -> Vec<Violation> {
    let (prop, tier, seed) = (ctx.prop, ctx.tier, ctx.seed);
    let stop = std::sync::atomic::AtomicBool::new(false);
    let found: Mutex<Vec<Violation>> = Mutex::new(Vec::new());
    let start = Instant::now();
    // only the tail of the prefix: enough to recreate related-input neighbourhoods, short enough to iterate often
    let tail = &prefix[prefix.len().saturating_sub(8)..];
    std::thread::scope(|s| {
        for _ in 0..threads {
            s.spawn(|| {
                let mut it = 0usize;
                while !stop.load(Ordering::Relaxed) && start.elapsed() < budget && it < 2000 {
                    it += 1;
                    let scratch = Ctx::new(prop, tier, seed, true);
                    for p in tail {
                        let _ = guard(|| rf(&scratch, p));
                    }
                    let judged = Ctx::new(prop, tier, seed, true);
                    let _ = guard(|| rf(&judged, case));
                    let vs: Vec<Violation> = judged.violations().into_iter().filter(|w| w.site == site && w.class == class).collect();
                    if !vs.is_empty() {
                        stop.store(true, Ordering::Relaxed);
                        let mut f = found.lock().unwrap();
                        if f.is_empty() {
                            *f = vs;
                        }
                        return;
                    }
                }
            });
        }
    });
    found.into_inner().unwrap()
}

/// cases currently executing: thread -> (start, replay record, prefix length) — read by the stall monitor
static RUNNING: Mutex<Option<std::collections::HashMap<std::thread::ThreadId, (Instant, Value)>>> = Mutex::new(None);

fn running_set(v: Option<Value>) {
    let id = std::thread::current().id();
    let mut g = RUNNING.lock().unwrap();
    let m = g.get_or_insert_with(Default::default);
    match v {
        Some(v) => {
            m.insert(id, (Instant::now(), v));
        }
        None => {
            m.remove(&id);
        }
    }
}

/// Start the stall monitor: a case that runs longer than `limit` is a non-terminating call (no check has
/// a case that legitimately takes more than a few seconds). The monitor records it as a violation of the
/// property (site "stalled case"), finishes the run and exits the process; the hung thread is abandoned.
pub fn start_stall_monitor(ctx: &Arc<Ctx>, limit: std::time::Duration) {
    let ctx = ctx.clone();
    std::thread::spawn(move || loop {
        std::thread::sleep(std::time::Duration::from_millis(500));
        let stalled: Option<Value> = {
            let g = RUNNING.lock().unwrap();
            g.as_ref().and_then(|m| m.values().find(|(t, _)| t.elapsed() > limit).map(|(_, v)| v.clone()))
        };
        if let Some(case) = stalled {
            ctx.violation_timeout("stalled case", "does-not-terminate", format!("a library call inside this case did not return within {} s: {}", limit.as_secs(), truncate(&case.to_string(), 400)), case, vec![]);
            let code = finish(&ctx, None);
            std::process::exit(code);
        }
    });
}

/// E2 driver: cases are executed in fixed-size chunks, each chunk sequentially on its own fresh
/// thread (so hidden per-thread state in the library starts clean and the call history in front of
/// every case is deterministic and recorded), chunks in parallel.
pub fn run_cases<C: serde::Serialize + Sync>(ctx: &Arc<Ctx>, cases: &[C], chunk: usize, eval: impl Fn(&Ctx, &C) + Sync) {
    use rayon::prelude::*;
    cases.par_chunks(chunk.max(1)).for_each(|ch| {
        std::thread::scope(|s| {
            let h = s.spawn(|| {
                PREFIX.with(|p| p.borrow_mut().clear());
                for c in ch {
                    let rec = serde_json::to_value(c).unwrap();
                    running_set(Some(rec.clone()));
                    eval(ctx, c);
                    running_set(None);
                    PREFIX.with(|p| p.borrow_mut().push(rec));
                }
            });
            if h.join().is_err() {
                ctx.machinery_error("case evaluation panicked outside a guarded library call");
            }
        });
    });
}

/// all orderings of the given items (used to build call sequences over related inputs)
pub fn permutations<T: Clone>(items: &[T]) -> Vec<Vec<T>> {
    if items.len() <= 1 {
        return vec![items.to_vec()];
    }
    let mut out = Vec::new();
    for i in 0..items.len() {
        let mut rest = items.to_vec();
        let x = rest.remove(i);
        for mut p in permutations(&rest) {
            p.insert(0, x.clone());
            out.push(p);
        }
    }
    out
}

/// Sequences of equal length: each sequence is executed in order on its own fresh thread
pub fn run_sequences<C: serde::Serialize + Sync + Clone>(ctx: &Arc<Ctx>, seqs: &[Vec<C>], eval: impl Fn(&Ctx, &C) + Sync) {
    if seqs.is_empty() {
        return;
    }
    let l = seqs[0].len();
    assert!(seqs.iter().all(|s| s.len() == l));
    let flat: Vec<C> = seqs.iter().flat_map(|s| s.iter().cloned()).collect();
    run_cases(ctx, &flat, l, eval);
}

pub fn truncate(s: &str, n: usize) -> String {
    if s.len() <= n {
        s.to_string()
    } else {
        let mut e = n;
        while !s.is_char_boundary(e) {
            e -= 1;
        }
        format!("{}…", &s[..e])
    }
}

// ------------------------------------------------------------------------------------------
// E1: explicit-state exploration of choice histories on the real code, driven by stateright BFS.
// A state is the history of choices; `visit` re-executes the history on the real code and checks
// the invariant (recording violations in the Ctx), so the search itself never stops early.

use stateright::{Checker, Model, Property};

pub struct HistModel {
    pub inits: Vec<Vec<u16>>,
    pub actions: Box<dyn Fn(&[u16]) -> Vec<u16> + Send + Sync>,
    /// re-executes the history on the real code and judges it; should end with `prefix_push(replay record)`
    pub visit: Arc<dyn Fn(&[u16]) + Send + Sync>,
    /// visits are executed on helper threads that are replaced by a fresh thread every `batch`
    /// visits (1 = every history on its own fresh thread). Hidden per-thread state in the library
    /// therefore starts clean at a known point and the visits since then are recorded (PREFIX).
    pub batch: usize,
}

/// record the replay record of a finished visit/case on this thread (see Violation::prefix)
pub fn prefix_push(v: Value) {
    PREFIX.with(|p| p.borrow_mut().push(v));
}

struct Helper {
    tx: Option<std::sync::mpsc::Sender<Vec<u16>>>,
    done: std::sync::mpsc::Receiver<()>,
    n: usize,
    handle: Option<std::thread::JoinHandle<()>>,
}
impl Helper {
    fn spawn(visit: Arc<dyn Fn(&[u16]) + Send + Sync>) -> Helper {
        let (tx, rx) = std::sync::mpsc::channel::<Vec<u16>>();
        let (dtx, drx) = std::sync::mpsc::channel::<()>();
        let handle = std::thread::spawn(move || {
            while let Ok(state) = rx.recv() {
                running_set(Some(json!({"history": state})));
                let _ = guard(|| visit(&state));
                running_set(None);
                if dtx.send(()).is_err() {
                    break;
                }
            }
        });
        Helper { tx: Some(tx), done: drx, n: 0, handle: Some(handle) }
    }
}
impl Drop for Helper {
    fn drop(&mut self) {
        self.tx.take();
        if let Some(h) = self.handle.take() {
            let _ = h.join();
        }
    }
}
thread_local! {
    static HELPER: std::cell::RefCell<Option<Helper>> = std::cell::RefCell::new(None);
}

impl Model for HistModel {
    type State = Vec<u16>;
    type Action = u16;
    fn init_states(&self) -> Vec<Self::State> {
        self.inits.clone()
    }
    fn actions(&self, state: &Self::State, actions: &mut Vec<Self::Action>) {
        actions.extend((self.actions)(state));
    }
    fn next_state(&self, last: &Self::State, action: Self::Action) -> Option<Self::State> {
        let mut s = last.clone();
        s.push(action);
        Some(s)
    }
    fn properties(&self) -> Vec<Property<Self>> {
        vec![Property::always("invariant evaluated on every history", |m: &HistModel, s: &Vec<u16>| {
            HELPER.with(|h| {
                let mut h = h.borrow_mut();
                let renew = match h.as_ref() {
                    None => true,
                    Some(x) => x.n >= m.batch.max(1),
                };
                if renew {
                    *h = None; // joins the old helper
                    *h = Some(Helper::spawn(m.visit.clone()));
                }
                let x = h.as_mut().unwrap();
                x.n += 1;
                let sent = x.tx.as_ref().map(|t| t.send(s.clone()).is_ok()).unwrap_or(false);
                if !sent || x.done.recv().is_err() {
                    *h = None;
                }
            });
            true
        })]
    }
}

pub struct ExploreStats {
    pub unique_states: u64,
    pub generated: u64,
    pub max_depth: u64,
}

/// Exhaustive BFS that only *collects* the histories (for models whose invariant is expensive:
/// stateright balances load per batch of states, so heavy visits are evaluated afterwards with
/// `run_cases`, which spreads them evenly; the set of states judged is exactly the set explored).
pub fn explore_collect(inits: Vec<Vec<u16>>, actions: Box<dyn Fn(&[u16]) -> Vec<u16> + Send + Sync>) -> (ExploreStats, Vec<Vec<u16>>) {
    let acc: Arc<Mutex<Vec<Vec<u16>>>> = Arc::new(Mutex::new(Vec::new()));
    let a2 = acc.clone();
    let model = HistModel { inits, actions, visit: Arc::new(move |h: &[u16]| a2.lock().unwrap().push(h.to_vec())), batch: 1 << 20 };
    let st = explore(model);
    let mut v = std::mem::take(&mut *acc.lock().unwrap());
    v.sort();
    (st, v)
}

/// exhaustive BFS over all histories; returns stateright's own counts
pub fn explore(model: HistModel) -> ExploreStats {
    let threads = std::thread::available_parallelism().map(|n| n.get()).unwrap_or(4);
    let checker = model.checker().threads(threads).spawn_bfs().join();
    ExploreStats {
        unique_states: checker.unique_state_count() as u64,
        generated: checker.state_count() as u64,
        max_depth: checker.max_depth() as u64,
    }
}

/// Carries a library object to another thread whatever auto traits its current definition has: a
/// change that makes a cipher object !Send / !Sync must not stop the harness from building (that would be a
/// machinery error, not a verdict).  Every use hands the object over through spawn / join, never
/// concurrently, so no access races with another.
pub struct Xfer<T>(T);
unsafe impl<T> Send for Xfer<T> {}
unsafe impl<T> Sync for Xfer<T> {}
impl<T> Xfer<T> {
    pub fn new(t: T) -> Self {
        Xfer(t)
    }
    pub fn get(&self) -> &T {
        &self.0
    }
    pub fn get_mut(&mut self) -> &mut T {
        &mut self.0
    }
    pub fn into_inner(self) -> T {
        self.0
    }
}
