fn main() {}
