//! gmverif — bounded exhaustive model checking of gm-rs against reference models.
//!   gmverif check <Cxx> [--tier quick|thorough]
//!   gmverif replay <file>
//!   gmverif selftest
mod alpha;
mod engine;
mod c01;
mod c02;
mod c03;
mod c04;
mod c05;
mod c06;
mod sm2api;
mod c07;
mod c08;
mod c09;
mod c10;
mod c11;
mod c12;
mod c16;
mod c17;
mod c13;
mod c14;
mod c15;
mod sm9api;
mod c18;
mod c19;
mod c20;
mod cold;

use engine::*;
use std::sync::Arc;

type RunFn = fn(&Arc<Ctx>);

fn registry(id: &str) -> Option<(&'static str, RunFn, ReplayFn)> {
    Some(match id {
        "C01" => ("C01", c01::run as RunFn, c01::replay as ReplayFn),
        "C02" => ("C02", c02::run as RunFn, c02::replay as ReplayFn),
        "C03" => ("C03", c03::run as RunFn, c03::replay as ReplayFn),
        "C04" => ("C04", c04::run as RunFn, c04::replay as ReplayFn),
        "C05" => ("C05", c05::run as RunFn, c05::replay as ReplayFn),
        "C06" => ("C06", c06::run as RunFn, c06::replay as ReplayFn),
        "C07" => ("C07", c07::run as RunFn, c07::replay as ReplayFn),
        "C08" => ("C08", c08::run as RunFn, c08::replay as ReplayFn),
        "C09" => ("C09", c09::run as RunFn, c09::replay as ReplayFn),
        "C10" => ("C10", c10::run as RunFn, c10::replay as ReplayFn),
        "C11" => ("C11", c11::run as RunFn, c11::replay as ReplayFn),
        "C12" => ("C12", c12::run as RunFn, c12::replay as ReplayFn),
        "C16" => ("C16", c16::run as RunFn, c16::replay as ReplayFn),
        "C13" => ("C13", c13::run as RunFn, c13::replay as ReplayFn),
        "C14" => ("C14", c14::run as RunFn, c14::replay as ReplayFn),
        "C15" => ("C15", c15::run as RunFn, c15::replay as ReplayFn),
        "C17" => ("C17", c17::run as RunFn, c17::replay as ReplayFn),
        "C18" => ("C18", c18::run as RunFn, c18::replay as ReplayFn),
        "C19" => ("C19", c19::run as RunFn, c19::replay as ReplayFn),
        "C20" => ("C20", c20::run as RunFn, c20::replay as ReplayFn),
        _ => return None,
    })
}

fn main() {
    install_panic_hook();
    let args: Vec<String> = std::env::args().collect();
    let seed: u64 = std::env::var("VERIF_SEED").ok().and_then(|s| s.parse().ok()).unwrap_or(0);
    match args.get(1).map(|s| s.as_str()) {
        Some("check") => {
            let id = args.get(2).cloned().unwrap_or_default();
            let mut tier = match std::env::var("VERIF_TIER").as_deref() {
                Ok("thorough") => Tier::Thorough,
                _ => Tier::Quick,
            };
            let mut i = 3;
            while i < args.len() {
                if args[i] == "--tier" {
                    tier = if args.get(i + 1).map(|s| s.as_str()) == Some("thorough") { Tier::Thorough } else { Tier::Quick };
                    i += 1;
                } else if args[i] == "quick" {
                    tier = Tier::Quick;
                } else if args[i] == "thorough" {
                    tier = Tier::Thorough;
                }
                i += 1;
            }
            let Some((pid, run, replay)) = registry(&id) else {
                eprintln!("MACHINERY-ERROR: unknown property {}", id);
                std::process::exit(4);
            };
            let ctx = Ctx::new(pid, tier, seed, false);
            // C20 has its own per-call watchdog in child processes; every other check gets the stall monitor
            if pid != "C20" {
                start_stall_monitor(&ctx, std::time::Duration::from_secs(if pid == "C01" || pid == "C17" || pid == "C05" { 180 } else { 60 }));
            }
            let r = guard(|| run(&ctx));
            if let Guard::Panic(p) = r {
                println!("MACHINERY-ERROR: check body panicked: {}", p);
                std::process::exit(2);
            }
            std::process::exit(finish(&ctx, Some(replay)));
        }
        Some("replay") => {
            let path = args.get(2).expect("replay file");
            let s = std::fs::read_to_string(path).expect("read replay file");
            let v: serde_json::Value = serde_json::from_str(&s).expect("json");
            let id = v["property"].as_str().expect("property").to_string();
            let rseed = v["seed"].as_u64().unwrap_or(seed);
            let Some((pid, _run, replay)) = registry(&id) else {
                eprintln!("MACHINERY-ERROR: unknown property {}", id);
                std::process::exit(4);
            };
            let ctx = Ctx::new(pid, Tier::Quick, rseed, true);
            let prefix: Vec<serde_json::Value> = v["prefix"].as_array().cloned().unwrap_or_default();
            if !prefix.is_empty() {
                println!("REPLAY: executing {} recorded earlier calls first (history-dependent failure)", prefix.len());
            }
            // a replayed hang must not hang the replay
            let (tx, rx) = std::sync::mpsc::channel();
            let (c2, case2) = (ctx.clone(), v["case"].clone());
            let concurrent = v["concurrent"].as_bool().unwrap_or(false);
            let (site, class) = (v["site"].as_str().unwrap_or("").to_string(), v["class"].as_str().unwrap_or("").to_string());
            if concurrent {
                println!("REPLAY: concurrency-dependent failure: executing the recorded calls on 8 threads at the same time (up to 20 s)");
            }
            std::thread::spawn(move || {
                let r = if concurrent { replay_concurrently(&c2, replay, &prefix, &case2, &site, &class, 8, std::time::Duration::from_secs(20)) } else { replay_on_fresh_thread(&c2, replay, &prefix, &case2) };
                let _ = tx.send(r);
            });
            let vs = match rx.recv_timeout(std::time::Duration::from_secs(120)) {
                Ok(vs) => vs,
                Err(_) => {
                    println!("REPLAY property={} site=stalled case class=does-not-terminate detail=no result within 120 s", pid);
                    std::process::exit(1);
                }
            };
            if vs.is_empty() {
                println!("REPLAY property={} : no violation reproduced", pid);
                std::process::exit(0);
            }
            for w in vs {
                println!("REPLAY property={} site={} class={} detail={}", pid, w.site, w.class, w.detail);
            }
            std::process::exit(1);
        }
        Some("c20child") => {
            let tier = if args.get(2).map(|s| s.as_str()) == Some("thorough") { Tier::Thorough } else { Tier::Quick };
            let cseed: u64 = args.get(3).and_then(|s| s.parse().ok()).unwrap_or(0);
            let start: usize = args.get(4).and_then(|s| s.parse().ok()).unwrap_or(0);
            let end: usize = args.get(5).and_then(|s| s.parse().ok()).unwrap_or(0);
            c20::child_main(tier, cseed, start, end);
        }
        Some("c20case") => c20::case_main(),
        Some("cold") => cold::child_main(args.get(2).map(|s| s.as_str()).unwrap_or("")),
        Some("tool") => match args.get(2).map(|s| s.as_str()) {
            Some("search-c1") => c19::search_c1_scalars(),
            Some("search-sig") => c04::search_small_components(),
            Some("draw") => c14::print_draws(),
            Some("search-e") => c04::search_big_e(),
            Some("search-zuc") => c08::search_s16_zero_work(),
            _ => eprintln!("unknown tool"),
        },
        Some("selftest") => {
            match refmodels::selftest::run(&["sm3", "sm4long", "zuc", "sm2", "sm9"]) {
                Ok(()) => println!("reference self-tests ok"),
                Err(e) => {
                    println!("MACHINERY-ERROR: {}", e);
                    std::process::exit(2);
                }
            }
        }
        _ => {
            eprintln!("usage: gmverif check <Cxx> [--tier quick|thorough] | replay <file> | selftest");
            std::process::exit(4);
        }
    }
}
