//! Adaptors between the gm-sm2 API (little-endian u64 limbs, Montgomery-form Jacobian points) and
//! the big-integer reference. Conversions are done with big integers here, not with library code.
use gm_sm2::key::{Sm2PrivateKey, Sm2PublicKey};
use gm_sm2::p256_ecc::Point;
use gm_sm2::verif::{rng_set, rng_take_log, RngLog, RngMode};
use num_bigint::BigUint;
use num_traits::{One, Zero};
use refmodels::sm2::{self, Pt};
use refmodels::util::{from_limbs, to32, to_limbs};
use std::collections::HashMap;
use std::sync::Mutex;

pub fn r256() -> BigUint {
    BigUint::one() << 256
}
pub fn to_mont(x: &BigUint) -> [u64; 4] {
    let p = &sm2::params().p;
    to_limbs(&((x * r256()) % p))
}
pub fn from_mont(l: &[u64; 4]) -> BigUint {
    let p = &sm2::params().p;
    let rinv = r256().modpow(&(p - BigUint::from(2u32)), p);
    let raw = from_limbs(l);
    if &raw >= p {
        // a stored value outside [0, p) is not a field element of this library (is_zero / == compare limbs): it must
        // never equal an expected value (all of which are below p), so it is handed on as it is instead of being reduced
        return raw;
    }
    (raw * rinv) % p
}

/// library point for the affine point (x, y) in the Jacobian representation with Z = lambda
pub fn lib_point(pt: &Pt, lambda: &BigUint) -> Point {
    let p = &sm2::params().p;
    match pt {
        None => Point { x: to_mont(&BigUint::one()), y: to_mont(&BigUint::one()), z: [0; 4] },
        Some((x, y)) => {
            let l2 = (lambda * lambda) % p;
            let l3 = (&l2 * lambda) % p;
            Point { x: to_mont(&((x * &l2) % p)), y: to_mont(&((y * &l3) % p)), z: to_mont(lambda) }
        }
    }
}
pub fn lib_point_affine(pt: &Pt) -> Point {
    lib_point(pt, &BigUint::one())
}
/// raw (possibly off-curve) coordinates as a Z=1 library point
pub fn lib_point_raw(x: &BigUint, y: &BigUint) -> Point {
    Point { x: to_mont(x), y: to_mont(y), z: to_mont(&BigUint::one()) }
}

/// affine value of a library point, computed with big integers (None = infinity, Z = 0)
pub fn ref_point(pt: &Point) -> Pt {
    let p = &sm2::params().p;
    let z = from_mont(&pt.z);
    if z.is_zero() {
        return None;
    }
    let zi = z.modpow(&(p - BigUint::from(2u32)), p);
    let zi2 = (&zi * &zi) % p;
    let zi3 = (&zi2 * &zi) % p;
    Some(((from_mont(&pt.x) * zi2) % p, (from_mont(&pt.y) * zi3) % p))
}

pub fn scalar(l: &BigUint) -> [u64; 4] {
    to_limbs(l)
}

pub fn public_key(pt: &Pt) -> Sm2PublicKey {
    Sm2PublicKey { point: lib_point_affine(pt) }
}
/// bypasses `Sm2PrivateKey::new` (public fields): d with its reference public key
pub fn private_key(d: &BigUint) -> Sm2PrivateKey {
    private_key_with(d, public_key(&sm2::g_mul(d)))
}
/// a key object holding d and the given public-key object: built by the constructor for d = 1 and then overwritten
/// through the public fields, so that a private field added to the struct does not stop the harness from building
pub fn private_key_with(d: &BigUint, pk: Sm2PublicKey) -> Sm2PrivateKey {
    // any valid key will do as the shell (a build that wrongly refuses one boundary key must still be checkable)
    let mut sk = [1u8, 2, 3, 0x5a]
        .iter()
        .find_map(|b| {
            let mut bytes = [0u8; 32];
            bytes[31] = *b;
            bytes[7] = if *b == 0x5a { 0x5a } else { 0 };
            Sm2PrivateKey::new(&bytes).ok()
        })
        .expect("the constructor accepts none of the private keys 1, 2, 3, 5a..5a");
    sk.d = to_limbs(d);
    sk.public_key = pk;
    sk
}

/// `Option<&'static str>` IDs: strings are interned and leaked once
pub fn static_id(id: &str) -> &'static str {
    static M: Mutex<Option<HashMap<String, &'static str>>> = Mutex::new(None);
    let mut g = M.lock().unwrap();
    let m = g.get_or_insert_with(HashMap::new);
    if let Some(s) = m.get(id) {
        return s;
    }
    let s: &'static str = Box::leak(id.to_string().into_boxed_str());
    m.insert(id.to_string(), s);
    s
}

pub fn cand(x: &BigUint) -> [u8; 32] {
    to32(x)
}

/// run `f` with the RNG seam scripted to offer exactly `queue`; returns the result and the seam log.
/// A panic with VERIF_RNG_EXHAUSTED means the operation asked for more candidates than offered.
pub fn with_rng<T>(queue: Vec<[u8; 32]>, f: impl FnOnce() -> T) -> (crate::engine::Guard<T>, RngLog) {
    rng_set(RngMode::Scripted, queue);
    let r = crate::engine::guard(f);
    let log = rng_take_log();
    rng_set(RngMode::Off, vec![]);
    (r, log)
}

pub fn with_rng_record<T>(f: impl FnOnce() -> T) -> (crate::engine::Guard<T>, RngLog) {
    rng_set(RngMode::Record, vec![]);
    let r = crate::engine::guard(f);
    let log = rng_take_log();
    rng_set(RngMode::Off, vec![]);
    (r, log)
}

pub fn is_exhausted(p: &str) -> bool {
    p.contains("VERIF_RNG_EXHAUSTED")
}

pub fn hexbig(x: &BigUint) -> String {
    hex::encode(to32(x))
}
