//! Adaptors between the gm-sm9 API (Montgomery-form Jacobian points, tower types behind the
//! verification hooks) and the big-integer reference. Conversions use big integers, not library code.
use gm_sm9::fields::FieldElement;
use gm_sm9::points::{Point, TwistPoint};
use gm_sm9::verif::{self as hook, Fp12, Fp2, Fp4, RngLog, RngMode};
use num_bigint::BigUint;
use num_traits::{One, Zero};
use refmodels::ec::E2;
use refmodels::sm9::{self, F12, G1, G2};
use refmodels::util::{from_limbs, to32, to_limbs};

pub fn r256() -> BigUint {
    BigUint::one() << 256usize
}
pub fn to_mont(x: &BigUint) -> [u64; 4] {
    let p = &sm9::params().p;
    to_limbs(&((x * r256()) % p))
}
pub fn from_mont(l: &[u64; 4]) -> BigUint {
    let p = &sm9::params().p;
    static RINV: std::sync::OnceLock<BigUint> = std::sync::OnceLock::new();
    let rinv = RINV.get_or_init(|| r256().modpow(&(p - BigUint::from(2u32)), p));
    let raw = from_limbs(l);
    if &raw >= p {
        // a stored value outside [0, p) is not a field element of this library (is_zero / == compare limbs): it must
        // never equal an expected value (all of which are below p), so it is handed on as it is instead of being reduced
        return raw;
    }
    (raw * rinv) % p
}

// ---- G1
pub fn lib_g1(pt: &G1, lambda: &BigUint) -> Point {
    let p = &sm9::params().p;
    match pt {
        None => Point { x: to_mont(&BigUint::one()), y: to_mont(&BigUint::one()), z: [0; 4] },
        Some((x, y)) => {
            let l2 = (lambda * lambda) % p;
            let l3 = (&l2 * lambda) % p;
            Point { x: to_mont(&((x * &l2) % p)), y: to_mont(&((y * &l3) % p)), z: to_mont(lambda) }
        }
    }
}
pub fn lib_g1_affine(pt: &G1) -> Point {
    lib_g1(pt, &BigUint::one())
}
pub fn lib_g1_raw(x: &BigUint, y: &BigUint) -> Point {
    Point { x: to_mont(x), y: to_mont(y), z: to_mont(&BigUint::one()) }
}
pub fn ref_g1(pt: &Point) -> G1 {
    let p = &sm9::params().p;
    let z = from_mont(&pt.z);
    if z.is_zero() {
        return None;
    }
    let zi = z.modpow(&(p - BigUint::from(2u32)), p);
    let zi2 = (&zi * &zi) % p;
    let zi3 = (&zi2 * &zi) % p;
    Some(((from_mont(&pt.x) * zi2) % p, (from_mont(&pt.y) * zi3) % p))
}

// ---- Fp2 / Fp4 / Fp12 (through the hooks)
pub fn lib_f2(a: &E2) -> Fp2 {
    hook::fp2(to_mont(&a.0), to_mont(&a.1))
}
pub fn ref_f2(a: &Fp2) -> E2 {
    let [c0, c1] = hook::fp2_parts(a);
    (from_mont(&c0), from_mont(&c1))
}
/// reference Fp4 = (a0, a1) with a0 + a1 v, v^2 = u
pub type E4 = (E2, E2);
pub fn lib_f4(a: &E4) -> Fp4 {
    hook::fp4(lib_f2(&a.0), lib_f2(&a.1))
}
pub fn ref_f4(a: &Fp4) -> E4 {
    let [c0, c1] = hook::fp4_parts(a);
    (ref_f2(&c0), ref_f2(&c1))
}
/// polynomial-basis element -> library tower: c_k = coefficient of w^k in Fp4 (1, v = w^3; Fp2: 1, u = w^6)
pub fn lib_f12(a: &F12) -> Fp12 {
    let f4 = |k: usize| -> Fp4 { hook::fp4(lib_f2(&(a[k].clone(), a[k + 6].clone())), lib_f2(&(a[k + 3].clone(), a[k + 9].clone()))) };
    hook::fp12(f4(0), f4(1), f4(2))
}
pub fn ref_f12(a: &Fp12) -> F12 {
    let parts = hook::fp12_parts(a);
    let mut v = sm9::f12_zero();
    for k in 0..3 {
        let (lo, hi) = ref_f4(&parts[k]);
        v[k] = lo.0;
        v[k + 6] = lo.1;
        v[k + 3] = hi.0;
        v[k + 9] = hi.1;
    }
    v
}
pub fn f12_hex(a: &F12) -> String {
    hex::encode(&sm9::f12_bytes(a)[..64])
}

// ---- G2
pub fn lib_g2(pt: &G2, lambda: &E2) -> TwistPoint {
    let f = &sm9::params().e2.f;
    use refmodels::ec::Fld;
    match pt {
        None => hook::twist_point(lib_f2(&f.one()), lib_f2(&f.one()), lib_f2(&f.zero())),
        Some((x, y)) => {
            let l2 = f.sqr(lambda);
            let l3 = f.mul(&l2, lambda);
            hook::twist_point(lib_f2(&f.mul(x, &l2)), lib_f2(&f.mul(y, &l3)), lib_f2(lambda))
        }
    }
}
pub fn lib_g2_affine(pt: &G2) -> TwistPoint {
    lib_g2(pt, &(BigUint::one(), BigUint::zero()))
}
pub fn ref_g2(pt: &TwistPoint) -> G2 {
    let f = &sm9::params().e2.f;
    use refmodels::ec::Fld;
    let (x, y, z) = (ref_f2(&pt.x), ref_f2(&pt.y), ref_f2(&pt.z));
    if f.is_zero(&z) {
        return None;
    }
    let zi = f.inv(&z);
    let zi2 = f.sqr(&zi);
    let zi3 = f.mul(&zi2, &zi);
    Some((f.mul(&x, &zi2), f.mul(&y, &zi3)))
}

pub fn scalar(x: &BigUint) -> [u64; 4] {
    to_limbs(x)
}
pub fn cand(x: &BigUint) -> [u8; 32] {
    to32(x)
}
pub fn hexbig(x: &BigUint) -> String {
    hex::encode(to32(x))
}
pub fn g1_str(p: &G1) -> String {
    match p {
        None => "infinity".into(),
        Some((x, y)) => format!("({}, {})", hexbig(x), hexbig(y)),
    }
}
pub fn g2_str(p: &G2) -> String {
    match p {
        None => "infinity".into(),
        Some((x, y)) => format!("(({}, {}), ({}, {}))", hexbig(&x.0), hexbig(&x.1), hexbig(&y.0), hexbig(&y.1)),
    }
}

pub fn with_rng<T>(queue: Vec<[u8; 32]>, f: impl FnOnce() -> T) -> (crate::engine::Guard<T>, RngLog) {
    hook::rng_set(RngMode::Scripted, queue);
    let r = crate::engine::guard(f);
    let log = hook::rng_take_log();
    hook::rng_set(RngMode::Off, vec![]);
    (r, log)
}
pub fn is_exhausted(p: &str) -> bool {
    p.contains("VERIF_RNG_EXHAUSTED")
}

/// library Fp12 value as reference element via its public 384-byte encoding
pub fn f12_via_bytes(a: &Fp12) -> F12 {
    sm9::f12_from_bytes(&a.to_bytes_be())
}

/// named Jacobian Z values for key objects: G1 names {"1","2","p-1","seed"}, G2 names {"1","fp:2","fp:p-1","fp:seed","imag:1","imag:seed","generic"}
pub fn z1_named(name: &str, seed: u64) -> BigUint {
    let p = &sm9::params().p;
    match name {
        "1" => BigUint::one(),
        "2" => BigUint::from(2u32),
        "p-1" => p - 1u32,
        _ => refmodels::util::SplitMix::new(seed, "z1named").nonzero_below(p),
    }
}
pub fn z2_named(name: &str, seed: u64) -> E2 {
    let p = &sm9::params().p;
    let mut g = refmodels::util::SplitMix::new(seed, "z2named");
    let (a, b) = (g.nonzero_below(p), g.nonzero_below(p));
    match name {
        "1" => (BigUint::one(), BigUint::zero()),
        "fp:2" => (BigUint::from(2u32), BigUint::zero()),
        "fp:p-1" => (p - 1u32, BigUint::zero()),
        "fp:seed" => (a, BigUint::zero()),
        "imag:1" => (BigUint::zero(), BigUint::one()),
        "imag:seed" => (BigUint::zero(), b),
        _ => (a, b),
    }
}
pub const Z1_NAMES: [&str; 4] = ["1", "2", "p-1", "seed"];
pub const Z2_NAMES: [&str; 7] = ["1", "fp:2", "fp:p-1", "fp:seed", "imag:1", "imag:seed", "generic"];
/// parse "…/Zq=<name>/Zp=<name>" out of a tag
pub fn z_names(tag: &str) -> Option<(String, String)> {
    let i = tag.find("Zq=")?;
    let rest = &tag[i + 3..];
    let j = rest.find("/Zp=")?;
    Some((rest[..j].to_string(), rest[j + 4..].to_string()))
}
