//! Minimal independent DER reader/writer (definite lengths only).
use num_bigint::BigUint;

#[derive(Debug, Clone, PartialEq)]
pub struct Tlv<'a> {
    pub tag: u8,
    pub val: &'a [u8],
}

/// parse one TLV from the front of `b`; returns it and the rest
pub fn read_tlv(b: &[u8]) -> Option<(Tlv<'_>, &[u8])> {
    if b.len() < 2 {
        return None;
    }
    let tag = b[0];
    let (len, hdr) = if b[1] < 0x80 {
        (b[1] as usize, 2)
    } else {
        let nb = (b[1] & 0x7f) as usize;
        if nb == 0 || nb > 4 || b.len() < 2 + nb {
            return None;
        }
        let mut l = 0usize;
        for i in 0..nb {
            l = (l << 8) | b[2 + i] as usize;
        }
        // DER: minimal length encoding
        if l < 0x80 || (nb > 1 && b[2] == 0) {
            return None;
        }
        (l, 2 + nb)
    };
    if b.len() < hdr + len {
        return None;
    }
    Some((Tlv { tag, val: &b[hdr..hdr + len] }, &b[hdr + len..]))
}

/// all TLVs inside a constructed value
pub fn read_all(mut b: &[u8]) -> Option<Vec<Tlv<'_>>> {
    let mut v = Vec::new();
    while !b.is_empty() {
        let (t, rest) = read_tlv(b)?;
        v.push(t);
        b = rest;
    }
    Some(v)
}

/// whole document must be exactly one TLV with the given tag
pub fn expect_single(b: &[u8], tag: u8) -> Option<&[u8]> {
    let (t, rest) = read_tlv(b)?;
    if t.tag != tag || !rest.is_empty() {
        return None;
    }
    Some(t.val)
}

/// non-negative, minimally encoded INTEGER
pub fn int_value(t: &Tlv) -> Option<BigUint> {
    if t.tag != 0x02 || t.val.is_empty() {
        return None;
    }
    if t.val[0] & 0x80 != 0 {
        return None; // negative
    }
    if t.val.len() > 1 && t.val[0] == 0 && t.val[1] & 0x80 == 0 {
        return None; // non-minimal
    }
    Some(BigUint::from_bytes_be(t.val))
}

pub fn write_len(out: &mut Vec<u8>, len: usize) {
    if len < 0x80 {
        out.push(len as u8);
    } else if len < 0x100 {
        out.push(0x81);
        out.push(len as u8);
    } else if len < 0x10000 {
        out.push(0x82);
        out.push((len >> 8) as u8);
        out.push(len as u8);
    } else {
        out.push(0x83);
        out.push((len >> 16) as u8);
        out.push((len >> 8) as u8);
        out.push(len as u8);
    }
}
pub fn tlv(tag: u8, val: &[u8]) -> Vec<u8> {
    let mut o = vec![tag];
    write_len(&mut o, val.len());
    o.extend_from_slice(val);
    o
}
pub fn integer(x: &BigUint) -> Vec<u8> {
    let mut b = x.to_bytes_be();
    if b[0] & 0x80 != 0 {
        b.insert(0, 0);
    }
    tlv(0x02, &b)
}
pub fn octets(b: &[u8]) -> Vec<u8> {
    tlv(0x04, b)
}
pub fn sequence(parts: &[Vec<u8>]) -> Vec<u8> {
    tlv(0x30, &parts.concat())
}

/// GM/T 0009 SM2 ciphertext: SEQUENCE { x INTEGER, y INTEGER, hash OCTET STRING, ct OCTET STRING }
pub fn sm2_cipher_encode(x: &BigUint, y: &BigUint, hash: &[u8], ct: &[u8]) -> Vec<u8> {
    sequence(&[integer(x), integer(y), octets(hash), octets(ct)])
}
pub fn sm2_cipher_decode(doc: &[u8]) -> Option<(BigUint, BigUint, Vec<u8>, Vec<u8>)> {
    let body = expect_single(doc, 0x30)?;
    let items = read_all(body)?;
    if items.len() != 4 || items[2].tag != 0x04 || items[3].tag != 0x04 {
        return None;
    }
    Some((int_value(&items[0])?, int_value(&items[1])?, items[2].val.to_vec(), items[3].val.to_vec()))
}

pub const OID_EC_PUBLIC_KEY: [u8; 7] = [0x2a, 0x86, 0x48, 0xce, 0x3d, 0x02, 0x01]; // 1.2.840.10045.2.1
pub const OID_SM2: [u8; 8] = [0x2a, 0x81, 0x1c, 0xcf, 0x55, 0x01, 0x82, 0x2d]; // 1.2.156.10197.1.301

/// SubjectPublicKeyInfo for SM2: returns the SEC1 point bytes
pub fn spki_decode(doc: &[u8]) -> Option<Vec<u8>> {
    let body = expect_single(doc, 0x30)?;
    let items = read_all(body)?;
    if items.len() != 2 || items[0].tag != 0x30 || items[1].tag != 0x03 {
        return None;
    }
    let alg = read_all(items[0].val)?;
    if alg.len() != 2 || alg[0].tag != 0x06 || alg[1].tag != 0x06 {
        return None;
    }
    if alg[0].val != OID_EC_PUBLIC_KEY || alg[1].val != OID_SM2 {
        return None;
    }
    let bs = items[1].val;
    if bs.is_empty() || bs[0] != 0 {
        return None;
    }
    Some(bs[1..].to_vec())
}
pub fn spki_encode(point: &[u8]) -> Vec<u8> {
    let alg = sequence(&[tlv(0x06, &OID_EC_PUBLIC_KEY), tlv(0x06, &OID_SM2)]);
    let mut bs = vec![0u8];
    bs.extend_from_slice(point);
    sequence(&[alg, tlv(0x03, &bs)])
}

/// PKCS#8 PrivateKeyInfo { 0, AlgId{ecPublicKey, sm2}, OCTET STRING { ECPrivateKey { 1, d, [0] params?, [1] pub? } } }
/// returns (d bytes, optional public point bytes)
pub fn pkcs8_decode(doc: &[u8]) -> Option<(Vec<u8>, Option<Vec<u8>>)> {
    let body = expect_single(doc, 0x30)?;
    let items = read_all(body)?;
    if items.len() < 3 || items[0].tag != 0x02 || items[1].tag != 0x30 || items[2].tag != 0x04 {
        return None;
    }
    let alg = read_all(items[1].val)?;
    if alg.len() != 2 || alg[0].val != OID_EC_PUBLIC_KEY || alg[1].val != OID_SM2 {
        return None;
    }
    let ec = expect_single(items[2].val, 0x30)?;
    let ecitems = read_all(ec)?;
    if ecitems.len() < 2 || ecitems[0].tag != 0x02 || ecitems[0].val != [1] || ecitems[1].tag != 0x04 {
        return None;
    }
    let d = ecitems[1].val.to_vec();
    let mut public = None;
    for it in &ecitems[2..] {
        if it.tag == 0xa1 {
            let bs = expect_single(it.val, 0x03)?;
            if bs.is_empty() || bs[0] != 0 {
                return None;
            }
            public = Some(bs[1..].to_vec());
        }
    }
    Some((d, public))
}

pub fn pem_decode(pem: &str, label: &str) -> Option<Vec<u8>> {
    let begin = format!("-----BEGIN {}-----", label);
    let end = format!("-----END {}-----", label);
    let s = pem.find(&begin)? + begin.len();
    let e = pem.find(&end)?;
    let b64: String = pem[s..e].chars().filter(|c| !c.is_whitespace()).collect();
    b64_decode(&b64)
}

pub fn b64_encode(b: &[u8]) -> String {
    const T: &[u8; 64] = b"ABCDEFGHIJKLMNOPQRSTUVWXYZabcdefghijklmnopqrstuvwxyz0123456789+/";
    let mut out = String::new();
    for c in b.chunks(3) {
        let v = (c[0] as u32) << 16 | (*c.get(1).unwrap_or(&0) as u32) << 8 | *c.get(2).unwrap_or(&0) as u32;
        out.push(T[(v >> 18) as usize & 63] as char);
        out.push(T[(v >> 12) as usize & 63] as char);
        out.push(if c.len() > 1 { T[(v >> 6) as usize & 63] as char } else { '=' });
        out.push(if c.len() > 2 { T[v as usize & 63] as char } else { '=' });
    }
    out
}

/// RFC 7468 textual encoding: 64-character lines between the armour lines
pub fn pem_encode(label: &str, der: &[u8], eol: &str) -> String {
    let b64 = b64_encode(der);
    let mut out = format!("-----BEGIN {}-----{}", label, eol);
    for l in b64.as_bytes().chunks(64) {
        out.push_str(std::str::from_utf8(l).unwrap());
        out.push_str(eol);
    }
    out.push_str(&format!("-----END {}-----{}", label, eol));
    out
}

pub fn b64_decode(s: &str) -> Option<Vec<u8>> {
    let mut out = Vec::new();
    let mut acc = 0u32;
    let mut bits = 0;
    for c in s.bytes() {
        let v = match c {
            b'A'..=b'Z' => c - b'A',
            b'a'..=b'z' => c - b'a' + 26,
            b'0'..=b'9' => c - b'0' + 52,
            b'+' => 62,
            b'/' => 63,
            b'=' => break,
            _ => return None,
        } as u32;
        acc = (acc << 6) | v;
        bits += 6;
        if bits >= 8 {
            bits -= 8;
            out.push((acc >> bits) as u8);
            acc &= (1 << bits) - 1;
        }
    }
    Some(out)
}

/// PKCS#8 PrivateKeyInfo for an SM2 key; `public` = optional SEC1 point bytes for the [1] publicKey field
pub fn pkcs8_encode(d: &[u8], public: Option<&[u8]>, with_params: bool) -> Vec<u8> {
    let mut parts = vec![tlv(0x02, &[1]), octets(d)];
    if with_params {
        parts.push(tlv(0xa0, &tlv(0x06, &OID_SM2)));
    }
    if let Some(p) = public {
        let mut bs = vec![0u8];
        bs.extend_from_slice(p);
        parts.push(tlv(0xa1, &tlv(0x03, &bs)));
    }
    let ec = sequence(&parts);
    let alg = sequence(&[tlv(0x06, &OID_EC_PUBLIC_KEY), tlv(0x06, &OID_SM2)]);
    sequence(&[tlv(0x02, &[0]), alg, octets(&ec)])
}
