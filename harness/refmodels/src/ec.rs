//! Generic short-Weierstrass arithmetic y^2 = x^3 + a x + b over a field given by a context
//! object. Affine chord-and-tangent formulas are the ground truth; a Jacobian ladder is used for
//! speed and is cross-checked against the affine one in the self-test.
use num_bigint::BigUint;
use num_traits::{One, Zero};
use std::fmt::Debug;

pub trait Fld: Clone + Send + Sync {
    type E: Clone + PartialEq + Debug + Send + Sync;
    fn zero(&self) -> Self::E;
    fn one(&self) -> Self::E;
    fn small(&self, v: u32) -> Self::E;
    fn is_zero(&self, a: &Self::E) -> bool;
    fn add(&self, a: &Self::E, b: &Self::E) -> Self::E;
    fn sub(&self, a: &Self::E, b: &Self::E) -> Self::E;
    fn mul(&self, a: &Self::E, b: &Self::E) -> Self::E;
    fn neg(&self, a: &Self::E) -> Self::E;
    fn inv(&self, a: &Self::E) -> Self::E;
    fn sqr(&self, a: &Self::E) -> Self::E {
        self.mul(a, a)
    }
}

#[derive(Clone)]
pub struct FpCtx {
    pub p: BigUint,
}
impl Fld for FpCtx {
    type E = BigUint;
    fn zero(&self) -> BigUint {
        BigUint::zero()
    }
    fn one(&self) -> BigUint {
        BigUint::one()
    }
    fn small(&self, v: u32) -> BigUint {
        BigUint::from(v) % &self.p
    }
    fn is_zero(&self, a: &BigUint) -> bool {
        a.is_zero()
    }
    fn add(&self, a: &BigUint, b: &BigUint) -> BigUint {
        (a + b) % &self.p
    }
    fn sub(&self, a: &BigUint, b: &BigUint) -> BigUint {
        (a + &self.p - b) % &self.p
    }
    fn mul(&self, a: &BigUint, b: &BigUint) -> BigUint {
        (a * b) % &self.p
    }
    fn neg(&self, a: &BigUint) -> BigUint {
        (&self.p - a) % &self.p
    }
    fn inv(&self, a: &BigUint) -> BigUint {
        assert!(!a.is_zero(), "inverse of zero");
        a.modpow(&(&self.p - BigUint::from(2u32)), &self.p)
    }
}

/// Fp2 = Fp[u]/(u^2 + 2)
#[derive(Clone)]
pub struct Fp2Ctx {
    pub p: BigUint,
}
pub type E2 = (BigUint, BigUint);
impl Fld for Fp2Ctx {
    type E = E2;
    fn zero(&self) -> E2 {
        (BigUint::zero(), BigUint::zero())
    }
    fn one(&self) -> E2 {
        (BigUint::one(), BigUint::zero())
    }
    fn small(&self, v: u32) -> E2 {
        (BigUint::from(v) % &self.p, BigUint::zero())
    }
    fn is_zero(&self, a: &E2) -> bool {
        a.0.is_zero() && a.1.is_zero()
    }
    fn add(&self, a: &E2, b: &E2) -> E2 {
        ((&a.0 + &b.0) % &self.p, (&a.1 + &b.1) % &self.p)
    }
    fn sub(&self, a: &E2, b: &E2) -> E2 {
        ((&a.0 + &self.p - &b.0) % &self.p, (&a.1 + &self.p - &b.1) % &self.p)
    }
    fn mul(&self, a: &E2, b: &E2) -> E2 {
        let p = &self.p;
        let two = BigUint::from(2u32);
        let c0 = (&a.0 * &b.0 + p * p * &two - &two * &a.1 * &b.1) % p;
        let c1 = (&a.0 * &b.1 + &a.1 * &b.0) % p;
        (c0, c1)
    }
    fn neg(&self, a: &E2) -> E2 {
        ((&self.p - &a.0) % &self.p, (&self.p - &a.1) % &self.p)
    }
    fn inv(&self, a: &E2) -> E2 {
        let p = &self.p;
        let nrm = (&a.0 * &a.0 + BigUint::from(2u32) * &a.1 * &a.1) % p;
        assert!(!nrm.is_zero(), "inverse of zero");
        let d = nrm.modpow(&(p - BigUint::from(2u32)), p);
        ((&a.0 * &d) % p, ((p - &a.1) * &d) % p)
    }
}

#[derive(Clone)]
pub struct Curve<F: Fld> {
    pub f: F,
    pub a: F::E,
    pub b: F::E,
}

/// None = point at infinity
pub type Aff<E> = Option<(E, E)>;

impl<F: Fld> Curve<F> {
    pub fn on_curve(&self, pt: &Aff<F::E>) -> bool {
        match pt {
            None => true,
            Some((x, y)) => {
                let f = &self.f;
                let lhs = f.sqr(y);
                let rhs = f.add(&f.add(&f.mul(&f.sqr(x), x), &f.mul(&self.a, x)), &self.b);
                lhs == rhs
            }
        }
    }
    pub fn neg(&self, pt: &Aff<F::E>) -> Aff<F::E> {
        pt.as_ref().map(|(x, y)| (x.clone(), self.f.neg(y)))
    }
    /// affine chord-and-tangent (ground truth). Does not use b.
    pub fn add(&self, p: &Aff<F::E>, q: &Aff<F::E>) -> Aff<F::E> {
        let f = &self.f;
        let (x1, y1) = match p {
            None => return q.clone(),
            Some(v) => v,
        };
        let (x2, y2) = match q {
            None => return p.clone(),
            Some(v) => v,
        };
        let lam;
        if x1 == x2 {
            if f.is_zero(&f.add(y1, y2)) {
                return None;
            }
            // tangent
            let num = f.add(&f.mul(&f.small(3), &f.sqr(x1)), &self.a);
            lam = f.mul(&num, &f.inv(&f.add(y1, y1)));
        } else {
            lam = f.mul(&f.sub(y2, y1), &f.inv(&f.sub(x2, x1)));
        }
        let x3 = f.sub(&f.sub(&f.sqr(&lam), x1), x2);
        let y3 = f.sub(&f.mul(&lam, &f.sub(x1, &x3)), y1);
        Some((x3, y3))
    }
    pub fn dbl(&self, p: &Aff<F::E>) -> Aff<F::E> {
        self.add(p, p)
    }
    pub fn sub(&self, p: &Aff<F::E>, q: &Aff<F::E>) -> Aff<F::E> {
        self.add(p, &self.neg(q))
    }
    /// slow double-and-add on affine points (ground truth for the ladder)
    pub fn mul_affine(&self, k: &BigUint, p: &Aff<F::E>) -> Aff<F::E> {
        let mut r: Aff<F::E> = None;
        for i in (0..k.bits()).rev() {
            r = self.dbl(&r);
            if k.bit(i) {
                r = self.add(&r, p);
            }
        }
        r
    }

    // ---- Jacobian (X, Y, Z), x = X/Z^2, y = Y/Z^3; Z = 0 is infinity
    fn jdbl(&self, p: &(F::E, F::E, F::E)) -> (F::E, F::E, F::E) {
        let f = &self.f;
        let (x, y, z) = p;
        if f.is_zero(z) || f.is_zero(y) {
            return (f.one(), f.one(), f.zero());
        }
        let yy = f.sqr(y);
        let s = f.mul(&f.small(4), &f.mul(x, &yy));
        let zz = f.sqr(z);
        let m = f.add(&f.mul(&f.small(3), &f.sqr(x)), &f.mul(&self.a, &f.sqr(&zz)));
        let x3 = f.sub(&f.sqr(&m), &f.add(&s, &s));
        let y3 = f.sub(&f.mul(&m, &f.sub(&s, &x3)), &f.mul(&f.small(8), &f.sqr(&yy)));
        let z3 = f.mul(&f.add(y, y), z);
        (x3, y3, z3)
    }
    fn jadd(&self, p: &(F::E, F::E, F::E), q: &(F::E, F::E, F::E)) -> (F::E, F::E, F::E) {
        let f = &self.f;
        if f.is_zero(&p.2) {
            return q.clone();
        }
        if f.is_zero(&q.2) {
            return p.clone();
        }
        let z1z1 = f.sqr(&p.2);
        let z2z2 = f.sqr(&q.2);
        let u1 = f.mul(&p.0, &z2z2);
        let u2 = f.mul(&q.0, &z1z1);
        let s1 = f.mul(&p.1, &f.mul(&q.2, &z2z2));
        let s2 = f.mul(&q.1, &f.mul(&p.2, &z1z1));
        let h = f.sub(&u2, &u1);
        let r = f.sub(&s2, &s1);
        if f.is_zero(&h) {
            if f.is_zero(&r) {
                return self.jdbl(p);
            }
            return (f.one(), f.one(), f.zero());
        }
        let hh = f.sqr(&h);
        let hhh = f.mul(&hh, &h);
        let v = f.mul(&u1, &hh);
        let x3 = f.sub(&f.sub(&f.sqr(&r), &hhh), &f.add(&v, &v));
        let y3 = f.sub(&f.mul(&r, &f.sub(&v, &x3)), &f.mul(&s1, &hhh));
        let z3 = f.mul(&f.mul(&p.2, &q.2), &h);
        (x3, y3, z3)
    }
    pub fn to_affine(&self, p: &(F::E, F::E, F::E)) -> Aff<F::E> {
        let f = &self.f;
        if f.is_zero(&p.2) {
            return None;
        }
        let zi = f.inv(&p.2);
        let zi2 = f.sqr(&zi);
        Some((f.mul(&p.0, &zi2), f.mul(&p.1, &f.mul(&zi2, &zi))))
    }
    /// scalar multiplication for any non-negative k (no reduction modulo a group order)
    pub fn mul(&self, k: &BigUint, p: &Aff<F::E>) -> Aff<F::E> {
        let f = &self.f;
        let base = match p {
            None => return None,
            Some((x, y)) => (x.clone(), y.clone(), f.one()),
        };
        let mut r = (f.one(), f.one(), f.zero());
        for i in (0..k.bits()).rev() {
            r = self.jdbl(&r);
            if k.bit(i) {
                r = self.jadd(&r, &base);
            }
        }
        self.to_affine(&r)
    }
}
