//! Reference models for gm-rs verification. No dependency on /repo.
//! Everything here is written from the standards in the most boring way available and is
//! self-tested at start-up (`selftest::run`) against vectors that do not come from gm-rs.
pub mod der;
pub mod ec;
pub mod selftest;
pub mod sm2;
pub mod sm3;
pub mod sm4;
pub mod sm9;
pub mod util;
pub mod zuc;
