//! Start-up self-tests of the reference models against vectors that do not come from gm-rs.
//! A failure is a machinery error (exit >= 2), never a verdict about gm-rs.
use crate::util::{hex, hexbig};
use crate::{sm2, sm3, sm4, sm9, zuc};
use num_bigint::BigUint;
use num_traits::One;

fn h(s: &str) -> Vec<u8> {
    hex::decode(s).unwrap()
}

pub fn sm3_selftest() -> Result<(), String> {
    let cases: [(&[u8], &str); 3] = [
        (b"", "1ab21d8355cfa17f8e61194831e81a8f22bec8c728fefb747ed035eb5082aa2b"),
        (b"abc", "66c7f0f462eeedd9d1f2d46bdc10e4e24167c4875cf2f7a2297da02b8f4ba8e0"),
        (
            b"abcdabcdabcdabcdabcdabcdabcdabcdabcdabcdabcdabcdabcdabcdabcdabcd",
            "debe9ff92275b8a138604889c18e5a4d6fdb70e5387e5765293dcba39c0c5732",
        ),
    ];
    for (m, d) in cases {
        if hex(&sm3::sm3(m)) != d {
            return Err(format!("sm3 vector len {}", m.len()));
        }
    }
    // streaming in odd pieces equals one-shot
    let msg: Vec<u8> = (0..1000u32).map(|i| (i * 7 + 3) as u8).collect();
    let mut s = sm3::Sm3::new();
    let mut off = 0;
    let mut step = 1;
    while off < msg.len() {
        let e = (off + step).min(msg.len());
        s.update(&msg[off..e]);
        off = e;
        step = step * 3 % 97 + 1;
    }
    if s.finish() != sm3::sm3(&msg) {
        return Err("sm3 streaming".into());
    }
    Ok(())
}

pub fn sm4_selftest(long: bool) -> Result<(), String> {
    let key: [u8; 16] = h("0123456789abcdeffedcba9876543210").try_into().unwrap();
    let ct = sm4::encrypt_block(&key, &key);
    if hex(&ct) != "681edf34d206965e86b3e94f536e4246" {
        return Err("sm4 vector 1".into());
    }
    if sm4::decrypt_block(&key, &ct) != key {
        return Err("sm4 decrypt".into());
    }
    // S-box is a permutation with the two published corner values
    let s = sm4::sbox();
    let mut seen = [false; 256];
    for v in s.iter() {
        seen[*v as usize] = true;
    }
    if seen.iter().any(|b| !b) || s[0] != 0xd6 || s[255] != 0x48 {
        return Err("sm4 sbox".into());
    }
    if long {
        let c = sm4::Cipher::new(&key);
        let mut b = key;
        for _ in 0..1_000_000 {
            b = c.enc(&b);
        }
        if hex(&b) != "595298c7c6fd271f0402f804c33d3f66" {
            return Err("sm4 10^6 iterate".into());
        }
    }
    Ok(())
}

pub fn zuc_selftest() -> Result<(), String> {
    let k3: [u8; 16] = h("3d4c4be96a82fdaeb58f641db17b455b").try_into().unwrap();
    let iv3: [u8; 16] = h("84319aa8de6915ca1f6bda6bfbd8c766").try_into().unwrap();
    let cases = [
        ([0u8; 16], [0u8; 16], [0x27bede74u32, 0x018082da]),
        ([0xff; 16], [0xff; 16], [0x0657cfa0, 0x7096398b]),
        (k3, iv3, [0x14f1c272, 0x3279c419]),
    ];
    for (k, iv, z) in cases {
        if zuc::keystream(&k, &iv, 2) != z {
            return Err("zuc keystream vector".into());
        }
    }
    // S-boxes are permutations
    for s in [zuc::s0(), zuc::s1()] {
        let mut seen = [false; 256];
        for v in s.iter() {
            seen[*v as usize] = true;
        }
        if seen.iter().any(|b| !b) {
            return Err("zuc sbox not a permutation".into());
        }
    }
    // EIA3 test sets 1, 2
    if zuc::eia3(&[0; 16], 0, 0, 0, 1, &[0]) != 0xc8a9595e {
        return Err("eia3 set 1".into());
    }
    let k2: [u8; 16] = h("47054125561eb2dda94059da05097850").try_into().unwrap();
    if zuc::eia3(&k2, 0x561eb2dd, 0x14, 0, 90, &[0, 0, 0]) != 0x6719a088 {
        return Err("eia3 set 2".into());
    }
    // EEA3 test set 1
    let ck: [u8; 16] = h("173d14ba5003731d7a60049470f00a29").try_into().unwrap();
    let ibs = [0x6cf65340u32, 0x735552ab, 0x0c9752fa, 0x6f9025fe, 0x0bd675d9, 0x005875b2, 0];
    let obs = [0xa6c85fc6u32, 0x6afb8533, 0xaafc2518, 0xdfe78494, 0x0ee1e4b0, 0x30238cc8, 0];
    if zuc::eea3(&ck, 0x66035492, 0xf, 0, 0xc1, &ibs) != obs {
        return Err("eea3 set 1".into());
    }
    // EIA3 repo/3GPP test set (length 577)
    let ik: [u8; 16] = h("c9e6cec4607c72db000aefa88385ab0a").try_into().unwrap();
    let m = [
        0x983b41d4u32, 0x7d780c9e, 0x1ad11d7e, 0xb70391b1, 0xde0b35da, 0x2dc62f83, 0xe7b78d63, 0x06ca0ea0,
        0x7e941b7b, 0xe91348f9, 0xfcb170e2, 0x217fecd9, 0x7f9f68ad, 0xb16e5d7d, 0x21e569d2, 0x80ed775c,
        0xebde3f40, 0x93c53881, 0,
    ];
    if zuc::eia3(&ik, 0xa94059da, 0x0a, 1, 0x0241, &m) != 0xfae8ff0b {
        return Err("eia3 set 3".into());
    }
    Ok(())
}

pub fn sm2_selftest() -> Result<(), String> {
    let pr = sm2::params();
    if !sm2::on_curve(&pr.g) || sm2::g_mul(&pr.n).is_some() {
        return Err("sm2 params".into());
    }
    // ladder vs affine ground truth
    for k in [BigUint::from(1u32), BigUint::from(2u32), BigUint::from(0xdeadbeefu32), &pr.n - BigUint::one()] {
        if pr.curve.mul(&k, &pr.g) != pr.curve.mul_affine(&k, &pr.g) {
            return Err("sm2 ladder vs affine".into());
        }
    }
    // cubic root search: the abscissa of [j]G is among the roots for its ordinate, and every root is on the curve
    for j in [1u32, 2, 3, 7] {
        let (x, y) = sm2::g_mul(&BigUint::from(j)).unwrap();
        let xs = sm2::xs_for_y(&y);
        if !xs.contains(&x) || xs.is_empty() || xs.len() > 3 {
            return Err("sm2 cubic root search".into());
        }
    }
    // GM/T 0003.5 Annex A
    let d = hexbig("3945208F7B2144B13F36E38AC6D39F95889393692860B51A42FB81EF4DF7C5B8");
    let k = hexbig("59276E27D506861A16680F3AD9C02DCCEF3CC1FA3CDBE4CE6D54B80DEAC1BC21");
    let p = sm2::g_mul(&d);
    let (px, py) = sm2::xy_bytes(&p);
    if hex(&px) != "09f9df311e5421a150dd7d161e4bc5c672179fad1833fc076bb08ff356f35020"
        || hex(&py) != "ccea490ce26775a52dc6ea718cc1aa600aed05fbf35e084a6632f6072da9ad13"
    {
        return Err("sm2 annex P".into());
    }
    let za = sm2::za(sm2::DEFAULT_ID, &p);
    if hex(&za) != "b2e14c5c79c6df5b85f4fe7ed8db7a262b9da7e07ccb0ea9f4747b8ccda8a4f3" {
        return Err("sm2 annex ZA".into());
    }
    let e = sm2::digest_e(sm2::DEFAULT_ID, &p, b"message digest");
    if e != hexbig("f0b43e94ba45accaace692ed534382eb17e6ab5a19ce7b31f4486fdfc0d28640") {
        return Err("sm2 annex e".into());
    }
    let (r, s) = sm2::sign_with_k(&d, &e, &k).ok_or("sign")?;
    if r != hexbig("f5a03b0648d2c4630eeac513e1bb81a15944da3827d5b74143ac7eaceee720b3")
        || s != hexbig("b1b6aa29df212fd8763182bc0d421ca1bb9038fd1f7f42d4840b69c485bbc1aa")
    {
        return Err("sm2 annex r,s".into());
    }
    if !sm2::verify(&p, &e, &r, &s) || sm2::verify(&p, &e, &r, &(&s + 1u32)) {
        return Err("sm2 verify".into());
    }
    let ct = sm2::encrypt_with_k(&p, b"encryption standard", &k).ok_or("enc")?;
    let (c1x, c1y) = sm2::xy_bytes(&ct.c1);
    if hex(&c1x) != "04ebfc718e8d1798620432268e77feb6415e2ede0e073c0f4f640ecd2e149a73"
        || hex(&c1y) != "e858f9d81e5430a57b36daab8f950a3c64e6ee6a63094d99283aff767e124df0"
        || hex(&ct.c2) != "21886ca989ca9c7d58087307ca93092d651efa"
        || hex(&ct.c3) != "59983c18f809e262923c53aec295d30383b54e39d609d160afcb1908d0bd8766"
    {
        return Err("sm2 annex encryption".into());
    }
    for (o, c) in [(false, false), (true, false), (false, true), (true, true)] {
        if sm2::decrypt(&d, &ct.encode(o, c), o, c).as_deref() != Some(&b"encryption standard"[..]) {
            return Err("sm2 decrypt".into());
        }
    }
    // key exchange example
    let da = hexbig("81EB26E941BB5AF16DF116495F90695272AE2CD63D6C4AE1678418BE48230029");
    let db = hexbig("785129917D45A9EA5437A59356B82338EAADDA6CEB199088F14AE10DEFA229B5");
    let ra = hexbig("D4DE15474DB74D06491C440D305E012400990F3E390C7E87153C12DB2EA60BB3");
    let rb = hexbig("7E07124814B309489125EAED101113164EBF0F3458C5BD88335C1F9D596243D6");
    let (pa, pb) = (sm2::g_mul(&da), sm2::g_mul(&db));
    let (za, zb) = (sm2::za(sm2::DEFAULT_ID, &pa), sm2::za(sm2::DEFAULT_ID, &pb));
    let a = sm2::kex_party(true, &da, &ra, &za, &pb, &sm2::g_mul(&rb), &zb, 16).ok_or("kex a")?;
    let b = sm2::kex_party(false, &db, &rb, &zb, &pa, &sm2::g_mul(&ra), &za, 16).ok_or("kex b")?;
    if a.k != b.k
        || hex(&a.k) != "6c89347354de2484c60b4ab1fde4c6e5"
        || hex(&b.s_b) != "d3a0fe15dee185ceae907a6b595cc32a266ed7b3367e9983a896dc32fa20f8eb"
        || hex(&a.s_a) != "18c7894b3816df16cf07b05c5ec0bef5d655d58f779cc1b400a4f3884644db88"
        || a.s_b != b.s_b
        || a.s_a != b.s_a
    {
        return Err("sm2 annex key exchange".into());
    }
    Ok(())
}

pub struct Sm9Annex {
    pub ks: BigUint,
    pub ppubs: sm9::G2,
    pub g_sign: sm9::F12,
}

pub fn sm9_selftest() -> Result<(), String> {
    let pr = sm9::params();
    let t = &pr.t;
    let t2 = t * t;
    let t3 = &t2 * t;
    let t4 = &t3 * t;
    if pr.p != &t4 * 36u32 + &t3 * 36u32 + &t2 * 24u32 + t * 6u32 + 1u32
        || pr.n != &t4 * 36u32 + &t3 * 36u32 + &t2 * 18u32 + t * 6u32 + 1u32
    {
        return Err("sm9 params".into());
    }
    if !pr.e1.on_curve(&pr.p1) || !pr.e2.on_curve(&pr.p2) {
        return Err("sm9 generators".into());
    }
    if sm9::g1_mul(&pr.n, &pr.p1).is_some() || sm9::g2_mul(&pr.n, &pr.p2).is_some() {
        return Err("sm9 order".into());
    }
    for k in [BigUint::from(3u32), BigUint::from(0xfeedu32)] {
        if pr.e2.mul(&k, &pr.p2) != pr.e2.mul_affine(&k, &pr.p2) || pr.e1.mul(&k, &pr.p1) != pr.e1.mul_affine(&k, &pr.p1) {
            return Err("sm9 ladder vs affine".into());
        }
    }
    // GM/T 0044.5 signature example
    let ks = hexbig("000130E78459D78545CB54C587E02CF480CE0B66340F319F348A1D5B1F2DC5F4");
    let ppubs = sm9::g2_mul(&ks, &pr.p2);
    let g = sm9::sign_g(&ppubs);
    let gb = sm9::f12_bytes(&g);
    if hex(&gb[..32]) != "4e378fb5561cd0668f906b731ac58fee25738edf09cadc7a29c0abc0177aea6d" {
        return Err("sm9 annex g".into());
    }
    if sm9::f12_is_one(&g) || !sm9::f12_is_one(&sm9::f12_pow(&g, &pr.n)) {
        return Err("sm9 pairing order".into());
    }
    let ds = sm9::extract_sign_key(&ks, b"Alice").ok_or("ds")?;
    let dsb = sm9::g1_bytes(&ds);
    if hex(&dsb[..32]) != "a5702f05cf1315305e2d6eb64b0deb923db1a0bcf0caff90523ac8754aa69820" {
        return Err("sm9 annex ds".into());
    }
    let r = hexbig("00033C8616B06704813203DFD00965022ED15975C662337AED648835DC4B1CBE");
    let (hh, s) = sm9::sign_with_r(&g, &ds, b"Chinese IBS standard", &r).ok_or("sign")?;
    let sb = sm9::g1_bytes(&s);
    if hh != hexbig("823c4b21e4bd2dfe1ed92c606653e996668563152fc33f55d7bfbb9bd9705adb")
        || hex(&sb[..32]) != "73bf96923ce58b6ad0e13e9643a406d8eb98417c50ef1b29cef9adb48b6d598c"
        || hex(&sb[32..]) != "856712f1c2e0968ab7769f42a99586aed139d5b8b3e15891827cc2aced9baa05"
    {
        return Err("sm9 annex h,S".into());
    }
    if !sm9::verify(&g, &ppubs, b"Alice", b"Chinese IBS standard", &hh, &s) {
        return Err("sm9 verify".into());
    }
    // encryption example
    let ke = hexbig("0001EDEE3778F441F8DEA3D9FA0ACC4E07EE36C93F9A08618AF4AD85CEDE1C22");
    let ppube = sm9::g1_mul(&ke, &pr.p1);
    let ge = sm9::enc_g(&ppube);
    let r = hexbig("0000AAC0541779C8FC45E3E2CB25C12B5D2576B2129AE8BB5EE2CBE5EC9E785C");
    let ct = sm9::encrypt_with_r(&ge, &ppube, b"Bob", b"Chinese IBE standard", &r).ok_or("enc")?;
    let c1b = sm9::g1_bytes(&ct.c1);
    if hex(&c1b[..32]) != "2445471164490618e1ee20528ff1d545b0f14c8bcaa44544f03dab5dac07d8ff"
        || hex(&c1b[32..]) != "42ffca97d57cddc05ea405f2e586feb3a6930715532b8000759f13059ed59ac0"
        || hex(&ct.c2) != "1b5f5b0e951489682f3e64e1378cdd5da9513b1c"
        || hex(&ct.c3) != "ba672387bcd6de5016a158a52bb2e7fc429197bcab70b25afee37a2b9db9f367"
    {
        return Err("sm9 annex encryption".into());
    }
    let de = sm9::extract_enc_key(&ke, b"Bob", sm9::HID_ENC).ok_or("de")?;
    if sm9::decrypt_fields(&de, b"Bob", &ct.c1, &ct.c2, &ct.c3).as_deref() != Some(&b"Chinese IBE standard"[..]) {
        return Err("sm9 decrypt".into());
    }
    // key exchange example
    let ke = hexbig("0002E65B0762D042F51F0D23542B13ED8CFA2E9A0E7206361E013A283905E31F");
    let ra = hexbig("00005879DD1D51E175946F23B1B41E93BA31C584AE59A426EC1046A4D03B06C8");
    let rb = hexbig("00018B98C44BEF9F8537FB7D071B2C928B3BC65BD3D69E1EEE213564905634FE");
    let x = sm9::exchange(&ke, b"Alice", b"Bob", &ra, &rb).ok_or("exch")?;
    if hex(&sm9::exchange_key(b"Alice", b"Bob", &x, 16)) != "c5c13a8f59a97cdeae64f16a2272a9e7" {
        return Err("sm9 annex exchange".into());
    }
    Ok(())
}

pub fn run(which: &[&str]) -> Result<(), String> {
    for w in which {
        match *w {
            "sm3" => sm3_selftest()?,
            "sm4" => sm4_selftest(false)?,
            "sm4long" => sm4_selftest(true)?,
            "zuc" => zuc_selftest()?,
            "sm2" => sm2_selftest()?,
            "sm9" => sm9_selftest()?,
            _ => return Err(format!("unknown selftest {}", w)),
        }
    }
    Ok(())
}
