//! SM2 (GB/T 32918.1-4 / GM/T 0003) over big integers.
use crate::ec::{Aff, Curve, FpCtx};
use crate::sm3::{kdf, sm3_cat};
use crate::util::{from_be, hexbig, to32};
use num_bigint::BigUint;
use num_traits::{One, Zero};
use std::sync::OnceLock;

pub type Pt = Aff<BigUint>;

pub struct Params {
    pub p: BigUint,
    pub a: BigUint,
    pub b: BigUint,
    pub n: BigUint,
    pub g: Pt,
    pub curve: Curve<FpCtx>,
}

pub fn params() -> &'static Params {
    static P: OnceLock<Params> = OnceLock::new();
    P.get_or_init(|| {
        let p = hexbig("FFFFFFFEFFFFFFFFFFFFFFFFFFFFFFFFFFFFFFFF00000000FFFFFFFFFFFFFFFF");
        let a = &p - BigUint::from(3u32);
        let b = hexbig("28E9FA9E9D9F5E344D5A9E4BCF6509A7F39789F515AB8F92DDBCBD414D940E93");
        let n = hexbig("FFFFFFFEFFFFFFFFFFFFFFFFFFFFFFFF7203DF6B21C6052B53BBF40939D54123");
        let gx = hexbig("32C4AE2C1F1981195F9904466A39C9948FE30BBFF2660BE1715A4589334C74C7");
        let gy = hexbig("BC3736A2F4F6779C59BDCEE36B692153D0A9877CC62A474002DF32E52139F0A0");
        let curve = Curve { f: FpCtx { p: p.clone() }, a: a.clone(), b: b.clone() };
        Params { p, a, b, n, g: Some((gx, gy)), curve }
    })
}

pub fn g_mul(k: &BigUint) -> Pt {
    let pr = params();
    pr.curve.mul(k, &pr.g)
}
pub fn mul(k: &BigUint, p: &Pt) -> Pt {
    params().curve.mul(k, p)
}
pub fn add(p: &Pt, q: &Pt) -> Pt {
    params().curve.add(p, q)
}
pub fn on_curve(p: &Pt) -> bool {
    params().curve.on_curve(p)
}

pub fn xy_bytes(p: &Pt) -> ([u8; 32], [u8; 32]) {
    let (x, y) = p.as_ref().expect("finite point");
    (to32(x), to32(y))
}

/// SEC1 encoding of a finite point
pub fn encode_point(p: &Pt, compressed: bool) -> Vec<u8> {
    let (x, y) = xy_bytes(p);
    let mut v = Vec::with_capacity(65);
    if compressed {
        v.push(if y[31] & 1 == 0 { 0x02 } else { 0x03 });
        v.extend_from_slice(&x);
    } else {
        v.push(0x04);
        v.extend_from_slice(&x);
        v.extend_from_slice(&y);
    }
    v
}

/// p = 3 mod 4
pub fn sqrt_mod_p(v: &BigUint) -> Option<BigUint> {
    let p = &params().p;
    let r = v.modpow(&((p + BigUint::one()) >> 2), p);
    if (&r * &r) % p == v % p {
        Some(r)
    } else {
        None
    }
}

/// strict SEC1 decoder: tag 02/03 (33 bytes) or 04 (65 bytes), coordinates < p, on curve
pub fn decode_point(b: &[u8]) -> Option<Pt> {
    let pr = params();
    if b.is_empty() {
        return None;
    }
    match b[0] {
        0x02 | 0x03 if b.len() == 33 => {
            let x = from_be(&b[1..33]);
            if x >= pr.p {
                return None;
            }
            let rhs = (&x * &x * &x + &pr.a * &x + &pr.b) % &pr.p;
            let mut y = sqrt_mod_p(&rhs)?;
            if y.bit(0) != (b[0] == 0x03) {
                y = (&pr.p - &y) % &pr.p;
            }
            Some(Some((x, y)))
        }
        0x04 if b.len() == 65 => {
            let x = from_be(&b[1..33]);
            let y = from_be(&b[33..65]);
            if x >= pr.p || y >= pr.p {
                return None;
            }
            let pt = Some((x, y));
            if on_curve(&pt) {
                Some(pt)
            } else {
                None
            }
        }
        _ => None,
    }
}

pub const DEFAULT_ID: &[u8] = b"1234567812345678";

/// ZA = SM3(ENTL || ID || a || b || xG || yG || xA || yA), ENTL = bit length of ID as 2 bytes
pub fn za(id: &[u8], pk: &Pt) -> [u8; 32] {
    let pr = params();
    let entl = ((id.len() * 8) as u16).to_be_bytes();
    let (gx, gy) = xy_bytes(&pr.g);
    let (px, py) = xy_bytes(pk);
    sm3_cat(&[&entl, id, &to32(&pr.a), &to32(&pr.b), &gx, &gy, &px, &py])
}

pub fn digest_e(id: &[u8], pk: &Pt, msg: &[u8]) -> BigUint {
    let z = za(id, pk);
    from_be(&sm3_cat(&[&z, msg]))
}

/// One attempt of the signing algorithm with nonce k; None means "pick another k"
/// (r = 0, r + k = n or s = 0).
pub fn sign_with_k(d: &BigUint, e: &BigUint, k: &BigUint) -> Option<(BigUint, BigUint)> {
    let n = &params().n;
    let kg = g_mul(k);
    let x1 = &kg.as_ref()?.0;
    let r = (e + x1) % n;
    if r.is_zero() || (&r + k) == *n {
        return None;
    }
    let dinv = (BigUint::one() + d).modpow(&(n - BigUint::from(2u32)), n);
    let s = (&dinv * ((k + n * n - (&r * d) % n) % n)) % n;
    if s.is_zero() {
        return None;
    }
    Some((r, s))
}

pub fn verify(pk: &Pt, e: &BigUint, r: &BigUint, s: &BigUint) -> bool {
    let n = &params().n;
    if r.is_zero() || s.is_zero() || r >= n || s >= n {
        return false;
    }
    let t = (r + s) % n;
    if t.is_zero() {
        return false;
    }
    let pt = add(&g_mul(s), &mul(&t, pk));
    match pt {
        None => false,
        Some((x1, _)) => (e + x1) % n == *r,
    }
}

pub fn verify_msg(pk: &Pt, id: &[u8], msg: &[u8], sig: &[u8]) -> bool {
    if sig.len() != 64 {
        return false;
    }
    let e = digest_e(id, pk, msg);
    verify(pk, &e, &from_be(&sig[..32]), &from_be(&sig[32..]))
}

pub struct Ciphertext {
    pub c1: Pt,
    pub c2: Vec<u8>,
    pub c3: [u8; 32],
}

impl Ciphertext {
    pub fn encode(&self, c1c3c2: bool, compressed: bool) -> Vec<u8> {
        let mut v = encode_point(&self.c1, compressed);
        if c1c3c2 {
            v.extend_from_slice(&self.c3);
            v.extend_from_slice(&self.c2);
        } else {
            v.extend_from_slice(&self.c2);
            v.extend_from_slice(&self.c3);
        }
        v
    }
}

/// None if KDF output is all zero (pick another k)
pub fn encrypt_with_k(pk: &Pt, msg: &[u8], k: &BigUint) -> Option<Ciphertext> {
    let c1 = g_mul(k);
    let s = mul(k, pk);
    let (x2, y2) = xy_bytes(&s);
    let t = kdf(&[&x2[..], &y2[..]].concat(), msg.len());
    if t.iter().all(|b| *b == 0) {
        return None;
    }
    let c2: Vec<u8> = msg.iter().zip(t.iter()).map(|(a, b)| a ^ b).collect();
    let c3 = sm3_cat(&[&x2, msg, &y2]);
    Some(Ciphertext { c1, c2, c3 })
}

/// Decrypt from already separated fields; C1 must be a finite on-curve point (caller decodes).
/// Works for points on "wrong-b" curves too (arithmetic is b-independent) when `check_curve` is false.
pub fn decrypt_fields(d: &BigUint, c1: &Pt, c2: &[u8], c3: &[u8], check_curve: bool) -> Option<Vec<u8>> {
    if c1.is_none() || (check_curve && !on_curve(c1)) {
        return None;
    }
    let s = mul(d, c1);
    s.as_ref()?;
    let (x2, y2) = xy_bytes(&s);
    let t = kdf(&[&x2[..], &y2[..]].concat(), c2.len());
    if t.iter().all(|b| *b == 0) {
        return None;
    }
    let m: Vec<u8> = c2.iter().zip(t.iter()).map(|(a, b)| a ^ b).collect();
    let u = sm3_cat(&[&x2, &m, &y2]);
    if u[..] != c3[..] {
        return None;
    }
    Some(m)
}

/// strict decryptor for the raw encodings
pub fn decrypt(d: &BigUint, ct: &[u8], c1c3c2: bool, compressed: bool) -> Option<Vec<u8>> {
    let c1len = if compressed { 33 } else { 65 };
    if ct.len() < c1len + 32 + 1 {
        return None;
    }
    let c1 = decode_point(&ct[..c1len])?;
    let (c2, c3) = if c1c3c2 {
        (&ct[c1len + 32..], &ct[c1len..c1len + 32])
    } else {
        (&ct[c1len..ct.len() - 32], &ct[ct.len() - 32..])
    };
    decrypt_fields(d, &c1, c2, c3, true)
}

/// x-bar = 2^w + (x & (2^w - 1)), w = ceil(ceil(log2 n)/2) - 1 = 127
pub fn xbar(x: &BigUint) -> BigUint {
    let w = 127u32;
    let m = (BigUint::one() << w) - BigUint::one();
    (BigUint::one() << w) + (x & m)
}

pub struct KexResult {
    pub k: Vec<u8>,
    pub s_b: [u8; 32], // S_B = S1
    pub s_a: [u8; 32], // S_A = S2
    pub v: Pt,
}

/// One party's view of GB/T 32918.3. `initiator` selects which of (self, peer) is A.
/// Returns None when the shared point is infinity.
#[allow(clippy::too_many_arguments)]
pub fn kex_party(
    initiator: bool,
    d_self: &BigUint,
    r_self: &BigUint,
    z_self: &[u8; 32],
    p_peer: &Pt,
    r_peer_pt: &Pt,
    z_peer: &[u8; 32],
    klen: usize,
) -> Option<KexResult> {
    let n = &params().n;
    let r_self_pt = g_mul(r_self);
    let xs = xbar(&r_self_pt.as_ref()?.0);
    let t = (d_self + &xs * r_self) % n;
    let xp = xbar(&r_peer_pt.as_ref()?.0);
    let v = mul(&t, &add(p_peer, &mul(&xp, r_peer_pt)));
    v.as_ref()?;
    let (xv, yv) = xy_bytes(&v);
    let (za, zb) = if initiator { (z_self, z_peer) } else { (z_peer, z_self) };
    let (ra, rb) = if initiator { (&r_self_pt, r_peer_pt) } else { (r_peer_pt, &r_self_pt) };
    let (x1, y1) = xy_bytes(ra);
    let (x2, y2) = xy_bytes(rb);
    let k = kdf(&[&xv[..], &yv[..], &za[..], &zb[..]].concat(), klen);
    let inner = sm3_cat(&[&xv, za, zb, &x1, &y1, &x2, &y2]);
    let s_b = sm3_cat(&[&[0x02], &yv, &inner]);
    let s_a = sm3_cat(&[&[0x03], &yv, &inner]);
    Some(KexResult { k, s_b, s_a, v })
}

// ---- roots of the curve cubic: all x with x^3 + a x + b = y^2 for a given y ------------------------------
// (Fp[x] with little-endian coefficient vectors; only what a degree-3 root search needs)

fn poly_trim(mut v: Vec<BigUint>) -> Vec<BigUint> {
    while v.last().map(|c| c.is_zero()).unwrap_or(false) {
        v.pop();
    }
    v
}
fn poly_rem(a: &[BigUint], m: &[BigUint], p: &BigUint) -> Vec<BigUint> {
    // m must be non-zero; returns a mod m
    let mut r = poly_trim(a.to_vec());
    let dm = m.len() - 1;
    let lead_inv = m[dm].modpow(&(p - 2u32), p);
    while r.len() > dm && !r.is_empty() {
        let dr = r.len() - 1;
        let q = (&r[dr] * &lead_inv) % p;
        for i in 0..=dm {
            let sub = (&q * &m[i]) % p;
            let idx = dr - dm + i;
            r[idx] = (&r[idx] + p - sub) % p;
        }
        r = poly_trim(r);
    }
    r
}
fn poly_mulmod(a: &[BigUint], b: &[BigUint], m: &[BigUint], p: &BigUint) -> Vec<BigUint> {
    if a.is_empty() || b.is_empty() {
        return vec![];
    }
    let mut out = vec![BigUint::zero(); a.len() + b.len() - 1];
    for (i, x) in a.iter().enumerate() {
        for (j, y) in b.iter().enumerate() {
            out[i + j] = (&out[i + j] + x * y) % p;
        }
    }
    poly_rem(&out, m, p)
}
fn poly_powmod(base: &[BigUint], e: &BigUint, m: &[BigUint], p: &BigUint) -> Vec<BigUint> {
    let mut acc = vec![BigUint::one()];
    let b = poly_rem(base, m, p);
    for i in (0..e.bits()).rev() {
        acc = poly_mulmod(&acc, &acc, m, p);
        if e.bit(i) {
            acc = poly_mulmod(&acc, &b, m, p);
        }
    }
    acc
}
fn poly_gcd(a: &[BigUint], b: &[BigUint], p: &BigUint) -> Vec<BigUint> {
    let (mut x, mut y) = (poly_trim(a.to_vec()), poly_trim(b.to_vec()));
    while !y.is_empty() {
        let r = poly_rem(&x, &y, p);
        x = y;
        y = r;
    }
    // monic
    if let Some(l) = x.last().cloned() {
        let inv = l.modpow(&(p - 2u32), p);
        for c in x.iter_mut() {
            *c = (&*c * &inv) % p;
        }
    }
    x
}
fn poly_sub(a: &[BigUint], b: &[BigUint], p: &BigUint) -> Vec<BigUint> {
    let n = a.len().max(b.len());
    let z = BigUint::zero();
    poly_trim((0..n).map(|i| (a.get(i).unwrap_or(&z) + p - b.get(i).unwrap_or(&z)) % p).collect())
}
/// all roots in Fp of a polynomial of degree <= 3 (equal-degree splitting on its product of linear factors)
fn poly_roots(f: &[BigUint], p: &BigUint) -> Vec<BigUint> {
    let f = poly_trim(f.to_vec());
    if f.len() <= 1 {
        return vec![];
    }
    // g = gcd(x^p - x, f): the product of the distinct linear factors
    let x = vec![BigUint::zero(), BigUint::one()];
    let xp = poly_powmod(&x, p, &f, p);
    let mut stack = vec![poly_gcd(&f, &poly_sub(&xp, &x, p), p)];
    let mut roots = Vec::new();
    let mut delta = 1u32;
    while let Some(g) = stack.pop() {
        match g.len() {
            0 | 1 => {}
            2 => roots.push((p - &g[0]) % p), // monic x + g0
            _ => {
                // split with gcd((x + delta)^((p-1)/2) - 1, g)
                loop {
                    let shifted = vec![BigUint::from(delta), BigUint::one()];
                    delta += 1;
                    let h = poly_powmod(&shifted, &((p - 1u32) >> 1), &g, p);
                    let d = poly_gcd(&g, &poly_sub(&h, &[BigUint::one()], p), p);
                    if d.len() > 1 && d.len() < g.len() {
                        // g / d by repeated remainder: the cofactor is gcd-free, obtain it as g / d
                        let mut q = vec![BigUint::zero(); g.len() - d.len() + 1];
                        let mut r = g.clone();
                        let dd = d.len() - 1;
                        while r.len() > dd {
                            let dr = r.len() - 1;
                            let c = r[dr].clone();
                            q[dr - dd] = c.clone();
                            for i in 0..=dd {
                                let idx = dr - dd + i;
                                r[idx] = (&r[idx] + p - (&c * &d[i]) % p) % p;
                            }
                            r = poly_trim(r);
                        }
                        stack.push(d);
                        stack.push(poly_trim(q));
                        break;
                    }
                    assert!(delta < 200, "equal-degree splitting does not terminate");
                }
            }
        }
    }
    roots.sort();
    roots
}
/// every x in Fp with x^3 + a x + b = rhs (0, 1, 2 or 3 values)
pub fn xs_for_rhs(rhs: &BigUint) -> Vec<BigUint> {
    let pr = params();
    let p = &pr.p;
    let c = (&pr.b + p - rhs % p) % p;
    let roots = poly_roots(&[c, pr.a.clone(), BigUint::zero(), BigUint::one()], p);
    for x in &roots {
        assert!((x * x * x + &pr.a * x + &pr.b) % p == rhs % p, "root search returned a value that is not a root");
    }
    roots
}
/// every x in Fp with (x, y) on the SM2 curve (0, 1, 2 or 3 values)
pub fn xs_for_y(y: &BigUint) -> Vec<BigUint> {
    let p = &params().p;
    xs_for_rhs(&((y * y) % p))
}
