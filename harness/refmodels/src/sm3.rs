//! SM3 (GB/T 32905-2016), streaming with a 16-word ring buffer for the message schedule.
//! Structurally unlike gm-sm3 (which pads into one Vec and expands to 68+64 words).

#[derive(Clone)]
pub struct Sm3 {
    v: [u32; 8],
    buf: [u8; 64],
    fill: usize,
    total: u128, // bytes
}

const IV: [u32; 8] = [
    0x7380166f, 0x4914b2b9, 0x172442d7, 0xda8a0600, 0xa96f30bc, 0x163138aa, 0xe38dee4d, 0xb0fb0e4e,
];

fn compress(v: &mut [u32; 8], block: &[u8]) {
    // ring buffer of the last 16 schedule words
    let mut w = [0u32; 16];
    for j in 0..16 {
        w[j] = u32::from_be_bytes([block[4 * j], block[4 * j + 1], block[4 * j + 2], block[4 * j + 3]]);
    }
    let [mut a, mut b, mut c, mut d, mut e, mut f, mut g, mut h] = *v;
    for j in 0..64usize {
        // W_j = w[j%16]; W_{j+4} needed for W'_j: compute schedule lazily so that w holds W_j..W_{j+15}
        // at step j, slot (j+k)%16 holds W_{j+k} for k in 0..16 (k<=15). We need W_{j+4} (k=4): present.
        let wj = w[j % 16];
        let wj4 = w[(j + 4) % 16];
        let tj: u32 = if j < 16 { 0x79cc4519 } else { 0x7a879d8a };
        let a12 = a.rotate_left(12);
        let ss1 = a12.wrapping_add(e).wrapping_add(tj.rotate_left((j % 32) as u32)).rotate_left(7);
        let ss2 = ss1 ^ a12;
        let (ffv, ggv) = if j < 16 {
            (a ^ b ^ c, e ^ f ^ g)
        } else {
            ((a & b) | (a & c) | (b & c), (e & f) | (!e & g))
        };
        let tt1 = ffv.wrapping_add(d).wrapping_add(ss2).wrapping_add(wj ^ wj4);
        let tt2 = ggv.wrapping_add(h).wrapping_add(ss1).wrapping_add(wj);
        d = c;
        c = b.rotate_left(9);
        b = a;
        a = tt1;
        h = g;
        g = f.rotate_left(19);
        f = e;
        e = tt2 ^ tt2.rotate_left(9) ^ tt2.rotate_left(17);
        // produce W_{j+16} into the slot of W_j:
        // W_{j+16} = P1(W_j ^ W_{j+7} ^ (W_{j+13} <<< 15)) ^ (W_{j+3} <<< 7) ^ W_{j+10}
        let x = w[j % 16] ^ w[(j + 7) % 16] ^ w[(j + 13) % 16].rotate_left(15);
        let p1 = x ^ x.rotate_left(15) ^ x.rotate_left(23);
        w[j % 16] = p1 ^ w[(j + 3) % 16].rotate_left(7) ^ w[(j + 10) % 16];
    }
    v[0] ^= a;
    v[1] ^= b;
    v[2] ^= c;
    v[3] ^= d;
    v[4] ^= e;
    v[5] ^= f;
    v[6] ^= g;
    v[7] ^= h;
}

impl Default for Sm3 {
    fn default() -> Self {
        Self::new()
    }
}

impl Sm3 {
    pub fn new() -> Self {
        Sm3 { v: IV, buf: [0; 64], fill: 0, total: 0 }
    }
    pub fn update(&mut self, mut data: &[u8]) {
        self.total += data.len() as u128;
        if self.fill > 0 {
            let take = (64 - self.fill).min(data.len());
            self.buf[self.fill..self.fill + take].copy_from_slice(&data[..take]);
            self.fill += take;
            data = &data[take..];
            if self.fill == 64 {
                let b = self.buf;
                compress(&mut self.v, &b);
                self.fill = 0;
            }
        }
        while data.len() >= 64 {
            compress(&mut self.v, &data[..64]);
            data = &data[64..];
        }
        if !data.is_empty() {
            self.buf[..data.len()].copy_from_slice(data);
            self.fill = data.len();
        }
    }
    pub fn finish(mut self) -> [u8; 32] {
        let bits: u64 = (self.total * 8) as u64;
        let mut pad = vec![0x80u8];
        let rem = (self.fill + 1) % 64;
        let zeros = if rem <= 56 { 56 - rem } else { 120 - rem };
        pad.extend(std::iter::repeat(0u8).take(zeros));
        pad.extend_from_slice(&bits.to_be_bytes());
        // bypass total accounting
        let t = self.total;
        self.update(&pad);
        self.total = t;
        assert_eq!(self.fill, 0);
        let mut out = [0u8; 32];
        for i in 0..8 {
            out[4 * i..4 * i + 4].copy_from_slice(&self.v[i].to_be_bytes());
        }
        out
    }
}

pub fn sm3(m: &[u8]) -> [u8; 32] {
    let mut h = Sm3::new();
    h.update(m);
    h.finish()
}

pub fn sm3_cat(parts: &[&[u8]]) -> [u8; 32] {
    let mut h = Sm3::new();
    for p in parts {
        h.update(p);
    }
    h.finish()
}

/// number of compression-function calls for a message of `len` bytes
pub fn blocks_for(len: u64) -> u64 {
    (len + 1 + 8 + 63) / 64
}

/// KDF of GB/T 32918.4 / GM/T 0044: first klen bytes of SM3(Z||1)||SM3(Z||2)||...
pub fn kdf(z: &[u8], klen: usize) -> Vec<u8> {
    let mut out = Vec::with_capacity(klen + 32);
    let mut ct: u32 = 1;
    while out.len() < klen {
        out.extend_from_slice(&sm3_cat(&[z, &ct.to_be_bytes()]));
        ct = ct.wrapping_add(1);
    }
    out.truncate(klen);
    out
}
