//! SM4 (GB/T 32907-2016) with an algebraically generated S-box, plus textbook modes.
use std::sync::OnceLock;

fn gmul(mut a: u16, mut b: u16, poly: u16) -> u16 {
    let mut r = 0u16;
    while b != 0 {
        if b & 1 != 0 {
            r ^= a;
        }
        a <<= 1;
        if a & 0x100 != 0 {
            a ^= poly;
        }
        b >>= 1;
    }
    r
}

fn ginv(a: u8, poly: u16) -> u8 {
    if a == 0 {
        return 0;
    }
    // a^254
    let mut r = 1u16;
    let mut base = a as u16;
    let mut e = 254u32;
    while e != 0 {
        if e & 1 != 0 {
            r = gmul(r, base, poly);
        }
        base = gmul(base, base, poly);
        e >>= 1;
    }
    r as u8
}

/// S(x) = L(inv(L(x) ^ 0xD3)) ^ 0xD3 over GF(2^8)/0x1F5, bit i of L(x) = parity(rotl8(0xA7, i) & x)
pub fn sbox() -> &'static [u8; 256] {
    static S: OnceLock<[u8; 256]> = OnceLock::new();
    S.get_or_init(|| {
        let l = |x: u8| -> u8 {
            let mut y = 0u8;
            for i in 0..8 {
                let row = 0xA7u8.rotate_left(i);
                y |= (((row & x).count_ones() & 1) as u8) << i;
            }
            y
        };
        let mut s = [0u8; 256];
        for x in 0..256usize {
            s[x] = l(ginv(l(x as u8) ^ 0xD3, 0x1F5)) ^ 0xD3;
        }
        s
    })
}

fn tau(a: u32) -> u32 {
    let s = sbox();
    let b = a.to_be_bytes();
    u32::from_be_bytes([s[b[0] as usize], s[b[1] as usize], s[b[2] as usize], s[b[3] as usize]])
}

const FK: [u32; 4] = [0xa3b1bac6, 0x56aa3350, 0x677d9197, 0xb27022dc];

fn ck(i: usize) -> u32 {
    // ck_{i,j} = (4i + j) * 7 mod 256
    let mut v = 0u32;
    for j in 0..4 {
        v = (v << 8) | ((((4 * i + j) * 7) % 256) as u32);
    }
    v
}

/// observer for structural coverage: (which = 0 data path / 1 key schedule, lane 0..4, index)
pub type Obs<'a> = &'a mut dyn FnMut(u8, usize, u8);

pub fn round_keys_obs(key: &[u8; 16], obs: Option<Obs>) -> [u32; 32] {
    let mut obs = obs;
    let mut k = [0u32; 36];
    for i in 0..4 {
        k[i] = u32::from_be_bytes(key[4 * i..4 * i + 4].try_into().unwrap()) ^ FK[i];
    }
    let mut rk = [0u32; 32];
    for i in 0..32 {
        let a = k[i + 1] ^ k[i + 2] ^ k[i + 3] ^ ck(i);
        if let Some(o) = obs.as_mut() {
            for (lane, b) in a.to_be_bytes().iter().enumerate() {
                o(1, lane, *b);
            }
        }
        let b = tau(a);
        k[i + 4] = k[i] ^ (b ^ b.rotate_left(13) ^ b.rotate_left(23));
        rk[i] = k[i + 4];
    }
    rk
}

/// the round function's T = L(tau(.)) and the key schedule's T' = L'(tau(.)), exposed for crafting inputs whose state or
/// schedule repeats a word
pub fn t_data(a: u32) -> u32 {
    let b = tau(a);
    b ^ b.rotate_left(2) ^ b.rotate_left(10) ^ b.rotate_left(18) ^ b.rotate_left(24)
}
pub fn t_key(a: u32) -> u32 {
    let b = tau(a);
    b ^ b.rotate_left(13) ^ b.rotate_left(23)
}
pub fn fk(i: usize) -> u32 {
    FK[i]
}
pub fn ck_const(i: usize) -> u32 {
    ck(i)
}

pub fn round_keys(key: &[u8; 16]) -> [u32; 32] {
    round_keys_obs(key, None)
}

/// The key schedule run backwards: the unique 128-bit key whose four consecutive round keys rk[j..j+4] are `four`
/// (K_i = K_{i+4} ^ T'(K_{i+1} ^ K_{i+2} ^ K_{i+3} ^ CK_i)). Used to craft keys with a chosen round key (0, all ones).
pub fn key_with_round_keys(j: usize, four: [u32; 4]) -> [u8; 16] {
    assert!(j <= 28);
    let mut k = [0u32; 36];
    // rk[i] = K_{i+4}
    for t in 0..4 {
        k[j + 4 + t] = four[t];
    }
    for i in (0..j + 4).rev() {
        let a = k[i + 1] ^ k[i + 2] ^ k[i + 3] ^ ck(i);
        let b = tau(a);
        k[i] = k[i + 4] ^ (b ^ b.rotate_left(13) ^ b.rotate_left(23));
    }
    let mut key = [0u8; 16];
    for i in 0..4 {
        key[4 * i..4 * i + 4].copy_from_slice(&(k[i] ^ FK[i]).to_be_bytes());
    }
    key
}

fn crypt(rk: &[u32; 32], block: &[u8; 16], decrypt: bool, obs: Option<Obs>) -> [u8; 16] {
    let mut obs = obs;
    let mut x = [0u32; 36];
    for i in 0..4 {
        x[i] = u32::from_be_bytes(block[4 * i..4 * i + 4].try_into().unwrap());
    }
    for i in 0..32 {
        let r = if decrypt { rk[31 - i] } else { rk[i] };
        let a = x[i + 1] ^ x[i + 2] ^ x[i + 3] ^ r;
        if let Some(o) = obs.as_mut() {
            for (lane, b) in a.to_be_bytes().iter().enumerate() {
                o(0, lane, *b);
            }
        }
        let b = tau(a);
        x[i + 4] = x[i] ^ (b ^ b.rotate_left(2) ^ b.rotate_left(10) ^ b.rotate_left(18) ^ b.rotate_left(24));
    }
    let mut out = [0u8; 16];
    for i in 0..4 {
        out[4 * i..4 * i + 4].copy_from_slice(&x[35 - i].to_be_bytes());
    }
    out
}

pub fn encrypt_block(key: &[u8; 16], block: &[u8; 16]) -> [u8; 16] {
    crypt(&round_keys(key), block, false, None)
}
pub fn decrypt_block(key: &[u8; 16], block: &[u8; 16]) -> [u8; 16] {
    crypt(&round_keys(key), block, true, None)
}
pub fn encrypt_block_obs(key: &[u8; 16], block: &[u8; 16], obs: Obs) -> [u8; 16] {
    let rk = round_keys_obs(key, Some(&mut *obs));
    crypt(&rk, block, false, Some(obs))
}
pub fn decrypt_block_obs(key: &[u8; 16], block: &[u8; 16], obs: Obs) -> [u8; 16] {
    let rk = round_keys_obs(key, Some(&mut *obs));
    crypt(&rk, block, true, Some(obs))
}

pub struct Cipher {
    rk: [u32; 32],
}
impl Cipher {
    pub fn new(key: &[u8; 16]) -> Self {
        Cipher { rk: round_keys(key) }
    }
    pub fn enc(&self, b: &[u8; 16]) -> [u8; 16] {
        crypt(&self.rk, b, false, None)
    }
    pub fn dec(&self, b: &[u8; 16]) -> [u8; 16] {
        crypt(&self.rk, b, true, None)
    }
}

fn xor16(a: &[u8; 16], b: &[u8]) -> [u8; 16] {
    let mut o = [0u8; 16];
    for i in 0..16 {
        o[i] = a[i] ^ b[i];
    }
    o
}

/// CBC with PKCS#7 padding
pub fn cbc_encrypt(key: &[u8; 16], iv: &[u8; 16], data: &[u8]) -> Vec<u8> {
    let c = Cipher::new(key);
    let padlen = 16 - data.len() % 16;
    let mut p = data.to_vec();
    p.extend(std::iter::repeat(padlen as u8).take(padlen));
    let mut prev = *iv;
    let mut out = Vec::with_capacity(p.len());
    for blk in p.chunks(16) {
        let x = xor16(&prev, blk);
        prev = c.enc(&x);
        out.extend_from_slice(&prev);
    }
    out
}

/// CBC decryption without unpadding (raw plaintext blocks); caller judges the padding
pub fn cbc_decrypt_raw(key: &[u8; 16], iv: &[u8; 16], ct: &[u8]) -> Vec<u8> {
    assert!(ct.len() % 16 == 0);
    let c = Cipher::new(key);
    let mut prev = *iv;
    let mut out = Vec::with_capacity(ct.len());
    for blk in ct.chunks(16) {
        let b: [u8; 16] = blk.try_into().unwrap();
        let d = c.dec(&b);
        out.extend_from_slice(&xor16(&d, &prev));
        prev = b;
    }
    out
}

/// CBC encryption of whole blocks without padding (to craft arbitrary final plaintext bytes)
pub fn cbc_encrypt_nopad(key: &[u8; 16], iv: &[u8; 16], data: &[u8]) -> Vec<u8> {
    assert!(data.len() % 16 == 0);
    let c = Cipher::new(key);
    let mut prev = *iv;
    let mut out = Vec::with_capacity(data.len());
    for blk in data.chunks(16) {
        let x = xor16(&prev, blk);
        prev = c.enc(&x);
        out.extend_from_slice(&prev);
    }
    out
}

/// full-block CFB-128; a trailing partial segment uses the leading bytes of the next keystream block
pub fn cfb_encrypt(key: &[u8; 16], iv: &[u8; 16], data: &[u8]) -> Vec<u8> {
    let c = Cipher::new(key);
    let mut reg = *iv;
    let mut out = Vec::with_capacity(data.len());
    for blk in data.chunks(16) {
        let ks = c.enc(&reg);
        let mut ct = [0u8; 16];
        for i in 0..blk.len() {
            ct[i] = blk[i] ^ ks[i];
        }
        out.extend_from_slice(&ct[..blk.len()]);
        if blk.len() == 16 {
            reg = ct;
        }
    }
    out
}
pub fn cfb_decrypt(key: &[u8; 16], iv: &[u8; 16], data: &[u8]) -> Vec<u8> {
    let c = Cipher::new(key);
    let mut reg = *iv;
    let mut out = Vec::with_capacity(data.len());
    for blk in data.chunks(16) {
        let ks = c.enc(&reg);
        for i in 0..blk.len() {
            out.push(blk[i] ^ ks[i]);
        }
        if blk.len() == 16 {
            reg.copy_from_slice(blk);
        }
    }
    out
}
pub fn ofb_crypt(key: &[u8; 16], iv: &[u8; 16], data: &[u8]) -> Vec<u8> {
    let c = Cipher::new(key);
    let mut reg = *iv;
    let mut out = Vec::with_capacity(data.len());
    for blk in data.chunks(16) {
        reg = c.enc(&reg);
        for i in 0..blk.len() {
            out.push(blk[i] ^ reg[i]);
        }
    }
    out
}
/// CTR with a 128-bit big-endian counter (carry through all 16 bytes, wrapping)
pub fn ctr_crypt(key: &[u8; 16], iv: &[u8; 16], data: &[u8]) -> Vec<u8> {
    let c = Cipher::new(key);
    let mut ctr = u128::from_be_bytes(*iv);
    let mut out = Vec::with_capacity(data.len());
    for blk in data.chunks(16) {
        let ks = c.enc(&ctr.to_be_bytes());
        for i in 0..blk.len() {
            out.push(blk[i] ^ ks[i]);
        }
        ctr = ctr.wrapping_add(1);
    }
    out
}
