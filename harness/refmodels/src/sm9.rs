//! SM9 (GM/T 0044.1-4) over big integers: Fp12 = Fp[w]/(w^12 + 2) in the polynomial basis,
//! affine G1/G2, a generic Miller loop over 6t+2 with the two Frobenius steps, and the final
//! exponent (p^12-1)/N by plain square-and-multiply.
use crate::ec::{Aff, Curve, Fld, Fp2Ctx, FpCtx, E2};
use crate::sm3::{kdf, sm3_cat};
use crate::util::{from_be, hexbig, to32};
use num_bigint::BigUint;
use num_traits::{One, Zero};
use std::sync::OnceLock;

pub type G1 = Aff<BigUint>;
pub type G2 = Aff<E2>;
pub type F12 = Vec<BigUint>; // 12 coefficients of w^0..w^11

pub struct Params {
    pub p: BigUint,
    pub n: BigUint,
    pub t: BigUint,
    pub p1: G1,
    pub p2: G2,
    pub e1: Curve<FpCtx>,
    pub e2: Curve<Fp2Ctx>,
    pub final_exp: BigUint,
    pub inv2: BigUint,
}

pub fn params() -> &'static Params {
    static P: OnceLock<Params> = OnceLock::new();
    P.get_or_init(|| {
        let p = hexbig("B640000002A3A6F1D603AB4FF58EC74521F2934B1A7AEEDBE56F9B27E351457D");
        let n = hexbig("B640000002A3A6F1D603AB4FF58EC74449F2934B18EA8BEEE56EE19CD69ECF25");
        let t = hexbig("600000000058F98A");
        let p1 = Some((
            hexbig("93DE051D62BF718FF5ED0704487D01D6E1E4086909DC3280E8C4E4817C66DDDD"),
            hexbig("21FE8DDA4F21E607631065125C395BBC1C1C00CBFA6024350C464CD70A3EA616"),
        ));
        // Fp2 element (c0, c1) = c0 + c1 u ; the standard prints the u-coefficient first
        let p2 = Some((
            (
                hexbig("3722755292130B08D2AAB97FD34EC120EE265948D19C17ABF9B7213BAF82D65B"),
                hexbig("85AEF3D078640C98597B6027B441A01FF1DD2C190F5E93C454806C11D8806141"),
            ),
            (
                hexbig("A7CF28D519BE3DA65F3170153D278FF247EFBA98A71A08116215BBA5C999A7C7"),
                hexbig("17509B092E845C1266BA0D262CBEE6ED0736A96FA347C8BD856DC76B84EBEB96"),
            ),
        ));
        let e1 = Curve { f: FpCtx { p: p.clone() }, a: BigUint::zero(), b: BigUint::from(5u32) };
        // twist: y^2 = x^3 + 5u
        let e2 = Curve {
            f: Fp2Ctx { p: p.clone() },
            a: (BigUint::zero(), BigUint::zero()),
            b: (BigUint::zero(), BigUint::from(5u32)),
        };
        let mut p12 = BigUint::one();
        for _ in 0..12 {
            p12 *= &p;
        }
        let final_exp = (p12 - BigUint::one()) / &n;
        let inv2 = BigUint::from(2u32).modpow(&(&p - BigUint::from(2u32)), &p);
        Params { p, n, t, p1, p2, e1, e2, final_exp, inv2 }
    })
}

// ---------------- Fp12
pub fn f12_one() -> F12 {
    let mut v = vec![BigUint::zero(); 12];
    v[0] = BigUint::one();
    v
}
pub fn f12_zero() -> F12 {
    vec![BigUint::zero(); 12]
}
pub fn f12_mul(a: &F12, b: &F12) -> F12 {
    let p = &params().p;
    let mut r = vec![BigUint::zero(); 23];
    for i in 0..12 {
        if a[i].is_zero() {
            continue;
        }
        for j in 0..12 {
            if b[j].is_zero() {
                continue;
            }
            r[i + j] += &a[i] * &b[j];
        }
    }
    // w^12 = -2
    let mut out = Vec::with_capacity(12);
    for k in 0..12 {
        let lo = &r[k] % p;
        let hi = if k + 12 < 23 { (&r[k + 12] * 2u32) % p } else { BigUint::zero() };
        out.push((lo + p - hi) % p);
    }
    out
}
pub fn f12_add(a: &F12, b: &F12) -> F12 {
    let p = &params().p;
    (0..12).map(|i| (&a[i] + &b[i]) % p).collect()
}
pub fn f12_sub(a: &F12, b: &F12) -> F12 {
    let p = &params().p;
    (0..12).map(|i| (&a[i] + p - &b[i]) % p).collect()
}
pub fn f12_neg(a: &F12) -> F12 {
    let p = &params().p;
    (0..12).map(|i| (p - &a[i]) % p).collect()
}
pub fn f12_pow(a: &F12, e: &BigUint) -> F12 {
    let mut r = f12_one();
    for i in (0..e.bits()).rev() {
        r = f12_mul(&r, &r);
        if e.bit(i) {
            r = f12_mul(&r, a);
        }
    }
    r
}
/// inverse via a^(p^12 - 2)
pub fn f12_inv(a: &F12) -> F12 {
    let p = &params().p;
    let mut p12 = BigUint::one();
    for _ in 0..12 {
        p12 *= p;
    }
    f12_pow(a, &(p12 - BigUint::from(2u32)))
}
pub fn f12_is_one(a: &F12) -> bool {
    a[0].is_one() && a[1..].iter().all(|c| c.is_zero())
}
/// a in Fp2 (u = w^6) times w^k, 0 <= k < 6
pub fn f12_from_f2(a: &E2, k: usize) -> F12 {
    let mut v = f12_zero();
    v[k] = a.0.clone();
    v[k + 6] = a.1.clone();
    v
}
/// w^-k for 1 <= k <= 11: w^-k = w^(12-k) / w^12 = -w^(12-k)/2
fn w_neg(k: usize) -> F12 {
    let pr = params();
    let mut v = f12_zero();
    v[12 - k] = (&pr.p - &pr.inv2) % &pr.p;
    v
}
/// 384-byte encoding used by GM/T 0044: coefficient index 6a + 3b + c for c in (2,1,0), b in (1,0), a in (1,0)
pub fn f12_bytes(a: &F12) -> Vec<u8> {
    let mut out = Vec::with_capacity(384);
    for c in [2usize, 1, 0] {
        for b in [1usize, 0] {
            for aa in [1usize, 0] {
                out.extend_from_slice(&to32(&a[6 * aa + 3 * b + c]));
            }
        }
    }
    out
}
pub fn f12_from_bytes(b: &[u8]) -> F12 {
    assert_eq!(b.len(), 384);
    let mut v = f12_zero();
    let mut off = 0;
    for c in [2usize, 1, 0] {
        for bb in [1usize, 0] {
            for aa in [1usize, 0] {
                v[6 * aa + 3 * bb + c] = from_be(&b[off..off + 32]);
                off += 32;
            }
        }
    }
    v
}

// ---------------- groups
pub fn g1_mul(k: &BigUint, p: &G1) -> G1 {
    params().e1.mul(k, p)
}
pub fn g1_add(p: &G1, q: &G1) -> G1 {
    params().e1.add(p, q)
}
pub fn g2_mul(k: &BigUint, p: &G2) -> G2 {
    params().e2.mul(k, p)
}
pub fn g2_add(p: &G2, q: &G2) -> G2 {
    params().e2.add(p, q)
}
pub fn g1_bytes(p: &G1) -> [u8; 64] {
    let (x, y) = p.as_ref().expect("finite");
    let mut o = [0u8; 64];
    o[..32].copy_from_slice(&to32(x));
    o[32..].copy_from_slice(&to32(y));
    o
}

// ---------------- pairing
/// line through twist points T, Q (tangent if equal) evaluated at P in G1; returns (value, T+Q)
fn line(t: &(E2, E2), q: &(E2, E2), p: &(BigUint, BigUint)) -> (F12, G2) {
    let pr = params();
    let f = &pr.e2.f;
    let lam2 = if t.0 == q.0 {
        assert!(t.1 == q.1, "vertical line in Miller loop");
        f.mul(&f.mul(&f.small(3), &f.sqr(&t.0)), &f.inv(&f.add(&t.1, &t.1)))
    } else {
        f.mul(&f.sub(&q.1, &t.1), &f.inv(&f.sub(&q.0, &t.0)))
    };
    // untwist: (x', y') -> (x' w^-2, y' w^-3); slope picks up w^-1
    let lam = f12_mul(&f12_from_f2(&lam2, 0), &w_neg(1));
    let xt = f12_mul(&f12_from_f2(&t.0, 0), &w_neg(2));
    let yt = f12_mul(&f12_from_f2(&t.1, 0), &w_neg(3));
    let mut xp = f12_zero();
    xp[0] = p.0.clone();
    let mut yp = f12_zero();
    yp[0] = p.1.clone();
    let g = f12_sub(&f12_mul(&lam, &f12_sub(&xp, &xt)), &f12_sub(&yp, &yt));
    let sum = pr.e2.add(&Some(t.clone()), &Some(q.clone()));
    (g, sum)
}

/// p-power Frobenius on the twist: untwist, raise coordinates to the p, twist back
fn frob_twist(q: &(E2, E2)) -> (E2, E2) {
    let pr = params();
    let x = f12_pow(&f12_mul(&f12_from_f2(&q.0, 0), &w_neg(2)), &pr.p);
    let y = f12_pow(&f12_mul(&f12_from_f2(&q.1, 0), &w_neg(3)), &pr.p);
    let mut w2 = f12_zero();
    w2[2] = BigUint::one();
    let mut w3 = f12_zero();
    w3[3] = BigUint::one();
    let x = f12_mul(&x, &w2);
    let y = f12_mul(&y, &w3);
    for v in [&x, &y] {
        for i in 0..12 {
            if i != 0 && i != 6 {
                assert!(v[i].is_zero(), "frobenius left Fp2");
            }
        }
    }
    ((x[0].clone(), x[6].clone()), (y[0].clone(), y[6].clone()))
}

/// Miller function value before the final exponentiation
pub fn miller(p: &G1, q: &G2) -> F12 {
    let pr = params();
    let p = p.as_ref().expect("finite P");
    let q = q.as_ref().expect("finite Q");
    let a = &pr.t * 6u32 + 2u32;
    let mut f = f12_one();
    let mut t = q.clone();
    for i in (0..a.bits() - 1).rev() {
        let (g, t2) = line(&t, &t, p);
        f = f12_mul(&f12_mul(&f, &f), &g);
        t = t2.expect("finite");
        if a.bit(i) {
            let (g, t2) = line(&t, q, p);
            f = f12_mul(&f, &g);
            t = t2.expect("finite");
        }
    }
    let q1 = frob_twist(q);
    let q2 = frob_twist(&q1);
    let (g, t2) = line(&t, &q1, p);
    f = f12_mul(&f, &g);
    t = t2.expect("finite");
    let nq2 = (q2.0.clone(), pr.e2.f.neg(&q2.1));
    let (g, _) = line(&t, &nq2, p);
    f12_mul(&f, &g)
}

/// R-ate pairing e(P, Q), P in G1, Q in G2
pub fn pairing(p: &G1, q: &G2) -> F12 {
    f12_pow(&miller(p, q), &params().final_exp)
}

// ---------------- hashes
/// (Ha mod (N-1)) + 1 with Ha the first 40 bytes of SM3(prefix||Z||1)||SM3(prefix||Z||2)
pub fn hn(prefix: u8, z: &[&[u8]]) -> BigUint {
    let n = &params().n;
    let mut parts: Vec<&[u8]> = vec![std::slice::from_ref(&prefix)];
    parts.extend_from_slice(z);
    let ct1 = [0u8, 0, 0, 1];
    let ct2 = [0u8, 0, 0, 2];
    let mut a = parts.clone();
    a.push(&ct1);
    let mut b = parts.clone();
    b.push(&ct2);
    let mut ha = sm3_cat(&a).to_vec();
    ha.extend_from_slice(&sm3_cat(&b));
    from_be(&ha[..40]) % (n - BigUint::one()) + BigUint::one()
}
pub fn ha_to_range(ha40: &[u8]) -> BigUint {
    let n = &params().n;
    from_be(&ha40[..40]) % (n - BigUint::one()) + BigUint::one()
}
pub fn h1(id: &[u8], hid: u8) -> BigUint {
    hn(1, &[id, &[hid]])
}
pub fn h2(m: &[u8], w: &[u8]) -> BigUint {
    hn(2, &[m, w])
}

pub const HID_SIGN: u8 = 1;
pub const HID_EXCH: u8 = 2;
pub const HID_ENC: u8 = 3;

/// t2 = k (H1(ID||hid) + k)^-1 mod N ; None when H1 + k = 0
pub fn extract_scalar(k: &BigUint, id: &[u8], hid: u8) -> Option<BigUint> {
    let n = &params().n;
    let t1 = (h1(id, hid) + k) % n;
    if t1.is_zero() {
        return None;
    }
    Some((k * t1.modpow(&(n - BigUint::from(2u32)), n)) % n)
}
pub fn extract_sign_key(ks: &BigUint, id: &[u8]) -> Option<G1> {
    Some(g1_mul(&extract_scalar(ks, id, HID_SIGN)?, &params().p1))
}
pub fn extract_enc_key(ke: &BigUint, id: &[u8], hid: u8) -> Option<G2> {
    Some(g2_mul(&extract_scalar(ke, id, hid)?, &params().p2))
}

// ---------------- signature
/// g = e(P1, Ppub-s)
pub fn sign_g(ppubs: &G2) -> F12 {
    pairing(&params().p1, ppubs)
}
/// None: l = 0, pick another r
pub fn sign_with_r(g: &F12, ds: &G1, msg: &[u8], r: &BigUint) -> Option<(BigUint, G1)> {
    let n = &params().n;
    let w = f12_pow(g, r);
    let h = h2(msg, &f12_bytes(&w));
    let l = (r + n - &h) % n;
    if l.is_zero() {
        return None;
    }
    Some((h, g1_mul(&l, ds)))
}
pub fn verify(g: &F12, ppubs: &G2, id: &[u8], msg: &[u8], h: &BigUint, s: &G1) -> bool {
    let pr = params();
    if h.is_zero() || *h >= pr.n {
        return false;
    }
    if s.is_none() || !pr.e1.on_curve(s) {
        return false;
    }
    let t = f12_pow(g, h);
    let h1v = h1(id, HID_SIGN);
    let pp = g2_add(&g2_mul(&h1v, &pr.p2), ppubs);
    if pp.is_none() {
        return false;
    }
    let u = pairing(s, &pp);
    let w = f12_mul(&u, &t);
    h2(msg, &f12_bytes(&w)) == *h
}

// ---------------- encryption
pub struct Ciphertext {
    pub c1: G1,
    pub c2: Vec<u8>,
    pub c3: [u8; 32],
}
impl Ciphertext {
    /// 0x04 || C1 || C3 || C2 (the layout gm-sm9 uses; GM/T 0044.4 orders C1||C3||C2)
    pub fn encode(&self) -> Vec<u8> {
        let mut v = vec![0x04];
        v.extend_from_slice(&g1_bytes(&self.c1));
        v.extend_from_slice(&self.c3);
        v.extend_from_slice(&self.c2);
        v
    }
}
/// g = e(Ppub-e, P2)
pub fn enc_g(ppube: &G1) -> F12 {
    pairing(ppube, &params().p2)
}
pub fn enc_q(ppube: &G1, id: &[u8], hid: u8) -> G1 {
    g1_add(&g1_mul(&h1(id, hid), &params().p1), ppube)
}
/// MAC(K2, Z) = SM3(Z || K2)
pub fn mac(k2: &[u8], z: &[u8]) -> [u8; 32] {
    sm3_cat(&[z, k2])
}
pub fn encrypt_with_r(g: &F12, ppube: &G1, id: &[u8], msg: &[u8], r: &BigUint) -> Option<Ciphertext> {
    let c1 = g1_mul(r, &enc_q(ppube, id, HID_ENC));
    let w = f12_pow(g, r);
    let mut z = g1_bytes(&c1).to_vec();
    z.extend_from_slice(&f12_bytes(&w));
    z.extend_from_slice(id);
    let k = kdf(&z, msg.len() + 32);
    let (k1, k2) = k.split_at(msg.len());
    if k1.iter().all(|b| *b == 0) {
        return None;
    }
    let c2: Vec<u8> = msg.iter().zip(k1).map(|(a, b)| a ^ b).collect();
    let c3 = mac(k2, &c2);
    Some(Ciphertext { c1, c2, c3 })
}
pub fn decrypt_fields(de: &G2, id: &[u8], c1: &G1, c2: &[u8], c3: &[u8]) -> Option<Vec<u8>> {
    let pr = params();
    if c1.is_none() || !pr.e1.on_curve(c1) {
        return None;
    }
    let w = pairing(c1, de);
    let mut z = g1_bytes(c1).to_vec();
    z.extend_from_slice(&f12_bytes(&w));
    z.extend_from_slice(id);
    let k = kdf(&z, c2.len() + 32);
    let (k1, k2) = k.split_at(c2.len());
    if k1.iter().all(|b| *b == 0) {
        return None;
    }
    if mac(k2, c2)[..] != c3[..] {
        return None;
    }
    Some(c2.iter().zip(k1).map(|(a, b)| a ^ b).collect())
}

// ---------------- key exchange
pub struct Exch {
    pub ra: G1,
    pub rb: G1,
    pub g1: F12,
    pub g2: F12,
    pub g3: F12,
}
/// honest run for fixed ephemeral scalars; the three pairing values as both sides compute them
pub fn exchange(ke: &BigUint, ida: &[u8], idb: &[u8], r_a: &BigUint, r_b: &BigUint) -> Option<Exch> {
    let pr = params();
    let ppube = g1_mul(ke, &pr.p1);
    let de_b = extract_enc_key(ke, idb, HID_EXCH)?;
    let qb = enc_q(&ppube, idb, HID_EXCH);
    let qa = enc_q(&ppube, ida, HID_EXCH);
    let ra = g1_mul(r_a, &qb);
    let rb = g1_mul(r_b, &qa);
    let g = enc_g(&ppube);
    let g1 = pairing(&ra, &de_b);
    let g2 = f12_pow(&g, r_b);
    let g3 = f12_pow(&g1, r_b);
    Some(Exch { ra, rb, g1, g2, g3 })
}
pub fn exchange_key(ida: &[u8], idb: &[u8], x: &Exch, klen: usize) -> Vec<u8> {
    let mut z = Vec::new();
    z.extend_from_slice(ida);
    z.extend_from_slice(idb);
    z.extend_from_slice(&g1_bytes(&x.ra));
    z.extend_from_slice(&g1_bytes(&x.rb));
    z.extend_from_slice(&f12_bytes(&x.g1));
    z.extend_from_slice(&f12_bytes(&x.g2));
    z.extend_from_slice(&f12_bytes(&x.g3));
    kdf(&z, klen)
}

/// square root in Fp by Tonelli-Shanks (p = 1 mod 4 for the SM9 prime); None for a non-residue
pub fn sqrt_fp(a: &BigUint) -> Option<BigUint> {
    use num_traits::{One, Zero};
    let p = &params().p;
    let a = a % p;
    if a.is_zero() {
        return Some(BigUint::zero());
    }
    let one = BigUint::one();
    let two = BigUint::from(2u32);
    if a.modpow(&((p - &one) / &two), p) != one {
        return None;
    }
    // p - 1 = q 2^s
    let mut q = p - &one;
    let mut s = 0u32;
    while (&q % &two).is_zero() {
        q /= &two;
        s += 1;
    }
    let mut z = two.clone();
    while z.modpow(&((p - &one) / &two), p) == one {
        z += &one;
    }
    let mut m = s;
    let mut c = z.modpow(&q, p);
    let mut t = a.modpow(&q, p);
    let mut r = a.modpow(&((&q + &one) / &two), p);
    while t != one {
        let mut i = 0u32;
        let mut tt = t.clone();
        while tt != one {
            tt = (&tt * &tt) % p;
            i += 1;
        }
        let b = c.modpow(&(BigUint::one() << (m - i - 1)), p);
        m = i;
        c = (&b * &b) % p;
        t = (&t * &c) % p;
        r = (&r * &b) % p;
    }
    if (&r * &r) % p == a {
        Some(r)
    } else {
        None
    }
}

/// cube root in Fp (p = 4 mod 9 for the SM9 prime: a^((2p+1)/9) when a is a cubic residue); None otherwise
pub fn cbrt_fp(a: &BigUint) -> Option<BigUint> {
    let p = &params().p;
    let a = a % p;
    let e = (p * 2u32 + 1u32) / 9u32;
    let x = a.modpow(&e, p);
    if (&x * &x * &x) % p == a {
        Some(x)
    } else {
        None
    }
}
