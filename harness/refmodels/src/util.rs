use num_bigint::BigUint;
use num_traits::{One, Zero};

/// Fixed splitmix64: VERIF_SEED only selects the concrete value of the "arbitrary" alphabet elements.
#[derive(Clone)]
pub struct SplitMix(pub u64);
impl SplitMix {
    pub fn new(seed: u64, stream: &str) -> Self {
        let mut h = seed ^ 0x9E37_79B9_7F4A_7C15;
        for b in stream.bytes() {
            h = (h ^ b as u64).wrapping_mul(0x100_0000_01B3);
        }
        SplitMix(h)
    }
    pub fn next(&mut self) -> u64 {
        self.0 = self.0.wrapping_add(0x9E37_79B9_7F4A_7C15);
        let mut z = self.0;
        z = (z ^ (z >> 30)).wrapping_mul(0xBF58_476D_1CE4_E5B9);
        z = (z ^ (z >> 27)).wrapping_mul(0x94D0_49BB_1331_11EB);
        z ^ (z >> 31)
    }
    pub fn bytes(&mut self, n: usize) -> Vec<u8> {
        let mut v = Vec::with_capacity(n + 8);
        while v.len() < n {
            v.extend_from_slice(&self.next().to_be_bytes());
        }
        v.truncate(n);
        v
    }
    pub fn below(&mut self, m: &BigUint) -> BigUint {
        // 64 extra bits make the modulo bias irrelevant; this is an alphabet element, not a sample.
        let b = self.bytes(((m.bits() as usize) + 7) / 8 + 8);
        BigUint::from_bytes_be(&b) % m
    }
    /// in [1, m-1]
    pub fn nonzero_below(&mut self, m: &BigUint) -> BigUint {
        self.below(&(m - BigUint::one())) + BigUint::one()
    }
}

pub fn hexbig(s: &str) -> BigUint {
    let t: String = s.chars().filter(|c| !c.is_whitespace()).collect();
    BigUint::parse_bytes(t.as_bytes(), 16).expect("hex")
}

pub fn to32(x: &BigUint) -> [u8; 32] {
    let b = x.to_bytes_be();
    assert!(b.len() <= 32, "to32 overflow");
    let mut o = [0u8; 32];
    o[32 - b.len()..].copy_from_slice(&b);
    o
}

pub fn from_be(b: &[u8]) -> BigUint {
    BigUint::from_bytes_be(b)
}

/// little-endian 64-bit limbs as used by gm-rs `U256`
pub fn to_limbs(x: &BigUint) -> [u64; 4] {
    let b = to32(x);
    let mut l = [0u64; 4];
    for i in 0..4 {
        l[3 - i] = u64::from_be_bytes(b[8 * i..8 * i + 8].try_into().unwrap());
    }
    l
}

pub fn from_limbs(l: &[u64; 4]) -> BigUint {
    let mut b = [0u8; 32];
    for i in 0..4 {
        b[8 * i..8 * i + 8].copy_from_slice(&l[3 - i].to_be_bytes());
    }
    BigUint::from_bytes_be(&b)
}

pub fn modinv(a: &BigUint, m: &BigUint) -> BigUint {
    // m prime
    assert!(!(a % m).is_zero());
    a.modpow(&(m - BigUint::from(2u32)), m)
}

pub fn submod(a: &BigUint, b: &BigUint, m: &BigUint) -> BigUint {
    ((a % m) + m - (b % m)) % m
}

pub fn hex(b: &[u8]) -> String {
    hex::encode(b)
}
