//! ZUC-128 (GM/T 0001-2012 / ETSI-SAGE v1.6), 128-EEA3 and 128-EIA3, bit-level.
//! LFSR arithmetic is plain u64 arithmetic modulo 2^31-1; S-boxes are generated from structure.
use std::sync::OnceLock;

const M31: u64 = (1 << 31) - 1;
const D: [u32; 16] = [
    0x44D7, 0x26BC, 0x626B, 0x135E, 0x5789, 0x35E2, 0x7135, 0x09AF, 0x4D78, 0x2F13, 0x6BC4, 0x1AF1,
    0x5E26, 0x3C4D, 0x789A, 0x47AC,
];

fn gmul(mut a: u16, mut b: u16, poly: u16) -> u16 {
    let mut r = 0u16;
    while b != 0 {
        if b & 1 != 0 {
            r ^= a;
        }
        a <<= 1;
        if a & 0x100 != 0 {
            a ^= poly;
        }
        b >>= 1;
    }
    r
}

/// S0: three-round 4-bit Feistel-like structure followed by a rotation by 5 (tables in an
/// equivalent normal form of the specification's P1,P2,P3).
pub fn s0() -> &'static [u8; 256] {
    static S: OnceLock<[u8; 256]> = OnceLock::new();
    S.get_or_init(|| {
        const P1: [u8; 16] = [0, 6, 9, 7, 6, 6, 11, 3, 9, 13, 9, 5, 14, 12, 10, 0];
        const P2: [u8; 16] = [1, 11, 10, 14, 3, 15, 2, 9, 13, 8, 5, 6, 0, 7, 4, 12];
        const P3: [u8; 16] = [11, 15, 3, 15, 9, 4, 3, 6, 10, 10, 4, 12, 9, 0, 5, 4];
        let mut s = [0u8; 256];
        for x in 0..256usize {
            let (x1, x2) = ((x >> 4) as u8, (x & 15) as u8);
            let q1 = x1 ^ P1[x2 as usize];
            let q2 = x2 ^ P2[q1 as usize];
            let q3 = q1 ^ P3[q2 as usize];
            s[x] = ((q3 << 4) | q2).rotate_left(5);
        }
        s
    })
}

/// S1 = affine ∘ inverse over GF(2^8)/0x18B, constant 0x55
pub fn s1() -> &'static [u8; 256] {
    static S: OnceLock<[u8; 256]> = OnceLock::new();
    S.get_or_init(|| {
        const COLS: [u8; 8] = [0x97, 0x3e, 0x6d, 0xcb, 0xee, 0xdd, 0xbb, 0x77];
        let mut s = [0u8; 256];
        for x in 0..256usize {
            let mut inv = 0u16;
            if x != 0 {
                let mut r = 1u16;
                let mut b = x as u16;
                let mut e = 254;
                while e != 0 {
                    if e & 1 != 0 {
                        r = gmul(r, b, 0x18B);
                    }
                    b = gmul(b, b, 0x18B);
                    e >>= 1;
                }
                inv = r;
            }
            let mut y = 0x55u8;
            for i in 0..8 {
                if (inv >> i) & 1 != 0 {
                    y ^= COLS[i];
                }
            }
            s[x] = y;
        }
        s
    })
}

#[derive(Clone, Default)]
pub struct SboxCov {
    /// [position 0..4][index] hit counts; positions 0,2 use S0, 1,3 use S1
    pub hit: Vec<[u32; 256]>,
    pub s16_zero: u64,
}

pub struct Zuc {
    s: [u32; 16],
    r1: u32,
    r2: u32,
    x: [u32; 4],
    pub cov: Option<SboxCov>,
}

fn rol31(x: u32, k: u32) -> u64 {
    // multiplication by 2^k modulo 2^31-1
    ((x as u64) << k) % M31
}

impl Zuc {
    pub fn new(key: &[u8; 16], iv: &[u8; 16]) -> Self {
        Self::new_impl(key, iv, false)
    }
    fn new_impl(key: &[u8; 16], iv: &[u8; 16], cov: bool) -> Self {
        let mut s = [0u32; 16];
        for i in 0..16 {
            s[i] = ((key[i] as u32) << 23) | (D[i] << 8) | iv[i] as u32;
        }
        let mut z = Zuc { s, r1: 0, r2: 0, x: [0; 4], cov: if cov { Some(SboxCov { hit: vec![[0; 256]; 4], s16_zero: 0 }) } else { None } };
        for _ in 0..32 {
            z.bitreorg();
            let w = z.f();
            z.lfsr(Some(w >> 1));
        }
        // one work-mode step whose output is discarded
        z.bitreorg();
        z.f();
        z.lfsr(None);
        z
    }
    pub fn with_cov(key: &[u8; 16], iv: &[u8; 16]) -> Self {
        Self::new_impl(key, iv, true)
    }
    fn bitreorg(&mut self) {
        let s = &self.s;
        self.x[0] = ((s[15] >> 15) << 16) | (s[14] & 0xffff);
        self.x[1] = ((s[11] & 0xffff) << 16) | (s[9] >> 15);
        self.x[2] = ((s[7] & 0xffff) << 16) | (s[5] >> 15);
        self.x[3] = ((s[2] & 0xffff) << 16) | (s[0] >> 15);
    }
    fn sb(&mut self, v: u32) -> u32 {
        let b = v.to_be_bytes();
        if let Some(c) = self.cov.as_mut() {
            for i in 0..4 {
                c.hit[i][b[i] as usize] += 1;
            }
        }
        u32::from_be_bytes([s0()[b[0] as usize], s1()[b[1] as usize], s0()[b[2] as usize], s1()[b[3] as usize]])
    }
    fn f(&mut self) -> u32 {
        let w = (self.x[0] ^ self.r1).wrapping_add(self.r2);
        let w1 = self.r1.wrapping_add(self.x[1]);
        let w2 = self.r2 ^ self.x[2];
        let u = (w1 << 16) | (w2 >> 16);
        let v = (w2 << 16) | (w1 >> 16);
        let l1 = u ^ u.rotate_left(2) ^ u.rotate_left(10) ^ u.rotate_left(18) ^ u.rotate_left(24);
        let l2 = v ^ v.rotate_left(8) ^ v.rotate_left(14) ^ v.rotate_left(22) ^ v.rotate_left(30);
        self.r1 = self.sb(l1);
        self.r2 = self.sb(l2);
        w
    }
    fn lfsr(&mut self, u: Option<u32>) {
        let s = &self.s;
        let mut v = (rol31(s[15], 15) + rol31(s[13], 17) + rol31(s[10], 21) + rol31(s[4], 20) + rol31(s[0], 8) + s[0] as u64) % M31;
        if let Some(u) = u {
            v = (v + u as u64) % M31;
        }
        if v == 0 {
            v = M31;
            if let Some(c) = self.cov.as_mut() {
                c.s16_zero += 1;
            }
        }
        for i in 0..15 {
            self.s[i] = self.s[i + 1];
        }
        self.s[15] = v as u32;
    }
    pub fn next_word(&mut self) -> u32 {
        self.bitreorg();
        let z = self.f() ^ self.x[3];
        self.lfsr(None);
        z
    }
    pub fn words(&mut self, n: usize) -> Vec<u32> {
        (0..n).map(|_| self.next_word()).collect()
    }
}

pub fn keystream(key: &[u8; 16], iv: &[u8; 16], n: usize) -> Vec<u32> {
    Zuc::new(key, iv).words(n)
}

pub fn eea3_iv(count: u32, bearer: u32, direction: u32) -> [u8; 16] {
    let mut iv = [0u8; 16];
    iv[0..4].copy_from_slice(&count.to_be_bytes());
    iv[4] = (((bearer & 0x1f) << 3) | ((direction & 1) << 2)) as u8;
    for i in 0..8 {
        iv[8 + i] = iv[i];
    }
    iv
}

/// 128-EEA3: message and output as bit strings packed MSB-first into 32-bit words
pub fn eea3(ck: &[u8; 16], count: u32, bearer: u32, direction: u32, length: u32, m: &[u32]) -> Vec<u32> {
    let l = ((length + 31) / 32) as usize;
    let z = keystream(ck, &eea3_iv(count, bearer, direction), l);
    let mut out = Vec::with_capacity(l);
    for i in 0..l {
        let mut w = 0u32;
        for b in 0..32 {
            let pos = (32 * i + b) as u32;
            if pos < length {
                let mb = (m[i] >> (31 - b)) & 1;
                let zb = (z[i] >> (31 - b)) & 1;
                w |= (mb ^ zb) << (31 - b);
            }
        }
        out.push(w);
    }
    out
}

pub fn eia3_iv(count: u32, bearer: u32, direction: u32) -> [u8; 16] {
    let mut iv = [0u8; 16];
    iv[0..4].copy_from_slice(&count.to_be_bytes());
    iv[4] = ((bearer & 0x1f) << 3) as u8;
    iv[8] = iv[0] ^ (((direction & 1) << 7) as u8);
    iv[9] = iv[1];
    iv[10] = iv[2];
    iv[11] = iv[3];
    iv[12] = iv[4];
    iv[13] = iv[5];
    iv[14] = iv[6] ^ (((direction & 1) << 7) as u8);
    iv[15] = iv[7];
    iv
}

/// 128-EIA3, bit-level: T = XOR_{i<LENGTH, m_i=1} z_i ^ z_LENGTH ^ z_{32(L-1)}, z_i = bits i..i+31
pub fn eia3(ik: &[u8; 16], count: u32, bearer: u32, direction: u32, length: u32, m: &[u32]) -> u32 {
    let n = length as usize + 64;
    let l = (n + 31) / 32;
    let z = keystream(ik, &eia3_iv(count, bearer, direction), l);
    let bit = |i: usize| -> u32 { (z[i / 32] >> (31 - (i % 32))) & 1 };
    let word_at = |i: usize| -> u32 {
        let mut w = 0u32;
        for b in 0..32 {
            w = (w << 1) | bit(i + b);
        }
        w
    };
    let mut t = 0u32;
    for i in 0..length as usize {
        if (m[i / 32] >> (31 - (i % 32))) & 1 == 1 {
            t ^= word_at(i);
        }
    }
    t ^= word_at(length as usize);
    t ^ z[l - 1]
}

/// Craft (key, IV) pairs for which the LFSR feedback of the FIRST initialisation round is
/// congruent to 0 modulo 2^31-1, so that the "s16 = 0 -> 2^31-1" replacement is exercised.
/// In round 1, R1 = R2 = 0, so everything is a direct function of key/IV bytes: solve for s10.
pub fn craft_s16_zero(base_key: &[u8; 16], base_iv: &[u8; 16]) -> Vec<([u8; 16], [u8; 16])> {
    let mut out = Vec::new();
    let inv2_21 = {
        // inverse of 2^21 modulo 2^31-1 is 2^10 (2^31 = 1)
        1u64 << 10
    };
    // s0 enters with weight (1 + 2^8) * 2^10 after the inversion of 2^21, which stirs the middle bits of s10
    for k13 in 0..=255u32 {
        for iv13 in 0..=255u32 {
            let (mut key, mut iv) = (*base_key, *base_iv);
            key[0] = k13 as u8;
            iv[0] = iv13 as u8;
            let s = |i: usize, key: &[u8; 16], iv: &[u8; 16]| -> u64 { (((key[i] as u32) << 23) | (D[i] << 8) | iv[i] as u32) as u64 };
            let x0 = (((s(15, &key, &iv) >> 15) << 16) | (s(14, &key, &iv) & 0xffff)) as u32;
            let u = (x0 >> 1) as u64; // W = X0 in round 1
            let rest = (rol31(s(15, &key, &iv) as u32, 15) + rol31(s(13, &key, &iv) as u32, 17) + rol31(s(4, &key, &iv) as u32, 20) + rol31(s(0, &key, &iv) as u32, 8) + s(0, &key, &iv) + u) % M31;
            // need 2^21 * s10 = -rest  (mod M31)
            let target = ((M31 - rest) % M31) * inv2_21 % M31;
            for cand in [target, if target == 0 { M31 } else { target }] {
                let c = cand as u32;
                if c != 0 && (c >> 8) & 0x7fff == D[10] && c < (1 << 31) {
                    key[10] = (c >> 23) as u8;
                    iv[10] = (c & 0xff) as u8;
                    let mut z = Zuc::new_impl(&key, &iv, true);
                    let _ = z.next_word();
                    if z.cov.as_ref().map(|c| c.s16_zero).unwrap_or(0) > 0 && !out.contains(&(key, iv)) {
                        out.push((key, iv));
                    }
                }
            }
        }
    }
    out
}
