#[test]
fn all() {
    let t = std::time::Instant::now();
    for w in ["sm3", "sm4long", "zuc", "sm2", "sm9"] {
        refmodels::selftest::run(&[w]).unwrap_or_else(|e| panic!("{}: {}", w, e));
        eprintln!("{} ok at {:?}", w, t.elapsed());
    }
}
