#!/usr/bin/env python3
"""crlf_edit.py FILE  <<< json [{"old": "...", "new": "..."}]  -- exact replacement preserving the file's line endings."""
import sys, json
path = sys.argv[1]
data = open(path, 'rb').read()
crlf = b'\r\n' in data
edits = json.load(sys.stdin)
for e in edits:
    old = e['old'].encode(); new = e['new'].encode()
    if crlf:
        old = old.replace(b'\r\n', b'\n').replace(b'\n', b'\r\n')
        new = new.replace(b'\r\n', b'\n').replace(b'\n', b'\r\n')
    n = data.count(old)
    if n != 1:
        sys.exit(f"{path}: pattern occurs {n} times: {e['old'][:60]!r}")
    data = data.replace(old, new)
open(path, 'wb').write(data)
print("edited", path, "crlf" if crlf else "lf")
