#!/usr/bin/env python3
"""Generate SM2 corpora with OpenSSL 3.0 (run once at build time; checks only read the JSON):
   corpus/sm2_keys.json, corpus/sm2_sigs.json, corpus/sm2_cts.json"""
import subprocess, json, os, tempfile, hashlib, re
def run(args, data=None):
    return subprocess.run(args, input=data, capture_output=True, check=True).stdout
def prng(n, tag):
    out=b''; c=0
    while len(out)<n:
        out+=hashlib.sha256(tag.encode()+c.to_bytes(4,'big')).digest(); c+=1
    return out[:n]
def der_tlv(b, off=0):
    tag=b[off]; l=b[off+1]; hdr=2
    if l&0x80:
        nb=l&0x7f; l=int.from_bytes(b[off+2:off+2+nb],'big'); hdr=2+nb
    return tag, b[off+hdr:off+hdr+l], off+hdr+l
tmp=tempfile.mkdtemp()
keys=[]; sigs=[]; cts=[]
for i in range(20):
    kp=f'{tmp}/k{i}.pem'
    run(['openssl','genpkey','-algorithm','EC','-pkeyopt','ec_paramgen_curve:sm2','-out',kp])
    pkcs8_pem=open(kp).read()
    pkcs8_der=run(['openssl','pkcs8','-topk8','-nocrypt','-in',kp,'-outform','DER'])
    spki_pem=run(['openssl','pkey','-in',kp,'-pubout']).decode()
    spki_der=run(['openssl','pkey','-in',kp,'-pubout','-outform','DER'])
    txt=run(['openssl','pkey','-in',kp,'-text','-noout']).decode()
    priv=re.search(r'priv:\s*((?:[0-9a-f]{2}:?\s*)+)pub:',txt,re.S).group(1)
    d=bytes.fromhex(re.sub(r'[\s:]','',priv)); d=(b'\0'*32+d)[-32:]
    pub=spki_der[-65:]
    assert pub[0]==4
    open(f'{tmp}/pub{i}.pem','w').write(spki_pem)
    keys.append({'d':d.hex(),'pub':pub.hex(),'pkcs8_pem':pkcs8_pem,'spki_pem':spki_pem,'pkcs8_der':pkcs8_der.hex(),'spki_der':spki_der.hex()})
    for j,(idv,mlen) in enumerate([('1234567812345678',5),('alice@example.com',64),('A',0 if False else 1),('1234567812345678',300)]):
        msg=prng(mlen,f'm{i}-{j}')
        mf=f'{tmp}/m.bin'; open(mf,'wb').write(msg)
        der=run(['openssl','pkeyutl','-sign','-rawin','-digest','sm3','-inkey',kp,'-in',mf,'-pkeyopt','distid:'+idv])
        _,seq,_=der_tlv(der)
        t,r,o=der_tlv(seq); t,s,o=der_tlv(seq,o)
        r=int.from_bytes(r,'big').to_bytes(32,'big'); s=int.from_bytes(s,'big').to_bytes(32,'big')
        # verify with openssl too
        sf=f'{tmp}/s.der'; open(sf,'wb').write(der)
        run(['openssl','pkeyutl','-verify','-rawin','-digest','sm3','-pubin','-inkey',f'{tmp}/pub{i}.pem','-in',mf,'-sigfile',sf,'-pkeyopt','distid:'+idv])
        sigs.append({'pub':pub.hex(),'id':idv,'msg':msg.hex(),'r':r.hex(),'s':s.hex()})
    for j,mlen in enumerate([1,19,32,33,100]):
        msg=prng(mlen,f'c{i}-{j}')
        mf=f'{tmp}/m.bin'; open(mf,'wb').write(msg)
        der=run(['openssl','pkeyutl','-encrypt','-pubin','-inkey',f'{tmp}/pub{i}.pem','-in',mf])
        cts.append({'d':d.hex(),'pub':pub.hex(),'msg':msg.hex(),'der':der.hex()})
os.makedirs('/verif/corpus',exist_ok=True)
json.dump(keys,open('/verif/corpus/sm2_keys.json','w'),indent=0)
json.dump(sigs,open('/verif/corpus/sm2_sigs.json','w'),indent=0)
json.dump(cts,open('/verif/corpus/sm2_cts.json','w'),indent=0)
print(len(keys),'keys',len(sigs),'sigs',len(cts),'cts')
