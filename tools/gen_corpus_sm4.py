#!/usr/bin/env python3
"""Generate /verif/corpus/sm4_modes.json and sm3.json with OpenSSL 3.0 (run once at build time; checks only read the JSON)."""
import subprocess, json, hashlib, os
def ossl(args, data):
    return subprocess.run(['openssl']+args, input=data, capture_output=True, check=True).stdout
def prng(n, tag):
    out=b''; c=0
    while len(out)<n:
        out+=hashlib.sha256(tag.encode()+c.to_bytes(4,'big')).digest(); c+=1
    return out[:n]
keys=['0123456789abcdeffedcba9876543210', prng(16,'k2').hex()]
ivs=['00'*16, prng(16,'iv').hex(), 'ff'*16, prng(8,'ivh').hex()+'ff'*8, prng(15,'ivl').hex()+'ff', '00'*12+'ffffffff', prng(12,'q').hex()+'fffffffe']
lens=[0,1,15,16,17,31,32,33,47,48,64,100,200,513]
out=[]
for mode in ['ecb','cbc','cfb','ofb','ctr']:
    for key in keys:
        for iv in ivs:
            for L in lens:
                if mode=='ecb' and (L%16 or iv!=ivs[0]): continue
                pt=prng(L,'pt%d'%L)
                args=['enc','-sm4-'+mode,'-K',key]
                if mode!='ecb': args+=['-iv',iv]
                if mode=='ecb': args+=['-nopad']
                ct=ossl(args,pt)
                out.append({'mode':mode,'key':key,'iv':iv,'pt':pt.hex(),'ct':ct.hex()})
json.dump(out,open('/verif/corpus/sm4_modes.json','w'),indent=0)
print(len(out),'sm4 entries')
# SM3
sm3=[]
for L in list(range(0,301))+[511,512,513,1000,4095,4096,4097,65536]:
    m=prng(L,'sm3-%d'%L)
    d=ossl(['dgst','-sm3','-binary'],m)
    sm3.append({'msg_tag':'sha256ctr:sm3-%d'%L,'len':L,'msg':m.hex(),'digest':d.hex()})
json.dump(sm3,open('/verif/corpus/sm3.json','w'),indent=0)
print(len(sm3),'sm3 entries')
