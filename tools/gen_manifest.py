#!/usr/bin/env python3
"""Regenerates /verif/MANIFEST.json from the table below (single source of truth for the interface)."""
import json, subprocess, os

E1 = "explicit-state BFS (stateright 0.31) over operation/tamper/RNG-answer histories executed on the real code, reference-model invariant in every state"
E2 = "bounded exhaustive product enumeration of named input alphabets on the real code against an independent reference model"

CHECKS = {
 "C01": dict(tech=E2 + "; plus " + E1 + " for purity",
   text="Every message length 0..=1100 (thorough 0..=4096) in 5 content classes, every single-bit message of 55/56/63/64/192 bytes, block-boundary lengths up to 40 blocks, one message of 2^29+3 bytes, and every call sequence of length <=3 over 6 messages (stateright) are hashed by gm_sm3::sm3_hash and compared with an independent streaming SM3 pinned by GB/T 32905 vectors and an OpenSSL corpus. Exhaustive within those alphabets; says nothing about messages outside them.",
   note="Trusted base: refmodels::sm3 (self-tested against standard vectors and 309 OpenSSL digests), rustc, the harness. Assumes the small-scope hypothesis for lengths beyond the bound.", ref="§3 C01"),
 "C02": dict(tech=E2 + "; plus " + E1 + " for object immutability",
   text="Full product of ~150 structured keys x ~150 structured blocks through encrypt, decrypt and both round trips, two derived families that drive every S-box index through every byte lane of the data path and of the key schedule (2048/2048 covered, measured), and all 341 operation sequences to depth 4 on one cipher object (stateright), each compared with an independent SM4 whose S-box is generated algebraically.",
   note="Trusted base: refmodels::sm4 (GB/T 32907 vector, 10^6 iterate in thorough, OpenSSL ECB corpus). Keys/blocks outside the structured alphabets are not covered.", ref="§3 C02"),
 "C07": dict(tech=E2,
   text="mode x every data length 0..=200 (thorough 600) x 2 keys x 19 IVs (incl. carries through 0..16 trailing 0xFF bytes) x 2 contents: ciphertext must equal the textbook mode over the reference cipher and the library must decrypt the reference ciphertext; IV lengths 0..=32, CBC ciphertexts of every length, and every final padding byte value 0..=255 must be rejected/accepted as the property states, never panic.",
   note="Trusted base: refmodels::sm4 modes, pinned by 794 OpenSSL 3.0 vectors (corpus/sm4_modes.json). For a final byte in 1..=16 with malformed padding only 'no panic and, if Ok, the right prefix' is demanded (the property does not ask for full PKCS#7 validation).", ref="§3 C07"),
 "C08": dict(tech=E1 + "; plus long-stream comparison",
   text="stateright BFS over every composition of every total <=12 words with up to 1 (thorough 2) empty requests on the real ZUC generator for 5 key/IV pairs, plus the 256 single-bit keys/IVs with short totals; invariant in every state: concatenated output equals the reference keystream prefix and each request returns the requested count. 2^16-word streams in 1, 16 and 256 requests compared word by word; reference counts S-box indices hit (1024/1024).",
   note="Trusted base: refmodels::zuc (u64 arithmetic mod 2^31-1, generated S-boxes, three official vectors). The LFSR s16==0 replacement is exercised by crafted key/IV pairs (initialisation round 1) and pre-searched pairs (work mode), confirmed by the reference's branch counter.", ref="§3 C08"),
 "C18": dict(tech=E2,
   text="Every LENGTH 0..=600 (EIA3) / 1..=600 (EEA3) x (bearer,direction) pairs x 3 key/COUNT values x 3 message classes, and every single-bit flip of the message for every LENGTH<=96 and every 37th after, compared with bit-level 128-EEA3/128-EIA3 over the independent ZUC; EEA3 applied twice must restore the first LENGTH bits.",
   note="Trusted base: refmodels::zuc eea3/eia3, pinned by 3GPP EEA3 set 1 and EIA3 sets 1, 2 and the 577-bit set. LENGTH > 600 and messages shorter than ceil(LENGTH/32) words are outside the bound/contract.", ref="§3 C18"),
 "C03": dict(tech=E2 + " with the nonce injected at an RNG seam",
   text="Private keys x nonces over boundary alphabets {1,2,3,n-2,n-3,2^255,limb patterns,Annex,seeded} (nonce via the RNG seam), IDs {default,'',1,16,37,8191 bytes} x message lengths {0..4096 boundary set}: every signature is 64 bytes with r,s in [1,n-1], equals the reference signature for the nonce the seam reports as accepted, is accepted by the reference verifier and by the library; a reference-made signature (other nonce) and 80 OpenSSL signatures are accepted; GM/T 0003.5 Annex A reproduced; 8192-byte ID refused.",
   note="Trusted base: refmodels::sm2 (big-integer affine/Jacobian arithmetic pinned by the Annex P, ZA, e, r, s and OpenSSL corpus). IDs are &'static str in the API, so only UTF-8 IDs are expressible.", ref="§3 C03"),
 "C04": dict(tech=E2 + " (fault enumeration of a valid signature)",
   text="For 12 (thorough 60) reference-made signatures: all 512 single-bit flips, r/s substituted by {0,1,n-1,n,n+1,p,2^256-1}, s=n-r, swapped, r+n/s+n, altered message/ID/key, -P, every encoding length 0..=130, the 12x12 boundary product, and pre-searched signatures with r or s < 2^224 together with their +n aliases. The library must return Err exactly when the reference verifier (or the 64-byte rule) rejects, Ok when it accepts, and never panic.",
   note="Trusted base: refmodels::sm2::verify. The +n alias cases rest on pre-searched vectors in corpus/ (re-validated by the reference each run).", ref="§3 C04"),
 "C05": dict(tech=E2 + " with the nonce injected at an RNG seam",
   text="Every message length 1..=300 x 2 orders x 2 C1 encodings, keys x nonce alphabet, long messages, nonces crafted so that the KDF output is all zero (step A5 retry), KDF for every klen 1..=300 and 1024/4096/65537: ciphertext equals the reference ciphertext byte for byte for the accepted nonce, the reference decryptor recovers M (also from real-RNG ciphertexts), the library decrypts its own, reference-made and 100 OpenSSL ciphertexts; Annex example reproduced.",
   note="Trusted base: refmodels::sm2 / sm3::kdf pinned by the Annex C1,C2,C3 and the OpenSSL corpus. Messages > 64 KiB not explored.", ref="§3 C05"),
 "C06": dict(tech=E2 + " (fault enumeration of valid ciphertexts)",
   text="For base ciphertexts of lengths {1,17,32,33} (thorough 1..=40) x 4 configurations: every single-bit flip, every truncation, extension, off-curve C1 (neighbours, random, order-2) with the original body and with the body completed for the foreign point (invalid-curve attack), (0,0), x+p aliases of a tiny-x point, compressed non-residue x incl. the body completed for the bogus root, all-zero KDF, C1/C2/C3 taken from another ciphertext. Every one must give Err - never Ok, never a panic - and the untouched ciphertext must decrypt.",
   note="Trusted base: refmodels::sm2 strict decoder/decryptor (each case's expectation is cross-checked against it). y >= p aliases are not constructible (no point with y < 2^224 known).", ref="§3 C06"),
 "C11": dict(tech=E2,
   text="Field layer (via hooks): all 4-limb values with limbs in {0,1,2^32,2^63,2^64-1} below p / n, values within 4 of the modulus, 2^256-m, R, R^2, seeded; unary ops on all, binary ops on all x ~60 extreme (thorough all x all), pow with boundary exponents, crafted Montgomery products 0/1/m-1; raw u256/u512 helpers. Group layer (public API): [j]G x 4 Jacobian representations + 3 encodings of infinity, all 961 ordered pairs through point_add, dbl/neg/affine/validity/SEC1, off-curve triples, scalars {small, n-1, n+w for w<=300, 2^256-1, p, every v*16^i, every b*256^i, adjacent bytes} through g_mul and scalar_mul of 3 bases, and all 8160 table entries, against affine big-integer arithmetic.",
   note="Trusted base: refmodels::ec affine formulas. Crate-private dead code (fp_div2, trait fp_neg, fn_inv) is not judged. Operands >= modulus are never fed to modular routines.", ref="§3 C11"),
 "C14": dict(tech=E1 + " (environment = byte source behind the sampler); statistical clauses only monitored",
   text="For each of the 13 call sites the RNG seam answers with every sequence of <=2 (thorough 3) out-of-range candidates {0, order, order+1, p-2, p-1, p, 2^256-1} followed by an in-range one; the scalar the operation used - recovered from its public output with the reference and from the seam log - must be an offered candidate in [1, order-1]. All operation sequences of length 2 (thorough 3) on one thread must consume a fresh candidate each and never reuse a scalar. Claimed for the range / data-flow / freshness clauses only.",
   note="NOT decided: 'every bit unbiased' and 'OS-seeded' are distributional statements; a separate monitor (4096 draws, duplicates, 8 sigma per bit, fresh threads differ) runs but is not model checking. Trusted base: the seam hooks (additive, cfg-guarded) and refmodels.", ref="§3 C14"),
 "C15": dict(tech=E1 + " (protocol model with a man in the middle)",
   text="stateright BFS over all adversary choices on the four deliveries between two real Exchange objects (points: pass / re-randomised representation / -R / 2R / G / off-curve; hashes: pass / two bit flips / zero), per configuration, every subset of messages altered; honest paths for every klen 1..=200 and the 13x13 nonce product. Honest runs must give both sides the reference K (w=127), S_B, S_A (one-byte tags) and confirmation true; any altered message makes the receiving step fail; off-curve points are refused; no panic. Includes the GM/T 0003.5 example.",
   note="Trusted base: refmodels::sm2::kex_party pinned by the Annex K, S_B, S_A. Out-of-order calls of the four steps are outside the contract.", ref="§3 C15"),
 "C19": dict(tech=E2,
   text="Keys {1,2,n-2,Annex,seeded,searched byte patterns} through every encoder/decoder (SEC1 both forms, hex, SPKI DER/PEM LF+CRLF, bytes, PKCS#8 DER/PEM) with an independent DER reader on the library's documents; 20 OpenSSL key pairs; every length 0..=130 (bytes) / 0..=140 (hex) at the decoders, off-curve / unreduced / foreign-tag points via new, hex and SPKI; ASN.1 ciphertexts for ephemeral scalars pre-searched so that C1.x / C1.y have 1..3 leading zero bytes, trailing zeros or the high bit set: document = GM/T 0009 SEQUENCE byte for byte, decrypt_asn1 of library, reference and OpenSSL documents returns M, malformed DER refused without panic.",
   note="Trusted base: refmodels::der (60-line reader/writer), OpenSSL corpus. Private-key range (d=0, d>=n-1) is judged by C20, not here.", ref="§3 C19"),
 "C09": dict(tech=E2 + " with the nonce injected at an RNG seam; fault enumeration of valid signatures",
   text="Signing: master keys {Annex ks,1,N-2,seeded} x nonces {1,2,N-2,Annex r,2^255+1,seeded} and identities x message lengths {0,1,20,55,56,64,1024}: (h,S) equals the reference signature for the accepted r (GM/T 0044.5 example pinned), h in [1,N-1], S on the curve, accepted by the library. Verification: reference-made signatures accepted as they are and with S re-represented; all 256 single-bit flips of h, h in {0,1,N-1,N,N+1,2^256-1,h+N}, S in {-S,2S,P1,ds,infinity,off-curve,(0,0)}, altered message/identity/master public key refused with an error, never a panic.",
   note="Trusted base: refmodels::sm9 (polynomial-basis Fp12, generic Miller loop) pinned by the Annex g, ds, h, S. Forgeries are invalid by construction (no reference verification per forgery).", ref="§3 C09"),
 "C10": dict(tech=E2 + " with the nonce injected at an RNG seam; fault enumeration of valid ciphertexts",
   text="Encryption: every message length 1..=255, masters x identities x nonces at length 20, the GM/T 0044.5 example: ciphertext = reference C1||C3||C2 byte for byte (MAC = SM3(C2||K2)), library and reference decryptors recover M. Decryption of reference-made ciphertexts: every single-bit flip, every truncation, extension, over-long body, other identity, foreign tag, C1 off-curve with the original body and with the body recomputed for the foreign point via the library's own pairing (invalid-curve attack), (0,0), unreduced x, another valid point - all refused with an error, never a plaintext, never a panic.",
   note="Trusted base: refmodels::sm9 pinned by the Annex C1, C2, C3. Messages over 255 bytes are outside the property.", ref="§3 C10"),
 "C12": dict(tech=E2,
   text="P=[b]P1, Q=[a]P2 over {1,2,3,N-1,N-2,2^128,Annex ks,seeded}: full product a x b compared byte for byte (384 bytes) with e(P1,P2)^(ab) from the reference; the diagonal and a spread of pairs against a full reference evaluation on those very points; every pair again with Jacobian inputs Z != 1; e(P1,P2) != 1 and of order N; GM/T 0044.5 value of e(P1,Ppub-s).",
   note="Trusted base: refmodels::sm9::pairing (generic Miller loop over 6t+2, two Frobenius steps, exponent (p^12-1)/N by square-and-multiply). Identity arguments must give 1.", ref="§3 C12"),
 "C13": dict(tech=E2,
   text="Fp / mod N limb-pattern and boundary alphabets; Fp2 all 24x24 boundary elements (unary on all, binary on a 1/5 stride of pairs, thorough all pairs); Fp4 all 6^4 elements; Fp12 one element per subset of zero components (4096) + basis: every unary op incl. the four Frobenius maps and inversion, mul/add/sub against 64 partners, pow, sparse line multiplication with every zero pattern; Booth recoding for w in {5,7}; G1/G2: [j]P x 4 Jacobian representations + infinity, all ordered pairs through add/sub/add_full/equality, scalar multiplication over every Booth (window,digit) combination, multiplication sequences over related bases, all 37x64 fixed-base table entries; against polynomial-basis and affine big-integer arithmetic.",
   note="Trusted base: refmodels (Fp12 = Fp[w]/(w^12+2)). One known finding is listed (TwistPoint::point_equals returns 'x equal or y equal': 8 classes). Non-canonical operands are never fed to the arithmetic.", ref="§3 C13"),
 "C16": dict(tech=E2,
   text="Ha = q(N-1)+r over boundary/seeded q x r (incl. r in {0..5}, N-3, N-2), all-ones word patterns and seeded values through mod_n_from_hash; H1 for every identity length 0..=300 x hid x 2 contents; H2 over 36 length pairs; extraction for 7 master keys x 5 identities x {sign,enc,exch} and master keys crafted so that H1+k = 0, +-1: results equal (Ha mod (N-1))+1 and [k(H1+k)^-1]P, failure reported exactly when H1+k = 0.",
   note="Trusted base: big-integer arithmetic in refmodels::sm9; Annex ds_A / de_B pinned in the reference self-test.", ref="§3 C16"),
 "C17": dict(tech=E1 + " (protocol model with a man in the middle)",
   text="stateright enumeration of all adversary choices for R_A->B and R_B->A ({pass, re-randomised, -R, 2R, P1, off-curve}^2) per configuration on the real exch_step_1a/1b/2a with seam-fixed ephemeral scalars, plus honest paths for every klen 1..=128: honest runs give SK_A = SK_B = reference KDF(ID_A||ID_B||R_A||R_B||g1||g2||g3) (GM/T 0044.5 example included); off-curve R refused; any other altered R makes the keys differ; no panic.",
   note="Trusted base: refmodels::sm9::exchange (three reference pairings per configuration). The optional confirmation hashes of GM/T 0044.3 are not implemented by the library and not part of the property.", ref="§3 C17"),
 "C20": dict(tech=E2 + ", each call in a watched child process (panic capture + wall-clock watchdog)",
   text="About 27 000 calls (quick): for every listed entry point every input length 0..=200 (0..=400 for SM9 decryption) x {0x00,0xFF,seeded}, every truncation and every single-byte corruption (4 kinds per position) of a valid encoding, trailing bytes, hex strings of every length with a non-hex character at every position, PEM truncations/corruptions, SM9 (h,S) from bytes in affine / Jacobian / infinity form, boundary private keys whose accepted instances must sign, encrypt, decrypt and agree on a key to completion. Outcome must be Ok or Err; panic, arithmetic overflow (overflow checks are on), abort and time-out (5 s per call) are violations.",
   note="Trusted base: the child-process supervisor (BEGIN/END protocol, restart after a kill). Whether an Ok was deserved is judged by C04/C06/C07/C19, so a lenient decoder cannot raise an alarm here. One known finding is listed (mod_n_from_hash on fewer than 40 bytes: no error channel). ZUC/EEA/EIA are not in the statement's list and are not swept.", ref="§3 C20"),
}




NOT_YET = {
}

def main():
    root = "/verif"
    props = [json.loads(l)["id"] for l in open(f"{root}/properties.jsonl")]
    hooks_commits = subprocess.run(["git", "-C", "/repo", "log", "--format=%h %s"], capture_output=True, text=True).stdout.splitlines()
    hook_ids = [l.split()[0] for l in hooks_commits if l.split(" ", 1)[1].startswith("verif hooks")]
    checks = []
    na = []
    for pid in props:
        if pid in CHECKS:
            c = dict(CHECKS[pid])
            # the enumeration rule is kept next to the code that implements it (ctx.set_rule) and copied from the
            # evidence of the last quick run, so that the claim cannot drift away from what the check does
            try:
                ev = json.load(open(f"{root}/evidence/{pid}.json"))
                rule = ev["coverage"].get("rule", "")
                if rule:
                    c["text"] = "Exhaustive within the following alphabets and bounds (quick tier; the thorough tier widens them), every case executed on the real code and compared with the independent reference model; says nothing about inputs outside them. " + rule + (" Also: cold-start histories (each listed operation as the first operation of a fresh process vs the warm process)." if "cold_start_histories" in ev["coverage"].get("structural", {}) else "")
            except Exception:
                pass
            checks.append({
                "property_id": pid,
                "quick_cmd": f"./check {pid} quick",
                "thorough_cmd": f"./check {pid} thorough",
                "evidence_file": f"/verif/evidence/{pid}.json",
                "replay_cmd_template": "./check --replay {path}",
                "engine": "gmverif",
                "level_claimed": {"category": "model_checking", "text": c["text"], "design_ref": c["ref"]},
                "level_note": c["note"],
                "technique": c["tech"],
            })
        else:
            na.append({"property_id": pid, "reason": NOT_YET.get(pid, "check not built yet in this session; no claim is made for this property")})
    m = {
        "version": 1,
        "setup_cmd": "./check --build",
        "hooks": {
            "guard": "gm_rs_verif (rustc --cfg)",
            "enable": "RUSTFLAGS=\"--cfg gm_rs_verif\" (set by ./check for the harness build, own CARGO_TARGET_DIR=/verif/harness/target)",
            "baseline_off_cmd": "cd /repo && cargo nextest run --workspace --no-fail-fast --offline",
            "source_commits": hook_ids,
            "add_only": True,
        },
        "engines": [
            {"name": "gmverif", "path": "/verif/harness/gmverif", "serves_properties": [c["property_id"] for c in checks],
             "kind_free_text": "Rust harness path-depending on /repo crates: stateright 0.31 BFS over histories on the real code (E1) and exhaustive rayon product enumeration of named alphabets (E2), both against independent reference models in /verif/harness/refmodels"},
        ],
        "checks": checks,
        "not_applicable": na,
        "notes": "exit 0 = held on everything explored (KNOWN-FINDING lines possible); exit 1 = VIOLATION line(s); exit >= 2 = machinery error, never a verdict. See DESIGN.md.",
    }
    json.dump(m, open(f"{root}/MANIFEST.json", "w"), indent=1)
    print("checks:", len(checks), "not_applicable:", len(na))

if __name__ == "__main__":
    main()
