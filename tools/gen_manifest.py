#!/usr/bin/env python3
"""Regenerates /verif/MANIFEST.json from the table below (single source of truth for the interface)."""
import json, subprocess, os

E1 = "explicit-state BFS (stateright 0.31) over operation/tamper/RNG-answer histories executed on the real code, reference-model invariant in every state"
E2 = "bounded exhaustive product enumeration of named input alphabets on the real code against an independent reference model"

CHECKS = {
 "C01": dict(tech=E2 + "; plus " + E1 + " for purity",
   text="Every message length 0..=1100 (thorough 0..=4096) in 5 content classes, every single-bit message of 55/56/63/64/192 bytes, block-boundary lengths up to 40 blocks, one message of 2^29+3 bytes, and every call sequence of length <=3 over 6 messages (stateright) are hashed by gm_sm3::sm3_hash and compared with an independent streaming SM3 pinned by GB/T 32905 vectors and an OpenSSL corpus. Exhaustive within those alphabets; says nothing about messages outside them.",
   note="Trusted base: refmodels::sm3 (self-tested against standard vectors and 309 OpenSSL digests), rustc, the harness. Assumes the small-scope hypothesis for lengths beyond the bound.", ref="§3 C01"),
 "C02": dict(tech=E2 + "; plus " + E1 + " for object immutability",
   text="Full product of ~150 structured keys x ~150 structured blocks through encrypt, decrypt and both round trips, two derived families that drive every S-box index through every byte lane of the data path and of the key schedule (2048/2048 covered, measured), and all 341 operation sequences to depth 4 on one cipher object (stateright), each compared with an independent SM4 whose S-box is generated algebraically.",
   note="Trusted base: refmodels::sm4 (GB/T 32907 vector, 10^6 iterate in thorough, OpenSSL ECB corpus). Keys/blocks outside the structured alphabets are not covered.", ref="§3 C02"),
 "C07": dict(tech=E2,
   text="mode x every data length 0..=200 (thorough 600) x 2 keys x 19 IVs (incl. carries through 0..16 trailing 0xFF bytes) x 2 contents: ciphertext must equal the textbook mode over the reference cipher and the library must decrypt the reference ciphertext; IV lengths 0..=32, CBC ciphertexts of every length, and every final padding byte value 0..=255 must be rejected/accepted as the property states, never panic.",
   note="Trusted base: refmodels::sm4 modes, pinned by 794 OpenSSL 3.0 vectors (corpus/sm4_modes.json). For a final byte in 1..=16 with malformed padding only 'no panic and, if Ok, the right prefix' is demanded (the property does not ask for full PKCS#7 validation).", ref="§3 C07"),
 "C08": dict(tech=E1 + "; plus long-stream comparison",
   text="stateright BFS over every composition of every total <=12 words with up to 1 (thorough 2) empty requests on the real ZUC generator for 5 key/IV pairs, plus the 256 single-bit keys/IVs with short totals; invariant in every state: concatenated output equals the reference keystream prefix and each request returns the requested count. 2^16-word streams in 1, 16 and 256 requests compared word by word; reference counts S-box indices hit (1024/1024).",
   note="Trusted base: refmodels::zuc (u64 arithmetic mod 2^31-1, generated S-boxes, three official vectors). The LFSR s16==0 branch cannot be forced from outside.", ref="§3 C08"),
 "C18": dict(tech=E2,
   text="Every LENGTH 0..=600 (EIA3) / 1..=600 (EEA3) x (bearer,direction) pairs x 3 key/COUNT values x 3 message classes, and every single-bit flip of the message for every LENGTH<=96 and every 37th after, compared with bit-level 128-EEA3/128-EIA3 over the independent ZUC; EEA3 applied twice must restore the first LENGTH bits.",
   note="Trusted base: refmodels::zuc eea3/eia3, pinned by 3GPP EEA3 set 1 and EIA3 sets 1, 2 and the 577-bit set. LENGTH > 600 and messages shorter than ceil(LENGTH/32) words are outside the bound/contract.", ref="§3 C18"),
}

NOT_YET = {
}

def main():
    root = "/verif"
    props = [json.loads(l)["id"] for l in open(f"{root}/properties.jsonl")]
    hooks_commits = subprocess.run(["git", "-C", "/repo", "log", "--format=%h %s"], capture_output=True, text=True).stdout.splitlines()
    hook_ids = [l.split()[0] for l in hooks_commits if l.split(" ", 1)[1].startswith("verif hooks")]
    checks = []
    na = []
    for pid in props:
        if pid in CHECKS:
            c = CHECKS[pid]
            checks.append({
                "property_id": pid,
                "quick_cmd": f"./check {pid} quick",
                "thorough_cmd": f"./check {pid} thorough",
                "evidence_file": f"/verif/evidence/{pid}.json",
                "replay_cmd_template": "./check --replay {path}",
                "engine": "gmverif",
                "level_claimed": {"category": "model_checking", "text": c["text"], "design_ref": c["ref"]},
                "level_note": c["note"],
                "technique": c["tech"],
            })
        else:
            na.append({"property_id": pid, "reason": NOT_YET.get(pid, "check not built yet in this session; no claim is made for this property")})
    m = {
        "version": 1,
        "setup_cmd": "./check --build",
        "hooks": {
            "guard": "gm_rs_verif (rustc --cfg)",
            "enable": "RUSTFLAGS=\"--cfg gm_rs_verif\" (set by ./check for the harness build, own CARGO_TARGET_DIR=/verif/harness/target)",
            "baseline_off_cmd": "cd /repo && cargo nextest run --workspace --no-fail-fast --offline",
            "source_commits": hook_ids,
            "add_only": True,
        },
        "engines": [
            {"name": "gmverif", "path": "/verif/harness/gmverif", "serves_properties": [c["property_id"] for c in checks],
             "kind_free_text": "Rust harness path-depending on /repo crates: stateright 0.31 BFS over histories on the real code (E1) and exhaustive rayon product enumeration of named alphabets (E2), both against independent reference models in /verif/harness/refmodels"},
        ],
        "checks": checks,
        "not_applicable": na,
        "notes": "exit 0 = held on everything explored (KNOWN-FINDING lines possible); exit 1 = VIOLATION line(s); exit >= 2 = machinery error, never a verdict. See DESIGN.md.",
    }
    json.dump(m, open(f"{root}/MANIFEST.json", "w"), indent=1)
    print("checks:", len(checks), "not_applicable:", len(na))

if __name__ == "__main__":
    main()
