#!/bin/bash
# usage: tools/seed_confirm.sh <scratch-worktree> <changeN> <crate> <seed-id>
# Confirms in the scratch worktree: tests pass with the change; demo fails with it and passes without.
# On success copies patch.diff, demo.rs, meta.json (+ confirmation) to /verif/seeded/<seed-id>/.
wt="$1"; ch="$2"; crate="$3"; id="$4"
cd "$wt" || exit 9
git checkout -q -- . ; rm -f $crate/tests/demo.rs
S="$wt/SEED/$ch"
mkdir -p $crate/tests
rel=""; grep -q -- "--release" "$S/meta.json" && rel="--release"
git apply "$S/patch.diff" || { echo "APPLY-FAIL"; exit 8; }
tests=$(cargo nextest run --workspace --no-fail-fast --offline 2>&1 | grep -E "Summary" | sed 's/.*Summary//')
cp "$S/demo.rs" $crate/tests/demo.rs
cargo test --offline $rel -p $crate --test demo >/tmp/seed/demo_with.log 2>&1; with=$?
git checkout -q -- .
cargo test --offline $rel -p $crate --test demo >/tmp/seed/demo_without.log 2>&1; without=$?
rm -f $crate/tests/demo.rs; rmdir $crate/tests 2>/dev/null
echo "$id: tests_with_change:[$tests] demo_with_change_exit=$with demo_clean_exit=$without"
if [ $with -ne 0 ] && [ $without -eq 0 ] && echo "$tests" | grep -q "41 passed"; then
  mkdir -p /verif/seeded/$id && cp "$S/patch.diff" "$S/demo.rs" /verif/seeded/$id/
  python3 - "$S/meta.json" "/verif/seeded/$id/meta.json" "$tests" "$crate" <<'PY'
import json,sys
m=json.load(open(sys.argv[1]))
m['confirmed']={'existing_tests_with_change':sys.argv[3].strip(),'demo_with_change':'fails','demo_on_clean_tree':'passes','how':'tools/seed_confirm.sh in a scratch worktree: git apply patch.diff; cargo nextest run --workspace --offline; cp demo.rs %s/tests/demo.rs; cargo test --offline -p %s --test demo; git checkout -- .; same demo again'%(sys.argv[4],sys.argv[4])}
json.dump(m,open(sys.argv[2],'w'),indent=1)
PY
  echo "  KEPT /verif/seeded/$id"
else echo "  NOT-CONFIRMED"; fi
