#!/bin/bash
# Re-runs every seeded change against the check of its property (quick tier) and rewrites seeded/RESULTS.md.
# With arguments (seed ids): re-runs only those and replaces / adds their rows in the existing table.
cd /verif
final=seeded/RESULTS.md
only="$*"
out=$final
if [ -n "$only" ]; then out=/tmp/seed_matrix_rows.$$; : > $out; fi
[ -z "$only" ] && cat > $out <<'HDR'
# Seeded changes and which check catches them

Each directory holds `patch.diff` (relative to the current /repo HEAD; apply with `git -C /repo apply`, undo with
`git -C /repo checkout -- .`), `demo.rs` (fails with the change, passes without) and `meta.json` (what it needs to
manifest, what was run, and the re-validation against the final HEAD). All were written by fresh sub-agents that saw
only the property text and a scratch worktree; all keep the 41 repository tests green. This table is produced by
`tools/seed_matrix.sh` (apply, `./check <Cxx> quick`, undo).

| seed | summary | needs | quick check verdict | first violation class |
|---|---|---|---|---|
HDR
for d in $(if [ -n "$only" ]; then echo $only; else ls seeded | grep "^C" | sort; fi); do
  prop=${d%%-*}
  st=$(python3 -c "import json;m=json.load(open('seeded/$d/meta.json'));print(m.get('rebased',{}).get('result','?'))")
  sum=$(python3 -c "import json;m=json.load(open('seeded/$d/meta.json'));print(m.get('summary','').replace('|','/').replace('\n',' ')[:160])")
  needs=$(python3 -c "import json;m=json.load(open('seeded/$d/meta.json'));print(m.get('needs','').replace('|','/').replace('\n',' ')[:160])")
  also=$(python3 -c "import json;m=json.load(open('seeded/$d/meta.json'));print(' '.join(m.get('also_check',[])))")
  excl=$(python3 -c "import json;m=json.load(open('seeded/$d/meta.json'));print(m.get('excluded','').replace('|','/'))")
  if [ -n "$excl" ]; then echo "| $d | $sum | $needs | excluded | $excl |" >> $out; echo "$d excluded"; continue; fi
  case "$st" in ok*|"?") ;; *)
    if [ -z "$also" ]; then echo "| $d | $sum | $needs | no longer breaks $prop at the final HEAD: $st | |" >> $out; continue; fi;;
  esac
  verdict=""; cls=""
  case "$st" in ok*|"?")
    tier=$(python3 -c "import json;m=json.load(open('seeded/$d/meta.json'));print(m.get('tier','quick'))")
    r=$(tools/seedtest.sh /verif/seeded/$d/patch.diff $prop $tier 2>&1)
    verdict=$(echo "$r" | grep -E "^(DETECTED|MISSED|MACHINERY|PATCH)" | head -1 | cut -d' ' -f1)
    cls=$(echo "$r" | grep "site=" | head -1 | sed 's/ cases=.*//' | sed 's/^ *//' | cut -c1-150 | sed 's/|/\//g');;
  *) verdict="masked-for-$prop($st)";;
  esac
  if [ "$verdict" != "DETECTED" ]; then
    for q in $also; do
      r=$(tools/seedtest.sh /verif/seeded/$d/patch.diff $q quick 2>&1)
      v2=$(echo "$r" | grep -E "^(DETECTED|MISSED|MACHINERY|PATCH)" | head -1 | cut -d' ' -f1)
      if [ "$v2" = "DETECTED" ]; then
        verdict="$verdict; DETECTED by $q"
        cls=$(echo "$r" | grep "site=" | head -1 | sed 's/ cases=.*//' | sed 's/^ *//' | cut -c1-150 | sed 's/|/\//g')
      fi
    done
  fi
  [ "$tier" = thorough ] && verdict="$verdict (thorough tier)"
  echo "| $d | $sum | $needs | $verdict | $cls |" >> $out
  echo "$d $verdict"
done

if [ -n "$only" ]; then
  python3 - $out $final <<'PY'
import sys
rows={l.split('|')[1].strip():l for l in open(sys.argv[1]) if l.startswith('|')}
lines=open(sys.argv[2]).read().split('\n')
head=[l for l in lines if not l.startswith('| C')]
body={l.split('|')[1].strip():l for l in lines if l.startswith('| C')}
for k,v in rows.items(): body[k]=v.rstrip('\n')
while head and head[-1]=='': head.pop()
open(sys.argv[2],'w').write('\n'.join(head+[body[k] for k in sorted(body)])+'\n')
PY
  rm -f $out
fi
