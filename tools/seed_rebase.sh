#!/bin/bash
# usage: tools/seed_rebase.sh <seed-id> <crate>
# Re-validates /verif/seeded/<id> against the CURRENT /repo HEAD in a scratch worktree:
#  patch applies (3-way), 41 tests pass with it, demo fails with it and passes without it.
# Rewrites patch.diff relative to HEAD and records the result in meta.json ("rebased").
id="$1"; crate="$2"; S=/verif/seeded/$id; WT=/tmp/seed/rebase-$id
git -C /repo worktree add -q --detach $WT HEAD || exit 9
cd $WT
res="ok"
if ! git apply --3way "$S/patch.diff" 2>/dev/null; then res="patch-does-not-apply"; fi
if [ "$res" = ok ]; then
  git reset -q; git diff > /tmp/seed/$id.newpatch
  rel=""; grep -q -- "--release" "$S/meta.json" && rel="--release"
  tests=$(cargo nextest run --workspace --no-fail-fast --offline 2>&1 | grep -E "Summary" | sed 's/.*Summary//')
  mkdir -p $crate/tests; cp "$S/demo.rs" $crate/tests/demo.rs
  cargo test --offline $rel -p $crate --test demo >/dev/null 2>&1; with=$?
  rm -f $crate/tests/demo.rs; git checkout -q -- .
  cp "$S/demo.rs" $crate/tests/demo.rs
  cargo test --offline $rel -p $crate --test demo >/dev/null 2>&1; without=$?
  if ! echo "$tests" | grep -q "41 passed"; then res="existing-tests-fail-with-change"; 
  elif [ $with -eq 0 ]; then res="demo-passes-with-change(masked-by-repairs)";
  elif [ $without -ne 0 ]; then res="demo-fails-on-clean-HEAD"; fi
  [ "$res" = ok ] && cp /tmp/seed/$id.newpatch "$S/patch.diff"
fi
cd /; git -C /repo worktree remove --force $WT
python3 - "$S/meta.json" "$res" "$(git -C /repo log --format=%h -1)" <<'PY'
import json,sys
m=json.load(open(sys.argv[1])); m['rebased']={'repo_head':sys.argv[3],'result':sys.argv[2]}
json.dump(m,open(sys.argv[1],'w'),indent=1)
PY
echo "$id: $res"
