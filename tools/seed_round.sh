#!/bin/bash
# usage: tools/seed_round.sh <Cxx> <worktree-suffix>
# For every SEED/changeN an agent left in /tmp/seed/wt-<Cxx><suffix>: confirm it (seed_confirm.sh), store it under the next
# free /verif/seeded/<Cxx>-<k>, run the property's quick check against it (seedtest.sh) and print the verdict.
p="$1"; suf="$2"; wt=/tmp/seed/wt-$p$suf
for ch in $(ls $wt/SEED 2>/dev/null | sort); do
  [ -f $wt/SEED/$ch/patch.diff ] || continue
  crate=$(python3 - $wt/SEED/$ch/meta.json $wt/SEED/$ch/patch.diff <<'PY'
import json,sys,re
m=json.load(open(sys.argv[1])); cmd=m.get('demo_cmd','')
r=re.search(r'-p (gm-\w+)',cmd)
if r: print(r.group(1))
else:
    files=' '.join(m.get('files',[]))+open(sys.argv[2]).read()
    for c in ['gm-sm9','gm-sm4','gm-sm3','gm-zuc','gm-sm2']:
        if c in files: print(c); break
PY
)
  k=1; while [ -d /verif/seeded/$p-$k ]; do k=$((k+1)); done
  id=$p-$k
  out=$(/verif/tools/seed_confirm.sh $wt $ch $crate $id 2>&1 | tail -2)
  echo "$out"
  if echo "$out" | grep -q KEPT; then
    python3 - /verif/seeded/$id/meta.json <<'PY'
import json,sys
m=json.load(open(sys.argv[1])); m["round"]=14; json.dump(m,open(sys.argv[1],'w'),indent=1)
PY
    /verif/tools/seedtest.sh /verif/seeded/$id/patch.diff $p 2>&1 | grep -E "DETECTED|MISSED|site=" | head -3
  fi
done
