#!/bin/bash
# usage: tools/seedtest.sh <patch.diff> <Cxx> [tier]   -- apply a seeded change to /repo, run one check, undo.
# Prints DETECTED / MISSED and always restores /repo (git checkout -- . ; no commit is ever made).
patch="$1"; prop="$2"; tier="${3:-quick}"
cd /repo || exit 9
if ! git diff --quiet; then echo "REPO DIRTY - refusing"; exit 9; fi
if ! git apply --3way "$patch" 2>/tmp/seedtest.err && ! git apply "$patch" 2>>/tmp/seedtest.err; then
  git reset -q --hard HEAD 2>/dev/null
  echo "PATCH-DOES-NOT-APPLY $patch"; cat /tmp/seedtest.err | head -5; exit 8
fi
git reset -q 2>/dev/null
out=$(cd /verif && ./check "$prop" "$tier" 2>&1); rc=$?
git -C /repo checkout -- .
git -C /repo status --short | grep -v '^??' | head -3
if [ $rc -eq 1 ]; then echo "DETECTED rc=1 $prop $patch"; echo "$out" | grep -A1 "^VIOLATION" | head -6
elif [ $rc -eq 0 ]; then echo "MISSED rc=0 $prop $patch"
else echo "MACHINERY rc=$rc $prop $patch"; echo "$out" | tail -8; fi
exit 0
